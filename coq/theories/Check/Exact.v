(* Check/Exact.v — the C05 transfer validator (executable definitions only;
   proofs are in Proofs/ExactProofs.v).

   Two sides:

   * SCHEMA side, [root_ok re D s v]: the conjunction of the constraints OF THE
     ENFORCED KINDS (property C05) that schema node [s] states about the ROOT
     of instance [v]: JSON type, enum / const membership, minLength/maxLength
     (Unicode scalar values) / pattern, required non-nullable members, closed
     object (additionalProperties:false), fixed array length
     (minItems = maxItems), `not {enum}` deny list.  It is built from the leaf
     predicates of Spec/Valid.v, so ExactProofs.root_ok_of_valid shows that an
     instance with [root_ok = false] is INVALID.  A node that is a "$ref" (whose
     siblings draft-07 ignores) or a union (allOf/anyOf/oneOf) states nothing
     at the root in this sense.

   * TRANSFER, [exact re D T A s t]: "every such constraint stated by [s] (and,
     recursively, by its properties / items / additionalProperties schema /
     referenced definitions) is represented in the type [t] of the type space
     [T]": schema maxLength/minLength/pattern = the newtype's, enum values ⊇
     variant raw names / CEnum list (and every variant satisfies the string
     constraints - in scalar values), `not enum` ⊆ CDeny list, required
     non-nullable members are PRequired members whose type does not reach an
     Option through Box / transparent newtypes (such a member may be absent:
     IR/Serde.v [missing]), closed ⇒
     deny_unknown_fields and no flattened map, fixed length ⇒ tuple / array of
     that length, scalar JSON type ⇒ a type accepting only that JSON type, tag
     constants of a tagged oneOf = the raw names of the enum's variants.
     Recursion through "$ref" by assumed pairs [A] (as Check/Covers.v).

   Soundness proved (ExactProofs): at the ROOT position, for every node kind
   except unions: exact = true -> accepted v -> root_ok s v = true
   (exact_root_sound), i.e. an instance violating a stated enforced
   constraint at the root is rejected.  The recursive lifting and the tag part
   are checked (this file) but their soundness is not proved (_partial). *)
From Coq Require Import String ZArith NArith QArith List Bool.
From Typify Require Import Base.Json Spec.Schema Spec.Valid IR.TypeIR IR.Serde Check.Covers.
Import ListNotations.
Close Scope Q_scope.
Close Scope string_scope.
Open Scope list_scope.

(* ------------------------------------------------------------------ schema side *)
Definition is_none {X} (o : option X) : bool := match o with None => true | Some _ => false end.

Definition is_strv_none (sv : strv) : bool :=
  is_none (s_max_length sv) && is_none (s_min_length sv) && is_none (s_pattern sv).

Definition is_numv_none (nv : numv) : bool :=
  is_none (n_multiple_of nv) && is_none (n_maximum nv) && is_none (n_exclusive_maximum nv)
  && is_none (n_minimum nv) && is_none (n_exclusive_minimum nv).

(* `not: {"enum": es}` / `not: {"type": ty, "enum": es}` and nothing else *)
Definition deny_shape (s : schema) : bool :=
  match s with
  | SBool _ => false
  | SObj ty fmt enum cst nv sv ik items ai mni mxi uq props req ap mnp mxp allo anyo oneo no ref _ _ =>
      is_none fmt && is_none cst && is_numv_none nv && is_strv_none sv
      && match ik with ItemsAbsent => true | _ => false end
      && match items with [] => true | _ => false end
      && is_none ai && is_none mni && is_none mxi && negb uq
      && match props with [] => true | _ => false end
      && match req with [] => true | _ => false end
      && is_none ap && is_none mnp && is_none mxp
      && is_none allo && is_none anyo && is_none oneo && is_none no && is_none ref
  end.

Definition deny_of (no : option schema) : option (option (list itype) * list json) :=
  match no with
  | Some s => if deny_shape s
              then match sch_enum s with Some es => Some (sch_types s, es) | None => None end
              else None
  | None => None
  end.

Definition deny_ok (no : option schema) (v : json) : bool :=
  match deny_of no with
  | Some (ty, es) => negb (valid_type serde_ints ty v && valid_enum (Some es) v)
  | None => true
  end.

Definition closed_ok (props : list (ustring * schema)) (ap : option schema) (v : json) : bool :=
  match ap, v with
  | Some (SBool false), JObj kvs => forallb (fun kv => has_key (fst kv) props) kvs
  | _, _ => true
  end.

Definition is_closed (ap : option schema) : bool :=
  match ap with Some (SBool false) => true | _ => false end.

Definition arity_of (mni mxi : option N) : option N :=
  match mni, mxi with
  | Some a, Some b => if N.eqb a b then Some a else None
  | _, _ => None
  end.

Definition arity_ok (mni mxi : option N) (v : json) : bool :=
  match arity_of mni mxi, v with
  | Some n, JArr l => N.eqb (N.of_nat (length l)) n
  | _, _ => true
  end.

(* may the schema accept `null`?  (syntactic, over-approximating: unknown = yes) *)
Fixpoint nullable (D : defs) (fuel : nat) (s : schema) {struct fuel} : bool :=
  match s with
  | SBool b => b
  | SObj ty _ enum cst _ _ _ _ _ _ _ _ _ _ _ _ _ allo anyo oneo no ref _ _ =>
      match ref with
      | Some r => match fuel with
                  | O => true
                  | S f => match resolve_ref D r with Some s' => nullable D f s' | None => true end
                  end
      | None =>
          match ty with
          | Some l => existsb (itype_eqb TNull) l
          | None =>
              match enum, cst, allo, anyo, oneo, no with
              | None, None, None, None, None, None => true
              | Some es, _, _, _, _, _ => existsb (json_equiv JNull) es
              | None, Some c, _, _, _, _ => json_equiv JNull c
              | _, _, _, _, _, _ => true
              end
          end
      end
  end.

Definition NFUEL : nat := 4.

(* EFFECTIVE closedness of a schema read as a conjunction (independent of how typify merges): an object is
   closed iff the node itself, ANY conjunct of its allOf, or the target of its "$ref" is closed - whatever the
   other conjuncts say (additionalProperties absent / true / a schema) and in whatever order *)
Fixpoint eff_closed (D : defs) (fuel : nat) (s : schema) {struct fuel} : bool :=
  match fuel with
  | O => false
  | S f =>
      match s with
      | SBool _ => false
      | SObj _ _ _ _ _ _ _ _ _ _ _ _ _ _ ap _ _ allo _ _ _ ref _ _ =>
          is_closed ap
          || match allo with Some bs => existsb (eff_closed D f) bs | None => false end
          || match ref with
             | Some r => match resolve_ref D r with Some s' => eff_closed D f s' | None => false end
             | None => false
             end
      end
  end.
Definition CFUEL : nat := 6.

(* the required members whose absence is a violation C05 speaks about *)
Definition req_enf (D : defs) (props : list (ustring * schema)) (req : list ustring) : list ustring :=
  filter (fun k => match assoc k props with
                   | Some ps => negb (nullable D NFUEL ps)
                   | None => true
                   end) req.

Definition is_union (allo anyo oneo : option (list schema)) : bool :=
  negb (is_none allo && is_none anyo && is_none oneo).

Section RootOk.
  Variable re_match : ustring -> ustring -> bool.
  Variable D : defs.

  Definition root_ok (s : schema) (v : json) : bool :=
    match s with
    | SBool _ => true                         (* states nothing of the enforced kinds *)
    | SObj ty fmt enum cst nv sv ik items ai mni mxi uq props req ap mnp mxp allo anyo oneo no ref dflt title =>
        if negb (is_none ref) || is_union allo anyo oneo then true else
        valid_type serde_ints ty v
        && (valid_enum enum v && valid_const cst v)
        && valid_str re_match sv v
        && valid_obj_local (req_enf D props req) None None v
        && closed_ok props ap v
        && arity_ok mni mxi v
        && deny_ok no v
    end.
End RootOk.

(* ------------------------------------------------------------------ violations at any depth
   [viol re D s v]: instance [v] violates a constraint of the enforced kinds stated by schema [s]
   at SOME position the walk below reaches: the root ([V_here]), through "$ref" ([V_ref]), a
   declared property ([V_prop]), an array element ([V_item]), a tuple position ([V_tuple]), a value
   admitted by a typed additionalProperties and not a declared property ([V_addl]), the non-null
   branch of a nullable oneOf/anyOf ([V_opt]), or the tag of a tagged oneOf ([V_tag]).  This is what
   the eight single-constraint mutators of property C05 produce.
   Side conditions (each documented in notes/C05.md):
   * [alt_free] at the violating node: not one of serde's two alternative wire forms (an array where
     the schema admits objects - struct from a sequence; an object where the schema admits strings -
     finding C05-F2);
   * below the root the walk does not pass through or end at the value `null` ([x <> JNull]): an
     explicit null at a member that may be absent is finding C05-F3. *)
Definition plain (s : schema) : bool :=
  match s with
  | SBool _ => false
  | SObj _ _ _ _ _ _ _ _ _ _ _ _ _ _ _ _ _ allo anyo oneo _ ref _ _ => is_none ref && negb (is_union allo anyo oneo)
  end.

Definition alt_free (s : schema) (v : json) : bool :=
  match v with
  | JArr _ => negb (valid_type serde_ints (sch_types s) (JObj []))
  | JObj _ => negb (valid_type serde_ints (sch_types s) (JStr []))
  | _ => true
  end.

Definition typed_schema (s : schema) : bool := match s with SBool _ => false | SObj _ _ _ _ _ _ _ _ _ _ _ _ _ _ _ _ _ _ _ _ _ _ _ _ => true end.

(* union of a nullable: oneOf / anyOf (no other union keyword, no "$ref") *)
Definition union_branches (s : schema) : option (list schema) :=
  match s with
  | SObj _ _ _ _ _ _ _ _ _ _ _ _ _ _ _ _ _ None (Some bs) None _ None _ _
  | SObj _ _ _ _ _ _ _ _ _ _ _ _ _ _ _ _ _ None None (Some bs) _ None _ _ => Some bs
  | _ => None
  end.

(* the tag constant a branch of a tagged oneOf pins property [tg] to *)
Definition branch_tag_of (tg : ustring) (b : schema) : option ustring :=
  match assoc tg (sch_props b) with
  | Some ts => match sch_enum ts, sch_const ts with
               | Some [JStr x], None => Some x
               | None, Some (JStr x) => Some x
               | _, _ => None
               end
  | None => None
  end.

(* [v] carries, under [tg], a value that is none of the branches' tag constants *)
Definition tag_bad (tg : ustring) (bs : list schema) (v : json) : bool :=
  match v with
  | JObj kvs =>
      match assoc tg kvs with
      | Some (JStr x) => negb (existsb (fun b => match branch_tag_of tg b with
                                                 | Some y => ustr_eqb x y
                                                 | None => false
                                                 end) bs)
      | Some _ => true             (* the constants are strings *)
      | None => false              (* a missing tag is a missing required member, not a tag violation *)
      end
  | _ => false
  end.

(* the REQUIRED property that every branch of a oneOf pins to one string constant, if there is exactly one *)
Definition common_tag (bs : list schema) : option ustring :=
  match bs with
  | [] => None
  | b0 :: _ =>
      match filter (fun tg => forallb (fun b => is_some (branch_tag_of tg b) && mem_ustr tg (sch_required b)) bs)
                   (map fst (sch_props b0)) with
      | [tg] => Some tg
      | _ => None
      end
  end.

Definition no_null (bs : list schema) : bool := negb (existsb null_only bs).
Definition ctag_ok (bs : list schema) (tg : ustring) : bool :=
  match common_tag bs with Some tg' => ustr_eqb tg' tg | None => true end.

Section Viol.
  Variable re_match : ustring -> ustring -> bool.
  Variable D : defs.

  Inductive viol : schema -> json -> Prop :=
  | V_here s v : root_ok re_match D s v = false -> alt_free s v = true -> viol s v
  | V_ref s r s' v : sch_ref s = Some r -> resolve_ref D r = Some s' -> v <> JNull -> viol s' v -> viol s v
  | V_prop s k s' kvs x :
      plain s = true -> In (k, s') (sch_props s) -> assoc k kvs = Some x -> x <> JNull ->
      viol s' x -> viol s (JObj kvs)
  | V_item s s' l x :
      plain s = true -> sch_items s = (ItemsSingle, [s']) -> In x l -> x <> JNull ->
      viol s' x -> viol s (JArr l)
  | V_tuple s ss l i s' x :
      plain s = true -> sch_items s = (ItemsTuple, ss) -> nth_error ss i = Some s' -> nth_error l i = Some x ->
      x <> JNull -> viol s' x -> viol s (JArr l)
  | V_addl s sa kvs k x :
      plain s = true -> sch_additional_props s = Some sa -> typed_schema sa = true ->
      In (k, x) kvs -> has_key k (sch_props s) = false -> x <> JNull ->
      viol sa x -> viol s (JObj kvs)
  | V_opt s bs b v :
      union_branches s = Some bs -> In b bs -> null_only b = false -> existsb null_only bs = true ->
      v <> JNull -> viol b v -> viol s v
  | V_tag s bs tg v :
      union_branches s = Some bs -> common_tag bs = Some tg ->
      (exists kvs, v = JObj kvs) -> tag_bad tg bs v = true -> viol s v.
End Viol.

(* ------------------------------------------------------------------ type side *)
(* the two alternative wire forms serde accepts besides the one the schema
   describes (DESIGN Appendix A): a struct from a JSON ARRAY (serde_derive's
   visit_seq), and a unit variant of an externally tagged enum from the object
   {"Variant": null}. *)
Definition all_simple (vs : list variant) : bool :=
  forallb (fun v => match v_det v with VSimple => true | _ => false end) vs.

Definition seq_for_struct (d : details) (v : json) : bool :=
  match d, v with DStruct _ _ _ _, JArr _ => true | _, _ => false end.

Definition obj_for_unit_variant (d : details) (v : json) : bool :=
  match d, v with
  | DEnum _ _ TagExternal vs _ _, JObj _ => all_simple vs
  | _, _ => false
  end.

Definition opt_imp_N (a b : option N) : bool :=     (* schema states a => type has the same *)
  match a with None => true | Some x => match b with Some y => N.eqb x y | None => false end end.
Definition opt_imp_ustr (a b : option ustring) : bool :=
  match a with None => true | Some x => match b with Some y => ustr_eqb x y | None => false end end.

Definition is_option_det (o : option details) : bool :=
  match o with Some (DOption _) => true | _ => false end.

(* May a member of this type be ABSENT although it has no serde default?  serde
   hands an absent member a deserializer that only answers `deserialize_option`;
   Box, transparent newtypes and value-constrained newtypes forward to their
   inner type, so the answer is yes when the type reaches an Option through such
   layers (IR/Serde.v [missing], SerdeProofs.missing_required_chase).  This is an
   over-approximation (the value test of the constrained layers is ignored; an
   exhausted budget answers yes). *)
Fixpoint reaches_option (T : space) (fuel : nat) (i : id) : bool :=
  match fuel with
  | O => true
  | S f =>
      match get_det T i with
      | Some (DOption _) => true
      | Some (DBox t) => reaches_option T f t
      | Some (DNewtype _ _ t c) =>
          match c with CString _ _ _ => false | _ => reaches_option T f t end
      | _ => false
      end
  end.
Definition RFUEL : nat := 16.

Section Exact.
  Variable re_match : ustring -> ustring -> bool.
  Variable D : defs.
  Variable T : space.
  Variable A : list (ustring * id).

  Definition mem_pair_x (r : ustring) (t : id) : bool :=
    existsb (fun p => ustr_eqb r (fst p) && N.eqb t (snd p)) A.

  Fixpoint find_wire (w : ustring) (ps : list prop) : option prop :=
    match ps with
    | [] => None
    | p :: r => match wire_name p with
                | Some w' => if ustr_eqb w w' then Some p else find_wire w r
                | None => find_wire w r
                end
    end.

  Section Node.
    Variable ex : schema -> id -> bool.       (* verdict on the children *)

    Definition ex_list : list schema -> list id -> bool :=
      fix ex_list (ss : list schema) (ts : list id) {struct ss} : bool :=
        match ss, ts with
        | [], [] => true
        | s' :: ss', t' :: ts' => ex s' t' && ex_list ss' ts'
        | _, _ => false
        end.

    Section Obj.
      Variable ty : option (list itype).
      Variable enum : option (list json).
      Variable cst : option json.
      Variable sv : strv.
      Variable ik : items_kind.
      Variable items : list schema.
      Variable mni mxi : option N.
      Variable props : list (ustring * schema).
      Variable req : list ustring.
      Variable ap : option schema.
      Variable allo anyo oneo : option (list schema).
      Variable no : option schema.
      Variable ref : option ustring.

      (* the schema's "type" admits (the JSON shape of) every listed representative *)
      Definition ty_rep (reps : list json) : bool := forallb (valid_type serde_ints ty) reps.

      (* value-set keywords: consumed by an enclosing CEnum / CDeny, or absent *)
      Definition common (ed dd : bool) : bool :=
        (ed || (is_none enum && is_none cst)) && (dd || is_none (deny_of no)).

      Definition no_obj_claims : bool := match req_enf D props req with [] => true | _ => false end.

      Definition elem_x (t' : id) : bool :=
        match ik, items with
        | ItemsSingle, [s'] => ex s' t'
        | ItemsAbsent, _ => true
        | _, _ => false
        end.

      Definition struct_x (ps : list prop) (deny : bool) : bool :=
        ty_rep [JObj []]
        && nodup_ustr (wire_names ps)
        (* required non-nullable members are PRequired members of a type that does not
           reach an Option through Box / transparent / value-constrained newtypes *)
        && forallb (fun k => match find_wire k ps with
                             | Some p => match p_state p with PRequired => true | _ => false end
                                         && negb (reaches_option T RFUEL (p_ty p))
                             | None => false
                             end) (req_enf D props req)
        (* closed: deny_unknown_fields, nothing flattened, every member declared *)
        && (negb (is_closed ap)
            || (deny && match flat_props ps with [] => true | _ => false end
                && forallb (fun w => has_key w props) (wire_names ps)))
        (* children: every declared property is a member whose type represents it *)
        && forallb (fun kv => match find_wire (fst kv) ps with
                              | Some p =>
                                  ex (snd kv) (p_ty p)
                                  (* a member that may be absent is an Option<T>: T represents the
                                     property; that the Option also admits an explicit `null` is
                                     finding C05-F3, outside the proved (root-level) part *)
                                  || match p_state p, get_det T (p_ty p) with
                                     | POptional, Some (DOption t') => ex (snd kv) t'
                                     | _, _ => false
                                     end
                              | None => false
                              end) props
        (* a typed additionalProperties is the value type of the flattened map *)
        && match ap with
           | Some (SBool _) | None => true
           | Some sa => match flat_props ps with
                        | [fp] => match get_det T (p_ty fp) with
                                  | Some (DMap _ vt) =>
                                      ex sa vt && forallb (fun w => has_key w props) (wire_names ps)
                                  | _ => false
                                  end
                        | _ => false
                        end
           end.

      Definition no_items : bool := match ik with ItemsAbsent => true | _ => false end.
      (* the schema describes no child position at all *)
      Definition no_children : bool :=
        match props with [] => true | _ => false end && no_items
        && match ap with Some (SBool _) | None => true | Some _ => false end.

      (* a node without union / "$ref", against a non-wrapper, non-Option type *)
      Definition leaf_x (ed dd : bool) (d : details) : bool :=
        match d with
        | DBoolean => common ed dd && ty_rep [JBool true]
        | DInteger _ => common ed dd && ty_rep [JInt 0]
        | DFloat _ => common ed dd && ty_rep [JInt 0; JFlt 0]
        | DUnit => common ed dd && ty_rep [JNull]
        | DString => common ed dd && ty_rep [JStr []] && is_strv_none sv
        | DNative _ _ _ => common ed dd && ty_rep [JStr []] && is_strv_none sv
        | DNewtype _ _ inner (CString mx mn pat) =>
            common ed dd && ty_rep [JStr []]
            && opt_imp_N (s_max_length sv) mx && opt_imp_N (s_min_length sv) mn
            && opt_imp_ustr (s_pattern sv) pat
        | DEnum _ _ TagExternal vs _ _ =>
            all_simple vs && ty_rep [JStr []] && (dd || is_none (deny_of no))
            (* every variant is a member of "enum" / equals "const" and satisfies the
               string constraints (in scalar values) *)
            && forallb (fun vr => valid_enum enum (JStr (v_raw vr)) && valid_const cst (JStr (v_raw vr))
                                  && valid_str re_match sv (JStr (v_raw vr))) vs
        | DVec t' | DSet t' =>
            common ed dd && ty_rep [JArr []] && is_none (arity_of mni mxi) && elem_x t'
        | DArray t' n =>
            common ed dd && ty_rep [JArr []]
            && match arity_of mni mxi with Some m => N.eqb m n | None => true end && elem_x t'
        | DTuple ts =>
            common ed dd && ty_rep [JArr []]
            && match arity_of mni mxi with Some m => N.eqb m (N.of_nat (length ts)) | None => true end
            && match ik with ItemsTuple => ex_list items ts | ItemsAbsent => true | ItemsSingle => false end
        | DMap _ vt =>
            common ed dd && ty_rep [JObj []] && no_obj_claims && negb (is_closed ap)
            && match props with [] => true | _ => false end
            && match ap with Some (SBool _) | None => true | Some sa => ex sa vt end
        | DStruct _ _ ps deny => common ed dd && no_items && struct_x ps deny
        | DJsonValue =>
            common ed dd && no_children && is_none ty && is_strv_none sv && no_obj_claims && negb (is_closed ap)
            && is_none (arity_of mni mxi)
        | _ => false
        end.

      (* typed enum / deny list values against the schema's *)
      Definition cenum_x (vs : list json) : bool :=
        forallb (fun e => is_scalar e && valid_enum enum e && valid_const cst e) vs
        && opt_all (forallb is_scalar) enum && opt_all is_scalar cst.

      Definition cdeny_x (vs : list json) : bool :=
        match deny_of no with
        | Some (_, es) =>
            forallb is_scalar vs
            && forallb (fun e' => is_scalar e' && existsb (fun e => json_equiv e e') vs) es
        | None => true         (* nothing stated *)
        end.

      Definition go_plain : bool -> bool -> nat -> id -> bool :=
        fix go (ed dd : bool) (ft : nat) (t : id) {struct ft} : bool :=
          match ft with
          | O => false
          | S ft' =>
              match get_det T t with
              | None => false
              | Some d =>
                  match wrapper_of d with
                  | Some t' => go ed dd ft' t'
                  | None =>
                      match d with
                      | DOption t' =>
                          (* the schema states nothing that excludes null, and the rest *)
                          valid_type serde_ints ty JNull && (ed || (valid_enum enum JNull && valid_const cst JNull))
                          && (dd || deny_ok no JNull)
                          && go ed dd ft' t'
                      | DNewtype _ _ t' (CEnum vs) => cenum_x vs && go true dd ft' t'
                      | DNewtype _ _ t' (CDeny vs) => cdeny_x vs && go ed true ft' t'
                      | _ => leaf_x ed dd d
                      end
                  end
              end
          end.

      (* tag discipline of a tagged oneOf (checked, soundness not proved) *)
      Definition branch_tag : ustring -> schema -> option ustring := branch_tag_of.

      Definition raws (vs : list variant) : list ustring := map v_raw vs.

      Definition tags_x (tg : ustring) (bs : list schema) (vs : list variant) : bool :=
        forallb (fun b => match branch_tag tg b with
                          | Some x => mem_ustr x (raws vs) && mem_ustr tg (sch_required b)
                          | None => false
                          end) bs
        && forallb (fun vr => existsb (fun b => match branch_tag tg b with
                                                | Some x => ustr_eqb x (v_raw vr)
                                                | None => false
                                                end) bs) vs.

      Definition ext_branch_x (vs : list variant) (b : schema) : bool :=
        match sch_enum b with
        | Some es => forallb (fun e => match e with
                                       | JStr x => match find_variant x vs 0 with
                                                   | Some (_, vr) => match v_det vr with VSimple => true | _ => false end
                                                   | None => false
                                                   end
                                       | _ => false
                                       end) es
        | None => match sch_props b with
                  | [(k, _)] => mem_ustr k (raws vs) && mem_ustr k (sch_required b)
                                && is_closed (sch_additional_props b)
                  | _ => false
                  end
        end.

      Definition union_x (bs : list schema) : nat -> id -> bool :=
        fix go (ft : nat) (t : id) {struct ft} : bool :=
          match ft with
          | O => false
          | S ft' =>
              match get_det T t with
              | None => false
              | Some d =>
                  match wrapper_of d with
                  | Some t' => go ft' t'
                  | None =>
                      match d with
                      | DOption t' =>
                          (* nullable union: the non-null branches against the inner type *)
                          is_none (common_tag bs) && forallb (fun b => null_only b || ex b t') bs
                      | DEnum _ _ (TagInternal tg) vs _ _ => no_null bs && ctag_ok bs tg && tags_x tg bs vs
                      | DEnum _ _ (TagAdjacent tg _) vs _ _ => no_null bs && ctag_ok bs tg && tags_x tg bs vs
                      | DEnum _ _ TagExternal vs _ _ =>
                          no_null bs && is_none (common_tag bs) && forallb (ext_branch_x vs) bs
                      (* untagged enums, merged types: nothing is claimed, so the union must neither be
                         a nullable (that is an Option) nor carry a common tag (that is a tagged enum) *)
                      | _ => no_null bs && is_none (common_tag bs)
                      end
                  end
              end
          end.

      Definition ref_x (r : ustring) : nat -> id -> bool :=
        fix go (ft : nat) (t : id) {struct ft} : bool :=
          if mem_pair_x r t then true else
          match ft with
          | O => false
          | S ft' =>
              match get_det T t with
              | Some (DOption t') | Some (DBox t') | Some (DNewtype _ _ t' CNone) => go ft' t'
              | _ => false
              end
          end.

      (* an allOf node: nothing is claimed about the merged members, but a conjunction that is effectively
         closed must be a struct with deny_unknown_fields and no flattened member *)
      Definition allof_x (closed : bool) : nat -> id -> bool :=
        fix go (ft : nat) (t : id) {struct ft} : bool :=
          match ft with
          | O => false
          | S ft' =>
              match get_det T t with
              | None => false
              | Some d =>
                  match wrapper_of d with
                  | Some t' => go ft' t'
                  | None =>
                      match d with
                      | DOption t' => go ft' t'
                      | DStruct _ _ ps deny =>
                          negb closed || (deny && match flat_props ps with [] => true | _ => false end)
                      | _ => negb closed
                      end
                  end
              end
          end.

      Definition exact_obj (t : id) : bool :=
        match ref with
        | Some r => ref_x r FT t
        | None =>
            match allo, anyo, oneo with
            | None, None, None => go_plain false false FT t
            | None, Some bs, None | None, None, Some bs => union_x bs FT t
            | Some bs, None, None =>
                allof_x (is_closed ap || existsb (eff_closed D CFUEL) bs) FT t
            | _, _, _ => true                                     (* allOf next to anyOf/oneOf: nothing claimed *)
            end
        end.
    End Obj.
  End Node.

  Fixpoint exact (s : schema) {struct s} : id -> bool :=
    match s with
    | SBool _ => fun _ => true                                    (* states nothing of the enforced kinds *)
    | SObj ty fmt enum cst nv sv ik items ai mni mxi uq props req ap mnp mxp allo anyo oneo no ref dflt title =>
        exact_obj exact ty enum cst sv ik items mni mxi props req ap allo anyo oneo no ref
    end.

  (* the alternative wire forms, at the type [exact] resolves to *)
  Fixpoint std_wire_at (ft : nat) (t : id) (v : json) : bool :=
    match ft with
    | O => true
    | S ft' =>
        match get_det T t with
        | None => true
        | Some d =>
            match d with
            | DBox t' | DOption t' => std_wire_at ft' t' v
            | DNewtype _ _ t' c =>
                match c with CString _ _ _ => true | _ => std_wire_at ft' t' v end
            | _ => negb (seq_for_struct d v) && negb (obj_for_unit_variant d v)
            end
        end
    end.
End Exact.

Definition exact_all (re_match : ustring -> ustring -> bool) (D : defs) (T : space)
           (A : list (ustring * id)) : bool :=
  forallb (fun p => match resolve_ref D (fst p) with
                    | Some s => exact re_match D T A s (snd p)
                    | None => false
                    end) A.
