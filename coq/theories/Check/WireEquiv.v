(* Check/WireEquiv.v — decidable structural equivalence of two types living in two
   type spaces (definitions ONLY; soundness in Proofs/SettingsProofs.v).

   [wire_equiv T t T' t' = true] means: the types reachable from id t in T and from
   id t' in T' have the same shape once everything that cannot influence serde is
   forgotten:
     - the ids themselves (compared up to the bisimulation the checker builds),
     - Rust type NAMES (enum / struct / newtype names, variant identifiers),
     - stored defaults of named types, bespoke impls, declared impls and parameters of
       native types, per-type extra derives,
     - the whole settings record (derives, builder flag, type_mod, MAP TYPE) and the
       uses_* flags: IR/Serde.v never reads them.
   What must coincide: constructors, wire names (prop rename / field identifier used as
   wire name, variant raw names), member states incl. default VALUES, deny_unknown_fields,
   tagging, newtype constraints, integer / float / native type names, array lengths,
   and the Rust FIELD identifiers (they are the keys of Serde.v's [RStruct] values; no
   setting changes them).

   The recursion through ids is handled as in Check/Covers.v: the checker computes a
   finite set A of id pairs containing (t, t') and closed under "children of related
   entries are related"; soundness is then an induction on the fuel of [de]/[ser]. *)
From Coq Require Import String ZArith NArith QArith List Bool.
From Typify Require Import Base.Json IR.TypeIR.
Import ListNotations.
Close Scope Q_scope.
Close Scope string_scope.
Open Scope list_scope.
Open Scope N_scope.

Definition pairs := list (id * id).

Definition rel (A : pairs) (a b : id) : bool :=
  existsb (fun p => N.eqb a (fst p) && N.eqb b (snd p)) A.

Fixpoint list_eqb {X Y} (eq : X -> Y -> bool) (x : list X) (y : list Y) : bool :=
  match x, y with
  | [], [] => true
  | a :: x', b :: y' => eq a b && list_eqb eq x' y'
  | _, _ => false
  end.

(* SYNTACTIC equality of JSON values (Base.Json.json_eqb is numeric on rationals and
   order-insensitive on objects, hence not Leibniz); fuel = nesting depth *)
Fixpoint jeq (n : nat) (a b : json) : bool :=
  match n with
  | O => false
  | S n =>
      match a, b with
      | JNull, JNull => true
      | JBool x, JBool y => Bool.eqb x y
      | JInt x, JInt y => Z.eqb x y
      | JFlt x, JFlt y => Z.eqb (Qnum x) (Qnum y) && Pos.eqb (Qden x) (Qden y)
      | JStr x, JStr y => ustr_eqb x y
      | JArr x, JArr y => list_eqb (jeq n) x y
      | JObj x, JObj y =>
          list_eqb (fun p q => ustr_eqb (fst p) (fst q) && jeq n (snd p) (snd q)) x y
      | _, _ => false
      end
  end.

Definition jdepth : nat := 64.

Definition opt_eqb {X} (eq : X -> X -> bool) (a b : option X) : bool :=
  match a, b with
  | None, None => true
  | Some x, Some y => eq x y
  | _, _ => false
  end.

Definition prename_eqb (a b : prename) : bool :=
  match a, b with
  | RNone, RNone | RFlatten, RFlatten => true
  | RRename s, RRename s' => ustr_eqb s s'
  | _, _ => false
  end.

Definition pstate_eqb (a b : pstate) : bool :=
  match a, b with
  | PRequired, PRequired | POptional, POptional => true
  | PDefault v, PDefault w => jeq jdepth v w
  | _, _ => false
  end.

Definition tag_eqb (a b : tagty) : bool :=
  match a, b with
  | TagExternal, TagExternal | TagUntagged, TagUntagged => true
  | TagInternal t, TagInternal t' => ustr_eqb t t'
  | TagAdjacent t c, TagAdjacent t' c' => ustr_eqb t t' && ustr_eqb c c'
  | _, _ => false
  end.

Definition constr_eqb (a b : constraints) : bool :=
  match a, b with
  | CNone, CNone => true
  | CEnum vs, CEnum ws | CDeny vs, CDeny ws => list_eqb (jeq jdepth) vs ws
  | CString mx mn pat, CString mx' mn' pat' =>
      opt_eqb N.eqb mx mx' && opt_eqb N.eqb mn mn' && opt_eqb ustr_eqb pat pat'
  | _, _ => false
  end.

Section Step.
  Variable A : pairs.

  Definition prop_eq (p q : prop) : bool :=
    ustr_eqb (p_name p) (p_name q) && prename_eqb (p_rename p) (p_rename q) &&
    pstate_eqb (p_state p) (p_state q) && rel A (p_ty p) (p_ty q).

  Definition vdet_eq (a b : vdetails) : bool :=
    match a, b with
    | VSimple, VSimple => true
    | VItem t, VItem t' => rel A t t'
    | VTuple ts, VTuple ts' => list_eqb (rel A) ts ts'
    | VStruct ps, VStruct ps' => list_eqb prop_eq ps ps'
    | _, _ => false
    end.

  (* variant IDENTIFIERS are Rust names: not compared *)
  Definition variant_eq (v w : variant) : bool :=
    ustr_eqb (v_raw v) (v_raw w) && vdet_eq (v_det v) (v_det w).

  Definition det_eq (d d' : details) : bool :=
    match d, d' with
    | DEnum _ _ tag vs deny _, DEnum _ _ tag' vs' deny' _ =>
        tag_eqb tag tag' && list_eqb variant_eq vs vs' && Bool.eqb deny deny'
    | DStruct _ _ ps deny, DStruct _ _ ps' deny' => list_eqb prop_eq ps ps' && Bool.eqb deny deny'
    | DNewtype _ _ i c, DNewtype _ _ i' c' => rel A i i' && constr_eqb c c'
    | DNative n _ _, DNative n' _ _ => ustr_eqb n n'
    | DOption t, DOption t' | DBox t, DBox t' | DVec t, DVec t' | DSet t, DSet t' => rel A t t'
    | DMap k v, DMap k' v' => rel A k k' && rel A v v'
    | DArray t n, DArray t' n' => rel A t t' && N.eqb n n'
    | DTuple ts, DTuple ts' => list_eqb (rel A) ts ts'
    | DUnit, DUnit | DBoolean, DBoolean | DString, DString | DJsonValue, DJsonValue => true
    | DInteger n, DInteger n' | DFloat n, DFloat n' => ustr_eqb n n'
    | _, _ => false
    end.
End Step.

(* pairs of children that a related pair of entries obliges (same constructor assumed;
   anything else makes [det_eq] fail later) *)
Fixpoint zip_ids (x y : list id) : pairs :=
  match x, y with
  | a :: x', b :: y' => (a, b) :: zip_ids x' y'
  | _, _ => []
  end.

Fixpoint zip_props (x y : list prop) : pairs :=
  match x, y with
  | p :: x', q :: y' => (p_ty p, p_ty q) :: zip_props x' y'
  | _, _ => []
  end.

Definition vdet_children (a b : vdetails) : pairs :=
  match a, b with
  | VItem t, VItem t' => [(t, t')]
  | VTuple ts, VTuple ts' => zip_ids ts ts'
  | VStruct ps, VStruct ps' => zip_props ps ps'
  | _, _ => []
  end.

Fixpoint zip_variants (x y : list variant) : pairs :=
  match x, y with
  | v :: x', w :: y' => vdet_children (v_det v) (v_det w) ++ zip_variants x' y'
  | _, _ => []
  end.

Definition det_children (d d' : details) : pairs :=
  match d, d' with
  | DEnum _ _ _ vs _ _, DEnum _ _ _ vs' _ _ => zip_variants vs vs'
  | DStruct _ _ ps _, DStruct _ _ ps' _ => zip_props ps ps'
  | DNewtype _ _ i _, DNewtype _ _ i' _ => [(i, i')]
  | DOption t, DOption t' | DBox t, DBox t' | DVec t, DVec t' | DSet t, DSet t'
  | DArray t _, DArray t' _ => [(t, t')]
  | DMap k v, DMap k' v' => [(k, k'); (v, v')]
  | DTuple ts, DTuple ts' => zip_ids ts ts'
  | _, _ => []
  end.

Section Equiv.
  Variables T T' : space.

  Definition step_ok (A : pairs) (p : id * id) : bool :=
    match get_det T (fst p), get_det T' (snd p) with
    | Some d, Some d' => det_eq A d d'
    | _, _ => false
    end.

  (* the invariant soundness needs: every pair of A passes the one-step comparison
     with children looked up in A itself *)
  Definition closed (A : pairs) : bool := forallb (step_ok A) A.

  (* worklist closure *)
  Fixpoint build (fuel : nat) (todo acc : pairs) : pairs :=
    match fuel with
    | O => acc
    | S f =>
        match todo with
        | [] => acc
        | p :: r =>
            if rel acc (fst p) (snd p) then build f r acc
            else match get_det T (fst p), get_det T' (snd p) with
                 | Some d, Some d' => build f (det_children d d' ++ r) (p :: acc)
                 | _, _ => build f r (p :: acc)
                 end
        end
    end.
End Equiv.

Definition det_size (d : details) : nat := S (length (det_children d d)).

Definition space_size (T : space) : nat :=
  fold_right (fun e a => det_size (e_det (snd e)) + a)%nat O (sp_entries T).

Definition build_fuel (T T' : space) : nat :=
  (2 + (space_size T + 1) * (length (sp_entries T') + 1) * 2)%nat.

Definition wire_pairs (T : space) (t : id) (T' : space) (t' : id) : pairs :=
  build T T' (build_fuel T T') [(t, t')] [].

Definition wire_equiv (T : space) (t : id) (T' : space) (t' : id) : bool :=
  let A := wire_pairs T t T' t' in
  closed T T' A && rel A t t'.

(* several roots at once (all definitions of a document) *)
Definition wire_equiv_all (T T' : space) (roots : pairs) : bool :=
  let A := build T T' (build_fuel T T' + length roots) roots [] in
  closed T T' A && forallb (fun p => rel A (fst p) (snd p)) roots.
