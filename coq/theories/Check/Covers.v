(* Check/Covers.v — the C02 validator: a decidable check over a (schema, type)
   pair saying "every instance valid under the schema deserialises into the
   type".  Executable definitions only; soundness is Proofs/CoversProofs.v.

   It is evaluated on the type space the REAL typify produced for each explored
   schema, and is deliberately incomplete: it answers [false] on shapes it does
   not understand (never [true] wrongly - that is the soundness theorem).

   Recursion through "$ref" is by coinductive assumption: [A] lists pairs
   (definition name, type id) assumed covered; [covers_all] discharges every
   pair against the definition's own schema; a reference inside a schema is
   accepted when its pair is listed.  The soundness proof is by induction on
   the validity fuel (a "$ref" spends one unit).

   [nn] ("non-null"): the caller has already dealt with the instance [null]
   (an enclosing Option), so only non-null instances need to be accepted.

   Shape of the definitions: one schema node is checked by [covers_obj] (and its
   parts [go], [leaf_ok], [union_ok], [struct_case], ...) against an abstract
   verdict [cov] on the node's children; [covers] ties the knot by structural
   recursion on the schema (the guard checker unfolds [covers_obj]).  The
   soundness proof has one lemma per part.

   Targets: a type id; the members of a struct variant ([TProps]); the elements
   of a tuple variant ([TTuple]).

   What is understood (everything else is [false]): scalars with integer ranges
   and formats, constrained strings, native string formats, string enums, typed
   enums of scalars (newtype + CEnum), Vec/Set/fixed arrays/tuples, maps with
   String keys, structs (required/optional/default members, deny_unknown_fields,
   one flattened map), Option (null in "type", or a null branch of a union),
   Box/plain newtype/serde_json::Value, "$ref" (assumed pairs), anyOf/oneOf
   against untagged / externally / internally / adjacently tagged enums, allOf
   with one conjunct, allOf of object schemas against an open struct.

   Soundness theorem: CoversProofs.covers_sound (Props/C02.v).  Conditions that
   are there because the proof needed them: "type" next to a "$ref" is NOT used
   for the vacuity test (draft-07 ignores the siblings of "$ref"); the wire
   names of a struct's members must be pairwise distinct ([nodup_ustr]); a
   branch of an internally tagged enum must say "type":"object" whatever its tag
   enum lists; the instance domain [in_dom] asks for distinct member names. *)
From Coq Require Import String ZArith NArith QArith List Bool.
From Typify Require Import Base.Json Spec.Schema Spec.Valid IR.TypeIR IR.Serde.
Import ListNotations.
Close Scope Q_scope.
Close Scope string_scope.
Open Scope list_scope.

Definition FT : nat := 6.          (* wrapper-unfolding budget on the type side *)
Definition DFUEL : nat := 12.      (* fuel for evaluating defaults inside the check *)

Definition is_some {A} (o : option A) : bool := match o with Some _ => true | None => false end.

Definition ty_eff (nn : bool) (ty : option (list itype)) : option (list itype) :=
  if nn then option_map (filter (fun t => negb (itype_eqb t TNull))) ty else ty.

(* under [nn], a schema whose only admitted type is null has no instance left *)
Definition vacuous (nn : bool) (ty : option (list itype)) : bool :=
  nn && match ty_eff nn ty with Some [] => true | _ => false end.

Definition ty_is (nn : bool) (ty : option (list itype)) (want : list itype) : bool :=
  match ty_eff nn ty with
  | Some l => negb (Nat.eqb (length l) 0 && negb nn) && forallb (fun t => existsb (itype_eqb t) want) l
  | None => false
  end.

(* string format <-> native type, as convert_string maps them (Gen/IntTable.v
   regenerates the implementation's table for C10; this is the documented one) *)
Open Scope string_scope.
Definition format_native_table : list (ustring * ustring) :=
  [ (ulit "uuid", ulit "::uuid::Uuid");
    (ulit "date", ulit "::chrono::naive::NaiveDate");
    (ulit "date-time", ulit "::chrono::DateTime<::chrono::offset::Utc>");
    (ulit "ip", ulit "::std::net::IpAddr");
    (ulit "ipv4", ulit "::std::net::Ipv4Addr");
    (ulit "ipv6", ulit "::std::net::Ipv6Addr") ].
Close Scope string_scope.

Definition i64_lo : Z := (-9223372036854775808)%Z.
Definition i64_hi : Z := 9223372036854775807%Z.

Fixpoint nodup_ustr (l : list ustring) : bool :=
  match l with
  | [] => true
  | x :: r => negb (mem_ustr x r) && nodup_ustr r
  end.

(* instance domain of the theorems (DESIGN 3.2/3.4): integers are written as
   integer literals within i64; no integral-valued float literal anywhere; the
   member names of an object are pairwise distinct (the specification reads
   objects as finite maps, Spec/Valid.v; serde rejects a repeated key where it
   matters) *)
Fixpoint in_dom (v : json) : bool :=
  match v with
  | JInt z => Z.leb i64_lo z && Z.leb z i64_hi
  | JFlt q => negb (is_integral q)
  | JArr l => forallb in_dom l
  | JObj kvs => nodup_ustr (map fst kvs) && forallb (fun kv => in_dom (snd kv)) kvs
  | _ => true
  end.

Definition lower_ok (lo : Z) (fmt : option ustring) (nv : numv) : bool :=
  Z.leb lo i64_lo
  || match n_minimum nv with Some m => Qle_bool (inject_Z lo) m | None => false end
  || match n_exclusive_minimum nv with Some m => Qle_bool (inject_Z (lo - 1)) m | None => false end
  || match fmt with
     | Some f => match int_format_range f with Some (flo, _) => Z.leb lo flo | None => false end
     | None => false
     end.

Definition upper_ok (hi : Z) (fmt : option ustring) (nv : numv) : bool :=
  Z.leb i64_hi hi
  || match n_maximum nv with Some m => Qle_bool m (inject_Z hi) | None => false end
  || match n_exclusive_maximum nv with Some m => Qle_bool m (inject_Z (hi + 1)) | None => false end
  || match fmt with
     | Some f => match int_format_range f with Some (_, fhi) => Z.leb fhi hi | None => false end
     | None => false
     end.

Definition opt_le (a b : option N) : bool :=     (* schema bound a implies type bound b (upper) *)
  match b with None => true | Some tb => match a with Some sa => N.leb sa tb | None => false end end.
Definition opt_ge (a b : option N) : bool :=     (* lower *)
  match b with None => true | Some tb => match a with Some sa => N.leb tb sa | None => false end end.
Definition opt_pat (a b : option ustring) : bool :=
  match b with None => true | Some tp => match a with Some sp => ustr_eqb sp tp | None => false end end.

Inductive target := TId (t : id) | TProps (ps : list prop) (deny : bool) | TTuple (ts : list id).

(* the schema {"type":"null"} (other keywords allowed, but no "$ref", whose
   siblings draft-07 ignores) *)
Definition null_only (b : schema) : bool :=
  match b with
  | SObj (Some [TNull]) _ _ _ _ _ _ _ _ _ _ _ _ _ _ _ _ _ _ _ _ None _ _ => true
  | _ => false
  end.

(* the two kinds of transparent wrappers of the type side *)
Definition wrapper_of (d : details) : option id :=
  match d with
  | DBox t' => Some t'
  | DNewtype _ _ t' CNone => Some t'
  | _ => None
  end.
Definition option_of (d : details) : option id :=
  match d with DOption t' => Some t' | _ => None end.
Definition is_json_value (d : details) : bool :=
  match d with DJsonValue => true | _ => false end.

(* typed enum: newtype over [t'] admitting the listed values only *)
Definition cenum_of (d : details) : option (id * list json) :=
  match d with DNewtype _ _ t' (CEnum vs) => Some (t', vs) | _ => None end.
Definition is_scalar (j : json) : bool :=
  match j with JArr _ | JObj _ => false | _ => true end.
(* every value of the schema's "enum" is a scalar equal to a value the type admits
   (scalars only: on them [json_equiv] is symmetric and transitive) *)
Definition enum_ok (enum : option (list json)) (vs : list json) : bool :=
  match enum with
  | Some es => forallb (fun e => is_scalar e && existsb (json_equiv e) vs) es
  | None => false
  end.

(* {"type":"string","enum":[strings]} without "$ref": the listed strings *)
Fixpoint strs (l : list json) : option (list ustring) :=
  match l with
  | [] => Some []
  | JStr x :: r => option_map (cons x) (strs r)
  | _ => None
  end.
Definition str_enum_names (s : schema) : option (list ustring) :=
  match s with
  | SBool _ => None
  | SObj ty _ enum _ _ _ _ _ _ _ _ _ _ _ _ _ _ _ _ _ _ ref _ _ =>
      match ty, enum, ref with
      | Some [TString], Some es, None => strs es
      | _, _, _ => None
      end
  end.

Definition is_ap_false (ap : option schema) : bool :=
  match ap with Some (SBool false) => true | _ => false end.

(* internally tagged variants: the tag member is not a member of the struct *)
Definition is_skip (skip : option ustring) (k : ustring) : bool :=
  match skip with Some tg => ustr_eqb k tg | None => false end.

(* the enum value [e] is a string naming a unit variant *)
Definition str_simple (vs : list variant) (e : json) : bool :=
  match e with
  | JStr x =>
      match find_variant x vs 0 with
      | Some (_, v) => match v_det v with VSimple => true | _ => false end
      | None => false
      end
  | _ => false
  end.

Section Covers.
  Variable re_match : ustring -> ustring -> bool.
  Variable native_ok : ustring -> ustring -> bool.
  Variable T : space.
  Variable A : list (ustring * id).       (* assumed pairs *)

  Definition mem_pair (r : ustring) (t : id) : bool :=
    existsb (fun p => ustr_eqb r (fst p) && N.eqb t (snd p)) A.

  (* does the type accept every JSON value? *)
  Fixpoint accepts_any (ft : nat) (t : id) : bool :=
    match get_det T t with
    | Some DJsonValue => true
    | Some (DBox t') | Some (DNewtype _ _ t' CNone) =>
        match ft with S ft' => accepts_any ft' t' | O => false end
    | _ => false
    end.

  Definition missing_ok (p : prop) : bool :=
    is_some (missing T (de re_match native_ok T DFUEL) (default_val T DFUEL) p).

  Definition flat_map_value (ps : list prop) : option (option id) :=
    (* None = ill-formed; Some None = no flattened member; Some (Some v) = map of v *)
    match flat_props ps with
    | [] => Some None
    | [fp] => match get_det T (p_ty fp) with
              | Some (DMap k v) => match get_det T k with Some DString => Some (Some v) | _ => None end
              | _ => None
              end
    | _ => None
    end.

  Fixpoint find_prop_by_wire (w : ustring) (ps : list prop) : option prop :=
    match ps with
    | [] => None
    | p :: r => match wire_name p with
                | Some w' => if ustr_eqb w w' then Some p else find_prop_by_wire w r
                | None => find_prop_by_wire w r
                end
    end.

  (* One schema node against a target, the verdicts on the children being given
     by [cov] (open recursion: [covers] below ties the knot; the soundness proof
     reasons about one node at a time). *)
  Section Node.
    Variable cov : schema -> bool -> target -> bool.

    Definition cov_list : list schema -> list id -> bool :=
      fix cov_list (ss : list schema) (ts : list id) {struct ss} : bool :=
        match ss, ts with
        | [], [] => true
        | s' :: ss', t' :: ts' => cov s' false (TId t') && cov_list ss' ts'
        | _, _ => false
        end.

    (* a branch [b] of oneOf/anyOf against one variant of an untagged enum *)
    Definition variant_ok (b : schema) (nn deny : bool) (v : variant) : bool :=
      match v_det v with
      | VItem t' => cov b nn (TId t')
      | VStruct ps => cov b nn (TProps ps deny)
      | VSimple => null_only b
      | VTuple ts => cov b nn (TTuple ts)
      end.

    Section Obj.
      Variable ty : option (list itype).
      Variable fmt : option ustring.
      Variable enum : option (list json).
      Variable cst : option json.
      Variable nv : numv.
      Variable sv : strv.
      Variable ik : items_kind.
      Variable items : list schema.
      Variable mni mxi : option N.
      Variable props : list (ustring * schema).
      Variable req : list ustring.
      Variable ap : option schema.
      Variable allo anyo oneo : option (list schema).
      Variable no : option schema.
      Variable ref : option ustring.

      (* array element schema against the element type *)
      Definition elem_ok (t' : id) : bool :=
        match ik, items with
        | ItemsSingle, [s'] => cov s' false (TId t')
        | ItemsAbsent, _ => accepts_any FT t'
        | _, _ => false
        end.

      (* additionalProperties against the value type of a map *)
      Definition addl_ok (vt : id) : bool :=
        match ap with
        | Some sa => cov sa false (TId vt)
        | None => accepts_any FT vt
        end.

      (* every declared property is a struct member whose type covers it and
         which may be absent only if the type side has a rule for absence *)
      Definition props_ok (skip : option ustring) (ps : list prop) : bool :=
        forallb (fun kv => is_skip skip (fst kv)
                           || match find_prop_by_wire (fst kv) ps with
                              | Some p => cov (snd kv) false (TId (p_ty p))
                                          && (mem_ustr (fst kv) req || missing_ok p)
                              | None => false
                              end) props.

      (* [skip = Some tg]: the declared member [tg] is the tag of an internally
         tagged enum, removed from the object before the struct body sees it *)
      Definition struct_case (skip : option ustring) (nn : bool) (ps : list prop) (deny : bool) : bool :=
        ty_is nn ty [TObject]
        && nodup_ustr (wire_names ps)             (* wire names are distinct *)
        && match skip with Some tg => negb (mem_ustr tg (wire_names ps)) | None => true end
        && props_ok skip ps
        (* every non-flattened struct member is declared by the schema *)
        && forallb (fun p => match wire_name p with
                             | None => true
                             | Some w => has_key w props
                             end) ps
        && match flat_map_value ps with
           | None => false
           | Some None =>
               negb deny || match ap with Some (SBool false) => true | _ => false end
           | Some (Some vt) => negb deny && addl_ok vt
           end.

      (* fixed-length heterogeneous arrays -> tuples *)
      Definition tuple_case (nn : bool) (ts : list id) : bool :=
        ty_is nn ty [TArray] &&
        match ik with ItemsTuple => true | _ => false end &&
        match mni, mxi with
        | Some a, Some b => N.eqb a (N.of_nat (length ts)) && N.eqb b (N.of_nat (length ts))
        | _, _ => false
        end &&
        cov_list items ts.

      (* no union, no allOf/not, no "$ref"; the type is not a wrapper/Option *)
      Definition leaf_ok (nn : bool) (d : details) : bool :=
        match d with
        | DBoolean => ty_is nn ty [TBoolean]
        | DString => ty_is nn ty [TString]
        | DUnit => negb nn && ty_is false ty [TNull]
        | DFloat _ => ty_is nn ty [TNumber; TInteger]
        | DInteger name =>
            ty_is nn ty [TInteger] &&
            match int_range_u name with
            | Some (lo, hi, _) => lower_ok lo fmt nv && upper_ok hi fmt nv
            | None => false
            end
        | DNewtype _ _ inner (CString mx mn pat) =>
            ty_is nn ty [TString]
            && match get_det T inner with Some DString => true | _ => false end
            && opt_le (s_max_length sv) mx && opt_ge (s_min_length sv) mn
            && opt_pat (s_pattern sv) pat
        | DNative name _ ps =>
            ty_is nn ty [TString]
            && match ps with [] => true | _ => false end
            && match fmt with
               | Some f => existsb (fun e => ustr_eqb f (fst e) && ustr_eqb name (snd e))
                                   format_native_table
               | None => false
               end
        | DEnum _ _ TagExternal vs _ _ =>
            ty_is nn ty [TString] &&
            match enum with
            | Some es => forallb (str_simple vs) es
            | None => false
            end
        | DVec t' | DSet t' => ty_is nn ty [TArray] && elem_ok t'
        | DArray t' n =>
            ty_is nn ty [TArray] &&
            match mni, mxi with
            | Some a, Some b => N.eqb a n && N.eqb b n
            | _, _ => false
            end &&
            elem_ok t'
        | DTuple ts => tuple_case nn ts
        | DMap k vt =>
            ty_is nn ty [TObject]
            && match get_det T k with Some DString => true | _ => false end
            && match props with [] => true | _ => false end
            && addl_ok vt
        | DStruct _ _ ps deny => struct_case None nn ps deny
        | _ => false
        end.

    End Obj.

    (* the payload schema [sc] of a tagged variant against the variant's data *)
    Definition payload_ok (sc : schema) (deny : bool) (v : variant) : bool :=
      match v_det v with
      | VItem t' => cov sc false (TId t')
      | VStruct ps => cov sc false (TProps ps deny)
      | VTuple ts => cov sc false (TTuple ts)
      | VSimple => null_only sc       (* a unit variant takes the payload null *)
      end.

    (* a branch of oneOf/anyOf against an externally tagged enum: a string enum
       of unit variants, or {"K": payload} for the variant named K *)
    Definition external_branch_ok (vs : list variant) (deny nn : bool) (b : schema) : bool :=
      match b with
      | SBool _ => false
      | SObj ty _ enum _ _ _ _ _ _ _ _ _ props req ap _ _ allo anyo oneo no ref _ _ =>
          match ref, anyo, oneo, allo, no with
          | None, None, None, None, None =>
              (ty_is nn ty [TString]
               && match enum with Some es => forallb (str_simple vs) es | None => false end)
              || (ty_is nn ty [TObject] && is_ap_false ap
                  && match props with
                     | [kv] =>
                         mem_ustr (fst kv) req
                         && match find_variant (fst kv) vs 0 with
                            | Some (_, vr) => payload_ok (snd kv) deny vr
                            | None => false
                            end
                     | _ => false
                     end)
          | _, _, _, _, _ => false
          end
      end.

    (* ... against an adjacently tagged enum: {"tag": K, "content": payload} *)
    Definition adjacent_branch_ok (tg ct : ustring) (vs : list variant) (deny nn : bool) (b : schema) : bool :=
      match b with
      | SBool _ => false
      | SObj ty _ _ _ _ _ _ _ _ _ _ _ props req ap _ _ allo anyo oneo no ref _ _ =>
          match ref, anyo, oneo, allo, no with
          | None, None, None, None, None =>
              ty_is nn ty [TObject] && negb (ustr_eqb tg ct) && mem_ustr tg req
              && match assoc tg props with
                 | Some stag =>
                     match str_enum_names stag with
                     | Some names =>
                         forallb (fun x =>
                           match find_variant x vs 0 with
                           | Some (_, vr) =>
                               (* every declared member is the tag or the (covered) content *)
                               forallb (fun kv => ustr_eqb (fst kv) tg
                                                  || (ustr_eqb (fst kv) ct && payload_ok (snd kv) deny vr)) props
                               && (if has_key ct props
                                   then mem_ustr ct req && (negb deny || is_ap_false ap)
                                   else match v_det vr with VSimple => true | _ => false end
                                        && is_ap_false ap)
                           | None => false
                           end) names
                     | None => false
                     end
                 | None => false
                 end
          | _, _, _, _, _ => false
          end
      end.

    (* ... against an internally tagged enum: the variant's members plus {"tag": K} *)
    Definition internal_branch_ok (tg : ustring) (vs : list variant) (deny nn : bool) (b : schema) : bool :=
      match b with
      | SBool _ => false
      | SObj ty _ _ _ _ _ _ _ _ _ _ _ props req ap _ _ allo anyo oneo no ref _ _ =>
          match ref, anyo, oneo, allo, no with
          | None, None, None, None, None =>
              ty_is nn ty [TObject] && mem_ustr tg req
              && match assoc tg props with
                 | Some stag =>
                     match str_enum_names stag with
                     | Some names =>
                         forallb (fun x =>
                           match find_variant x vs 0 with
                           | Some (_, vr) =>
                               match v_det vr with
                               | VStruct ps => struct_case ty props req ap (Some tg) nn ps deny
                               | VSimple => true   (* the other members are ignored, even under deny *)
                               | _ => false
                               end
                           | None => false
                           end) names
                     | None => false
                     end
                 | None => false
                 end
          | _, _, _, _, _ => false
          end
      end.

    (* allOf of plain object schemas against a struct: every declared member of
       every conjunct is a member of the struct, and conversely; a member is
       required when some conjunct requires it.  Only for open structs without a
       flattened member (the conjuncts' additionalProperties play no role then). *)
    Definition allof_struct (nn : bool) (ps : list prop) (deny : bool) (L : list schema) : bool :=
      negb deny
      && match flat_map_value ps with Some None => true | _ => false end
      && nodup_ustr (wire_names ps)
      && match L with [] => false | _ => true end
      && forallb (fun b =>
           match b with
           | SBool _ => false
           | SObj ty _ _ _ _ _ _ _ _ _ _ _ props _ _ _ _ allo anyo oneo no ref _ _ =>
               match ref, anyo, oneo, allo, no with
               | None, None, None, None, None =>
                   ty_is nn ty [TObject] && props_ok props (flat_map sch_required L) None ps
               | _, _, _, _, _ => false
               end
           end) L
      && forallb (fun p => match wire_name p with
                           | None => true
                           | Some w => existsb (fun b => has_key w (sch_props b)) L
                           end) ps.

    Section Obj2.
      Variable ty : option (list itype).
      Variable fmt : option ustring.
      Variable enum : option (list json).
      Variable cst : option json.
      Variable nv : numv.
      Variable sv : strv.
      Variable ik : items_kind.
      Variable items : list schema.
      Variable mni mxi : option N.
      Variable props : list (ustring * schema).
      Variable req : list ustring.
      Variable ap : option schema.
      Variable allo anyo oneo : option (list schema).
      Variable no : option schema.
      Variable ref : option ustring.

      (* pure union (no other assertion keyword beside anyOf/oneOf = [bs]) *)
      Definition union_ok (nn : bool) (d : details) (bs : list schema) : bool :=
        match ty, enum, cst, allo, no with
        | None, None, None, None, None =>
            match d with
            | DOption t' => forallb (fun b => cov b true (TId t')) bs
            | DEnum _ _ TagUntagged vs deny _ =>
                (* every branch is taken by some variant *)
                forallb (fun b => existsb (variant_ok b nn deny) vs) bs
            | DEnum _ _ TagExternal vs deny _ => forallb (external_branch_ok vs deny nn) bs
            | DEnum _ _ (TagAdjacent tg ct) vs deny _ => forallb (adjacent_branch_ok tg ct vs deny nn) bs
            | DEnum _ _ (TagInternal tg) vs deny _ => forallb (internal_branch_ok tg vs deny nn) bs
            | _ => false
            end
        | _, _, _, _, _ => false
        end.

      (* [ft] bounds the unfolding of wrappers (Box, plain newtype, Option) *)
      Definition go : nat -> bool -> id -> bool :=
        fix go (ft : nat) (nn : bool) (t : id) {struct ft} : bool :=
          match ft with
          | O => false
          | S ft' =>
          match get_det T t with
          | None => false
          | Some d =>
              if match ref with Some r => mem_pair r t | None => false end then true else
              (* draft-07: the siblings of "$ref" (here "type") are ignored *)
              if match ref with None => vacuous nn ty | Some _ => false end then true else
              if is_json_value d then true else
              match wrapper_of d with
              | Some t' => go ft' nn t'
              | None =>
                match ref with
                | Some _ => match option_of d with
                            | Some t' => go ft' true t'
                            | None => false
                            end
                | None =>
                  match anyo, oneo with
                  | Some bs, None | None, Some bs => union_ok nn d bs
                  | Some _, Some _ => false
                  | None, None =>
                    match allo, no with
                    | None, None =>
                        match option_of d with
                        | Some t' => go ft' true t'
                        | None =>
                            match cenum_of d with
                            | Some (t', vs) => enum_ok enum vs && go ft' nn t'
                            | None => leaf_ok ty fmt enum nv sv ik items mni mxi props req ap nn d
                            end
                        end
                    | Some L, None =>
                        match d with
                        | DStruct _ _ ps deny => allof_struct nn ps deny L
                        | _ => false
                        end
                    | _, _ => false
                    end
                  end
                end
              end
          end
          end.

      Definition covers_obj (nn0 : bool) (tg : target) : bool :=
        (* {"allOf":[b], ...other keywords} without "$ref": at least as strict as b *)
        match allo, ref with
        | Some [b], None => cov b nn0 tg
        | _, _ => false
        end ||
        match tg with
        | TProps ps deny =>
            match ref, anyo, oneo, allo, no with
            | None, None, None, None, None => struct_case ty props req ap None nn0 ps deny
            | _, _, _, _, _ => false
            end
        | TTuple ts =>
            match ref, anyo, oneo, allo, no with
            | None, None, None, None, None => tuple_case ty ik items mni mxi nn0 ts
            | _, _, _, _, _ => false
            end
        | TId t0 => go FT nn0 t0
        end.
    End Obj2.
  End Node.

  Fixpoint covers (s : schema) {struct s} : bool -> target -> bool :=
    match s with
    | SBool false => fun _ _ => true
    | SBool true => fun _ tg => match tg with TId t => accepts_any FT t | _ => false end
    | SObj ty fmt enum cst nv sv ik items ai mni mxi uq props req ap mnp mxp allo anyo oneo no ref dflt title =>
        covers_obj covers ty fmt enum cst nv sv ik items mni mxi props req ap allo anyo oneo no ref
    end.

End Covers.

(* all assumed pairs are discharged against their definitions *)
Definition covers_all (re_match native_ok : ustring -> ustring -> bool) (D : defs) (T : space)
           (A : list (ustring * id)) : bool :=
  forallb (fun p => match resolve_ref D (fst p) with
                    | Some s => covers re_match native_ok T A s false (TId (snd p))
                    | None => false
                    end) A.
