(* Check/Covers.v — the C02 validator: a decidable check over a (schema, type)
   pair saying "every instance valid under the schema deserialises into the
   type".  Executable definitions only; soundness is Proofs/CoversProofs.v.

   It is evaluated on the type space the REAL typify produced for each explored
   schema, and is deliberately incomplete: it answers [false] on shapes it does
   not understand (never [true] wrongly - that is the soundness theorem).

   Recursion through "$ref" is by coinductive assumption: [A] lists pairs
   (definition name, type id) assumed covered; [covers_all] discharges every
   pair against the definition's own schema; a reference inside a schema is
   accepted when its pair is listed.  The soundness proof is by induction on
   the validity fuel (a "$ref" spends one unit).

   [nn] ("non-null"): the caller has already dealt with the instance [null]
   (an enclosing Option), so only non-null instances need to be accepted. *)
From Coq Require Import String ZArith NArith QArith List Bool.
From Typify Require Import Base.Json Spec.Schema Spec.Valid IR.TypeIR IR.Serde.
Import ListNotations.
Close Scope Q_scope.
Close Scope string_scope.
Open Scope list_scope.

Definition FT : nat := 6.          (* wrapper-unfolding budget on the type side *)
Definition DFUEL : nat := 12.      (* fuel for evaluating defaults inside the check *)

Definition is_some {A} (o : option A) : bool := match o with Some _ => true | None => false end.

Definition ty_eff (nn : bool) (ty : option (list itype)) : option (list itype) :=
  if nn then option_map (filter (fun t => negb (itype_eqb t TNull))) ty else ty.

(* under [nn], a schema whose only admitted type is null has no instance left *)
Definition vacuous (nn : bool) (ty : option (list itype)) : bool :=
  nn && match ty_eff nn ty with Some [] => true | _ => false end.

Definition ty_is (nn : bool) (ty : option (list itype)) (want : list itype) : bool :=
  match ty_eff nn ty with
  | Some l => negb (Nat.eqb (length l) 0 && negb nn) && forallb (fun t => existsb (itype_eqb t) want) l
  | None => false
  end.

(* string format <-> native type, as convert_string maps them (Gen/IntTable.v
   regenerates the implementation's table for C10; this is the documented one) *)
Open Scope string_scope.
Definition format_native_table : list (ustring * ustring) :=
  [ (ulit "uuid", ulit "::uuid::Uuid");
    (ulit "date", ulit "::chrono::naive::NaiveDate");
    (ulit "date-time", ulit "::chrono::DateTime<::chrono::offset::Utc>");
    (ulit "ip", ulit "::std::net::IpAddr");
    (ulit "ipv4", ulit "::std::net::Ipv4Addr");
    (ulit "ipv6", ulit "::std::net::Ipv6Addr") ].
Close Scope string_scope.

Definition i64_lo : Z := (-9223372036854775808)%Z.
Definition i64_hi : Z := 9223372036854775807%Z.

(* instance domain of the theorems (DESIGN 3.2/3.4): integers are written as
   integer literals within i64; no integral-valued float literal anywhere *)
Fixpoint in_dom (v : json) : bool :=
  match v with
  | JInt z => Z.leb i64_lo z && Z.leb z i64_hi
  | JFlt q => negb (is_integral q)
  | JArr l => forallb in_dom l
  | JObj kvs => forallb (fun kv => in_dom (snd kv)) kvs
  | _ => true
  end.

Definition lower_ok (lo : Z) (fmt : option ustring) (nv : numv) : bool :=
  Z.leb lo i64_lo
  || match n_minimum nv with Some m => Qle_bool (inject_Z lo) m | None => false end
  || match n_exclusive_minimum nv with Some m => Qle_bool (inject_Z (lo - 1)) m | None => false end
  || match fmt with
     | Some f => match int_format_range f with Some (flo, _) => Z.leb lo flo | None => false end
     | None => false
     end.

Definition upper_ok (hi : Z) (fmt : option ustring) (nv : numv) : bool :=
  Z.leb i64_hi hi
  || match n_maximum nv with Some m => Qle_bool m (inject_Z hi) | None => false end
  || match n_exclusive_maximum nv with Some m => Qle_bool m (inject_Z (hi + 1)) | None => false end
  || match fmt with
     | Some f => match int_format_range f with Some (_, fhi) => Z.leb fhi hi | None => false end
     | None => false
     end.

Definition opt_le (a b : option N) : bool :=     (* schema bound a implies type bound b (upper) *)
  match b with None => true | Some tb => match a with Some sa => N.leb sa tb | None => false end end.
Definition opt_ge (a b : option N) : bool :=     (* lower *)
  match b with None => true | Some tb => match a with Some sa => N.leb tb sa | None => false end end.
Definition opt_pat (a b : option ustring) : bool :=
  match b with None => true | Some tp => match a with Some sp => ustr_eqb sp tp | None => false end end.

Inductive target := TId (t : id) | TProps (ps : list prop) (deny : bool).

Section Covers.
  Variable re_match : ustring -> ustring -> bool.
  Variable native_ok : ustring -> ustring -> bool.
  Variable T : space.
  Variable A : list (ustring * id).       (* assumed pairs *)

  Definition mem_pair (r : ustring) (t : id) : bool :=
    existsb (fun p => ustr_eqb r (fst p) && N.eqb t (snd p)) A.

  (* does the type accept every JSON value? *)
  Fixpoint accepts_any (ft : nat) (t : id) : bool :=
    match get_det T t with
    | Some DJsonValue => true
    | Some (DBox t') | Some (DNewtype _ _ t' CNone) =>
        match ft with S ft' => accepts_any ft' t' | O => false end
    | _ => false
    end.

  Definition missing_ok (p : prop) : bool :=
    is_some (missing T (de re_match native_ok T DFUEL) (default_val T DFUEL) p).

  (* the schema declares a property under this wire name *)
  Definition flat_map_value (ps : list prop) : option (option id) :=
    (* None = ill-formed; Some None = no flattened member; Some (Some v) = map of v *)
    match flat_props ps with
    | [] => Some None
    | [fp] => match get_det T (p_ty fp) with
              | Some (DMap k v) => match get_det T k with Some DString => Some (Some v) | _ => None end
              | _ => None
              end
    | _ => None
    end.

  Fixpoint find_prop_by_wire (w : ustring) (ps : list prop) : option prop :=
    match ps with
    | [] => None
    | p :: r => match wire_name p with
                | Some w' => if ustr_eqb w w' then Some p else find_prop_by_wire w r
                | None => find_prop_by_wire w r
                end
    end.

  Fixpoint covers (s : schema) {struct s} : bool -> target -> bool :=
    match s with
    | SBool false => fun _ _ => true
    | SBool true => fun _ tg => match tg with TId t => accepts_any FT t | TProps _ _ => false end
    | SObj ty fmt enum cst nv sv ik items ai mni mxi uq props req ap mnp mxp allo anyo oneo no ref dflt title =>
        let cov_list := fix cov_list (ss : list schema) (ts : list id) {struct ss} : bool :=
                          match ss, ts with
                          | [], [] => true
                          | s' :: ss', t' :: ts' => covers s' false (TId t') && cov_list ss' ts'
                          | _, _ => false
                          end in
        (* a branch of oneOf/anyOf against an untagged enum: some variant takes it *)
        let branch_ok := fun (nn : bool) (vs : list variant) (deny : bool) =>
          fix branches (bs : list schema) : bool :=
            match bs with
            | [] => true
            | b :: bs' =>
                existsb (fun v => match v_det v with
                                  | VItem t' => covers b nn (TId t')
                                  | VStruct ps => covers b nn (TProps ps deny)
                                  | VSimple => match b with
                                               | SObj (Some [TNull]) _ _ _ _ _ _ _ _ _ _ _ _ _ _ _ _ _ _ _ _ None _ _ => true
                                               | _ => false
                                               end
                                  | _ => false
                                  end) vs
                && branches bs'
            end in
        let branch_nn := fun (t' : id) =>
          fix branches (bs : list schema) : bool :=
            match bs with
            | [] => true
            | b :: bs' => covers b true (TId t') && branches bs'
            end in
        let struct_case := fun (nn : bool) (ps : list prop) (deny : bool) =>
                          ty_is nn ty [TObject]
                          (* every declared property is a struct member whose type covers it and
                             which may be absent only if the type side has a rule for absence *)
                          && (fix pr (l : list (ustring * schema)) : bool :=
                                match l with
                                | [] => true
                                | (k, sp) :: l' =>
                                    match find_prop_by_wire k ps with
                                    | Some p => covers sp false (TId (p_ty p)) && (mem_ustr k req || missing_ok p)
                                    | None => false
                                    end && pr l'
                                end) props
                          (* every non-flattened struct member is declared by the schema *)
                          && forallb (fun p => match wire_name p with
                                               | None => true
                                               | Some w => has_key w props
                                               end) ps
                          && match flat_map_value ps with
                             | None => false
                             | Some None =>
                                 negb deny || match ap with Some (SBool false) => true | _ => false end
                             | Some (Some vt) =>
                                 negb deny &&
                                 match ap with
                                 | Some sa => covers sa false (TId vt)
                                 | None => accepts_any FT vt
                                 end
                             end in
        fun nn0 tg =>
        match tg with
        | TProps ps deny =>
            match ref, anyo, oneo, allo, no with
            | None, None, None, None, None => struct_case nn0 ps deny
            | _, _, _, _, _ => false
            end
        | TId t0 =>
        (fix go (ft : nat) (nn : bool) (t : id) {struct ft} : bool :=
          match ft with
          | O => false
          | S ft' =>
          match get_det T t with
          | None => false
          | Some d =>
              if match ref with Some r => mem_pair r t | None => false end then true else
              if vacuous nn ty then true else
              match d with
              | DJsonValue => true
              | DBox t' => go ft' nn t'
              | DNewtype _ _ t' CNone => go ft' nn t'
              | _ =>
                match ref with
                | Some r => match d with
                            | DOption t' => go ft' true t'
                            | _ => false
                            end
                | None =>
                  match anyo, oneo with
                  | Some bs, None | None, Some bs =>
                      (* pure union: no other assertion keyword beside it *)
                      match ty, enum, cst, allo, no with
                      | None, None, None, None, None =>
                          match d with
                          | DOption t' => branch_nn t' bs
                          | DEnum _ _ TagUntagged vs deny _ => branch_ok nn vs deny bs
                          | _ => false
                          end
                      | _, _, _, _, _ => false
                      end
                  | Some _, Some _ => false
                  | None, None =>
                    match allo, no with
                    | None, None =>
                      match d with
                      | DOption t' => go ft' true t'
                      | DBoolean => ty_is nn ty [TBoolean]
                      | DString => ty_is nn ty [TString]
                      | DUnit => negb nn && ty_is false ty [TNull]
                      | DFloat _ => ty_is nn ty [TNumber; TInteger]
                      | DInteger name =>
                          ty_is nn ty [TInteger] &&
                          match int_range_u name with
                          | Some (lo, hi, _) => lower_ok lo fmt nv && upper_ok hi fmt nv
                          | None => false
                          end
                      | DNewtype _ _ inner (CString mx mn pat) =>
                          ty_is nn ty [TString]
                          && match get_det T inner with Some DString => true | _ => false end
                          && opt_le (s_max_length sv) mx && opt_ge (s_min_length sv) mn
                          && opt_pat (s_pattern sv) pat
                      | DNative name _ ps =>
                          ty_is nn ty [TString]
                          && match ps with [] => true | _ => false end
                          && match fmt with
                             | Some f => existsb (fun e => ustr_eqb f (fst e) && ustr_eqb name (snd e))
                                                 format_native_table
                             | None => false
                             end
                      | DEnum _ _ TagExternal vs _ _ =>
                          ty_is nn ty [TString] &&
                          match enum with
                          | Some es =>
                              forallb (fun e => match e with
                                                | JStr x =>
                                                    match find_variant x vs 0 with
                                                    | Some (_, v) => match v_det v with VSimple => true | _ => false end
                                                    | None => false
                                                    end
                                                | _ => false
                                                end) es
                          | None => false
                          end
                      | DVec t' | DSet t' =>
                          ty_is nn ty [TArray] &&
                          match ik, items with
                          | ItemsSingle, [s'] => covers s' false (TId t')
                          | ItemsAbsent, _ => accepts_any FT t'
                          | _, _ => false
                          end
                      | DArray t' n =>
                          ty_is nn ty [TArray] &&
                          match mni, mxi with
                          | Some a, Some b => N.eqb a n && N.eqb b n
                          | _, _ => false
                          end &&
                          match ik, items with
                          | ItemsSingle, [s'] => covers s' false (TId t')
                          | ItemsAbsent, _ => accepts_any FT t'
                          | _, _ => false
                          end
                      | DTuple ts =>
                          ty_is nn ty [TArray] &&
                          match ik with ItemsTuple => true | _ => false end &&
                          match mni, mxi with
                          | Some a, Some b => N.eqb a (N.of_nat (length ts)) && N.eqb b (N.of_nat (length ts))
                          | _, _ => false
                          end &&
                          cov_list items ts
                      | DMap k vt =>
                          ty_is nn ty [TObject]
                          && match get_det T k with Some DString => true | _ => false end
                          && match props with [] => true | _ => false end
                          && match ap with
                             | Some sa => covers sa false (TId vt)
                             | None => accepts_any FT vt
                             end
                      | DStruct _ _ ps deny => struct_case nn ps deny
                      | _ => false
                      end
                    | _, _ => false
                    end
                  end
                end
              end
          end
          end) FT nn0 t0
        end
    end.

End Covers.

(* all assumed pairs are discharged against their definitions *)
Definition covers_all (re_match native_ok : ustring -> ustring -> bool) (D : defs) (T : space)
           (A : list (ustring * id)) : bool :=
  forallb (fun p => match resolve_ref D (fst p) with
                    | Some s => covers re_match native_ok T A s false (TId (snd p))
                    | None => false
                    end) A.
