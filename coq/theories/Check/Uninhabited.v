(* Check/Uninhabited.v — a decidable sufficient test that a type of the type
   space has NO value that deserialises (definitions only; soundness
   `uninhabited_sound` is in Proofs/MergeProofs.v).

   typify turns an unsatisfiable schema into `convert_never` = an enum with zero
   variants (convert.rs:1894-1909).  Uninhabited:
     * an enum with zero variants;
     * a struct with a Required, non-flattened member whose type is uninhabited
       and is not an Option (a missing Option member is None);
     * a newtype (without string constraints) or a Box of an uninhabited type.
   NOT: Option / Vec / Map of an uninhabited type (null, [] and {} deserialise). *)
From Coq Require Import String ZArith NArith List Bool.
From Typify Require Import Base.Json IR.TypeIR.
Import ListNotations.
Open Scope N_scope.

Definition is_option (T : space) (i : id) : bool :=
  match get_det T i with Some (DOption _) => true | _ => false end.

Fixpoint uninhabited (T : space) (fuel : nat) (i : id) {struct fuel} : bool :=
  match fuel with
  | O => false
  | S f =>
      match get_det T i with
      | Some (DEnum _ _ _ vs _ _) => match vs with [] => true | _ => false end
      | Some (DStruct _ _ ps _) =>
          existsb (fun p =>
                     match p_state p, wire_name p with
                     | PRequired, Some _ => negb (is_option T (p_ty p)) && uninhabited T f (p_ty p)
                     | _, _ => false
                     end) ps
      | Some (DNewtype _ _ inner c) =>
          match c with
          | CString _ _ _ => false
          | _ => uninhabited T f inner
          end
      | Some (DBox t) => uninhabited T f t
      | _ => false
      end
  end.
