(* Check/RoundTrip.v — C03: vocabulary of the round-trip property on the model
   of generated code (IR/Serde.v) and the checker-defined class of types the
   theorems are stated for.  Definitions only.

   [prune]       drop object members whose (pruned) value is null / [] / {},
                 recursively (arrays keep their length);
   [contained]   objects member-wise, arrays element-wise with equal length,
                 numbers numerically (Spec.Valid.json_equiv), else equal;
   [node_ok]     the local condition on one entry of the type space;
   [rt_set]      a set of type ids closed under children all of whose entries
                 are [node_ok];
   [rt_simple]   the per-type checker: the ids reachable from a type form such a
                 set ([reach] is an unverified worklist; [rt_set] validates it);
   [decl_only]   "the instance contains only declared members, in canonical
                 shape" on the model: every object key at a struct is a declared
                 wire name (no duplicates), structs are objects, unit variants
                 are in the form the generated code emits. *)
From Coq Require Import String ZArith NArith QArith List Bool.
From Typify Require Import Base.Json Spec.Schema Spec.Valid IR.TypeIR IR.Serde.
Import ListNotations.
Close Scope Q_scope.
Close Scope string_scope.
Open Scope list_scope.

(* ------------------------------------------------------------------ prune *)
Definition is_empty (j : json) : bool :=
  match j with JNull | JArr [] | JObj [] => true | _ => false end.

Fixpoint prune (j : json) : json :=
  match j with
  | JArr l => JArr (map prune l)
  | JObj kvs =>
      JObj ((fix go (l : list (ustring * json)) : list (ustring * json) :=
               match l with
               | [] => []
               | (k, x) :: r => if is_empty (prune x) then go r else (k, prune x) :: go r
               end) kvs)
  | _ => j
  end.

Fixpoint prune_kvs (l : list (ustring * json)) : list (ustring * json) :=
  match l with
  | [] => []
  | (k, x) :: r => if is_empty (prune x) then prune_kvs r else (k, prune x) :: prune_kvs r
  end.

(* -------------------------------------------------------------- containment *)
Definition is_scalar (j : json) : bool :=
  match j with JArr _ | JObj _ => false | _ => true end.

Inductive contained : json -> json -> Prop :=
| C_refl a : contained a a
| C_scalar a b : is_scalar a = true -> json_equiv a b = true -> contained a b
| C_arr l m : Forall2 contained l m -> contained (JArr l) (JArr m)
| C_obj kvs kvs' :
    (forall k x, In (k, x) kvs -> exists y, assoc k kvs' = Some y /\ contained x y) ->
    contained (JObj kvs) (JObj kvs').

(* executable version (used by examples and by the python side's twin) *)
Fixpoint containedb (a b : json) {struct a} : bool :=
  match a, b with
  | JArr x, JArr y =>
      (fix go (x y : list json) : bool :=
         match x, y with
         | [], [] => true
         | u :: x', v :: y' => containedb u v && go x' y'
         | _, _ => false
         end) x y
  | JObj x, JObj y =>
      (fix go (x : list (ustring * json)) : bool :=
         match x with
         | [] => true
         | (k, u) :: x' => match assoc k y with
                           | Some v => containedb u v && go x'
                           | None => false
                           end
         end) x
  | JArr _, _ | JObj _, _ => false
  | _, _ => json_equiv a b
  end.

(* ------------------------------------------------------------ the type class *)
Definition children (d : details) : list id :=
  match d with
  | DEnum _ _ _ vs _ _ =>
      flat_map (fun v => match v_det v with
                         | VSimple => []
                         | VItem t => [t]
                         | VTuple ts => ts
                         | VStruct ps => map p_ty ps
                         end) vs
  | DStruct _ _ ps _ => map p_ty ps
  | DNewtype _ _ inner _ => [inner]
  | DNative _ _ ps => ps
  | DOption t | DBox t | DVec t | DSet t | DArray t _ | DReference t => [t]
  | DMap k v => [k; v]
  | DTuple ts => ts
  | DUnit | DBoolean | DInteger _ | DFloat _ | DString | DJsonValue => []
  end.

Fixpoint nodup_ustr (l : list ustring) : bool :=
  match l with
  | [] => true
  | x :: r => negb (mem_ustr x r) && nodup_ustr r
  end.

Definition no_flatten (p : prop) : bool :=
  match p_rename p with RFlatten => false | _ => true end.

(* members: none flattened, distinct field identifiers, distinct wire names *)
Definition props_ok (ps : list prop) : bool :=
  forallb no_flatten ps && nodup_ustr (map p_name ps) && nodup_ustr (wire_names ps).

Definition exact_scalar (T : space) (t : id) : bool :=
  match get_det T t with
  | Some DBoolean | Some (DInteger _) | Some DString => true
  | _ => false
  end.

Definition node_ok (T : space) (d : details) : bool :=
  match d with
  | DEnum _ _ tag vs _ _ =>
      match tag with
      | TagUntagged => false
      | TagExternal =>
          forallb (fun v => match v_det v with VStruct ps => props_ok ps | _ => true end) vs
      | TagInternal tg =>
          forallb (fun v => match v_det v with
                            | VSimple => true
                            | VStruct ps => props_ok ps && negb (mem_ustr tg (wire_names ps))
                            | _ => false
                            end) vs
      | TagAdjacent tg ct =>
          negb (ustr_eqb tg ct) &&
          forallb (fun v => match v_det v with VStruct ps => props_ok ps | _ => true end) vs
      end
  | DStruct _ _ ps _ => props_ok ps
  | DOption t => match get_det T t with Some (DOption _) => false | _ => true end
  | DMap k _ => match get_det T k with Some DString => true | _ => false end
  | DNewtype _ _ inner (CEnum _) | DNewtype _ _ inner (CDeny _) => exact_scalar T inner
  | DReference _ => false
  | _ => true
  end.

Definition rt_set (T : space) (S : list id) : bool :=
  forallb (fun i => match get_det T i with
                    | Some d => node_ok T d && forallb (fun c => mem_id c S) (children d)
                    | None => false
                    end) S.

Fixpoint reach (T : space) (fuel : nat) (todo seen : list id) : list id :=
  match fuel with
  | O => seen
  | S f =>
      match todo with
      | [] => seen
      | i :: r =>
          if mem_id i seen then reach T f r seen
          else match get_det T i with
               | Some d => reach T f (children d ++ r) (i :: seen)
               | None => reach T f r (i :: seen)
               end
      end
  end.

Definition rt_fuel (T : space) : nat :=
  (2 + length (sp_entries T) +
   fold_right (fun e a => length (children (e_det (snd e))) + a) 0 (sp_entries T))%nat.

Definition rt_simple_at (T : space) (fuel : nat) (t : id) : bool :=
  let S := reach T fuel [t] [] in mem_id t S && rt_set T S.

Definition rt_simple (T : space) (t : id) : bool := rt_simple_at T (rt_fuel T) t.

(* ------------------------------------------------------------- declared only *)
Fixpoint nodup_keys {A} (kvs : list (ustring * A)) : bool :=
  match kvs with
  | [] => true
  | (k, _) :: r => negb (has_key k r) && nodup_keys r
  end.

Fixpoint find_prop (w : ustring) (ps : list prop) : option prop :=
  match ps with
  | [] => None
  | p :: r => match wire_name p with
              | Some w' => if ustr_eqb w w' then Some p else find_prop w r
              | None => find_prop w r
              end
  end.

Fixpoint zip_all {A B} (f : A -> B -> bool) (l : list A) (m : list B) : bool :=
  match l, m with
  | [], [] => true
  | x :: l', y :: m' => f x y && zip_all f l' m'
  | _, _ => false
  end.

Section Decl.
  Variable T : space.

  Section DeclProps.
    Variable decl : id -> json -> bool.

    Definition decl_members (ps : list prop) (kvs : list (ustring * json)) : bool :=
      nodup_keys kvs &&
      forallb (fun kv => match find_prop (fst kv) ps with
                         | Some p => decl (p_ty p) (snd kv)
                         | None => false
                         end) kvs.

    Definition decl_struct (ps : list prop) (j : json) : bool :=
      match j with JObj kvs => decl_members ps kvs | _ => false end.

    Definition decl_payload (vd : vdetails) (j : json) : bool :=
      match vd with
      | VSimple => false                   (* a unit variant carries no payload in canonical form *)
      | VItem t => decl t j
      | VTuple ts => match j with JArr l => zip_all decl ts l | _ => false end
      | VStruct ps => decl_struct ps j
      end.

    Definition decl_enum (tag : tagty) (vs : list variant) (j : json) : bool :=
      match tag with
      | TagExternal =>
          match j with
          | JStr _ => true
          | JObj [(k, pj)] =>
              match find_variant k vs 0 with
              | Some (_, v) => decl_payload (v_det v) pj
              | None => false
              end
          | _ => false
          end
      | TagInternal tg =>
          match j with
          | JObj kvs =>
              nodup_keys kvs &&
              match assoc tg kvs with
              | Some (JStr s) =>
                  match find_variant s vs 0 with
                  | Some (_, v) =>
                      match v_det v with
                      | VSimple => Nat.eqb (length (remove_key tg kvs)) 0
                      | VStruct ps => decl_members ps (remove_key tg kvs)
                      | _ => false
                      end
                  | None => false
                  end
              | _ => false
              end
          | _ => false
          end
      | TagAdjacent tg ct =>
          match j with
          | JObj kvs =>
              nodup_keys kvs &&
              Nat.eqb (length (remove_key ct (remove_key tg kvs))) 0 &&
              match assoc tg kvs with
              | Some (JStr s) =>
                  match find_variant s vs 0 with
                  | Some (_, v) =>
                      match assoc ct kvs, v_det v with
                      | None, VSimple => true
                      | Some pj, vd => decl_payload vd pj
                      | None, _ => false
                      end
                  | None => false
                  end
              | _ => false
              end
          | _ => false
          end
      | TagUntagged => false
      end.
  End DeclProps.

  Fixpoint decl_only (fuel : nat) (i : id) (j : json) {struct fuel} : bool :=
    match fuel with
    | O => false
    | S f =>
        match get_det T i with
        | None => false
        | Some d =>
            match d with
            | DOption t => match j with JNull => true | _ => decl_only f t j end
            | DBox t => decl_only f t j
            | DVec t | DSet t | DArray t _ =>
                match j with JArr l => forallb (decl_only f t) l | _ => false end
            | DTuple ts => match j with JArr l => zip_all (decl_only f) ts l | _ => false end
            | DMap _ v =>
                match j with
                | JObj kvs => nodup_keys kvs && forallb (fun kv => decl_only f v (snd kv)) kvs
                | _ => false
                end
            | DNewtype _ _ inner c =>
                match c with CString _ _ _ => true | _ => decl_only f inner j end
            | DStruct _ _ ps _ => decl_struct (decl_only f) ps j
            | DEnum _ _ tag vs _ _ => decl_enum (decl_only f) tag vs j
            | DReference _ => false
            | _ => true
            end
        end
    end.
End Decl.
