(* Algo/Defaults.v -- executable model of typify's default VALIDATION
   (typify-impl/src/defaults.rs:143-630).  DEFINITIONS ONLY; lemmas are in
   Proofs/DefaultsProofs.v, the property theorems in Props/C06.v.

   Rust                                              model
     TypeEntry::validate_value      143-321          validate_value / validate_det
     validate_default_for_*_enum    380-496          v_external / v_internal / v_adjacent / v_untagged
     validate_type_id               498-505          the [rec] argument (one unit of fuel per type-id hop)
     validate_default_tuple         507-522          v_tuple
     validate_default_struct_props  524-579          v_struct_props
     all_props                      581-630          all_props
     DefaultKind / DefaultImpl      type_entry.rs / lib.rs:233-238   kind / gimpl

   Outcomes: [ROk k] = Ok(k) / Some(k); [RErr] = Err(InvalidValue) / None;
   [RPanic] = unwrap() of a missing id, unreachable!(); [RFuel] = the model ran out of
   fuel (type spaces may be cyclic through Box, so recursion is on explicit fuel).

   [re] stands for the regress engine: [re p s] = `Regex::new(p).map(|r| r.find(s).is_some()).unwrap_or(false)`
   (defaults.rs, Newtype arm); the theorems hold for every such function, the correspondence
   check instantiates it with a table computed by the real regress crate. *)
From Coq Require Import String ZArith NArith QArith List Bool.
From Typify Require Import Base.Json IR.TypeIR.
Import ListNotations.
Close Scope Q_scope.
Open Scope N_scope.

Inductive res (A : Type) : Type :=
| ROk (a : A)
| RErr
| RFuel
| RPanic.
Arguments ROk {A} a.
Arguments RErr {A}.
Arguments RFuel {A}.
Arguments RPanic {A}.

Definition rbind {A B} (r : res A) (f : A -> res B) : res B :=
  match r with
  | ROk a => f a
  | RErr => RErr
  | RFuel => RFuel
  | RPanic => RPanic
  end.
Notation "'do' x <- r ; k" := (rbind r (fun x => k)) (at level 200, x name, r at level 100, k at level 200).

Definition of_opt {A} (o : option A) : res A :=
  match o with Some a => ROk a | None => RErr end.

Inductive gimpl := GBoolean | GI64 | GU64 | GNZU64.
Inductive kind := KIntrinsic | KSpecific | KGeneric (g : gimpl).

(* ---- serde_json accessors ---- *)
Definition as_u64 (v : json) : option Z :=
  match v with JInt z => if ((0 <=? z) && (z <? 18446744073709551616))%Z then Some z else None | _ => None end.
Definition as_i64 (v : json) : option Z :=
  match v with
  | JInt z => if ((-9223372036854775808 <=? z) && (z <? 9223372036854775808))%Z then Some z else None
  | _ => None
  end.
Definition is_number (v : json) : bool := match v with JInt _ | JFlt _ => true | _ => false end.
Definition is_zero_number (v : json) : bool :=
  match v with JInt z => Z.eqb z 0 | JFlt q => Z.eqb (Qnum q) 0 | _ => false end.
Definition as_array (v : json) : option (list json) := match v with JArr l => Some l | _ => None end.
Definition as_object (v : json) : option (list (ustring * json)) := match v with JObj m => Some m | _ => None end.
Definition as_str (v : json) : option ustring := match v with JStr s => Some s | _ => None end.

Fixpoint ustr_prefix (p s : ustring) : bool :=
  match p, s with
  | [], _ => true
  | x :: p', y :: s' => N.eqb x y && ustr_prefix p' s'
  | _ :: _, [] => false
  end.
(* STD_NUM_NONZERO_PREFIX = "::std::num::NonZero" (convert.rs) *)
Definition nonzero_prefix : ustring := ustr_of_string "::std::num::NonZero".
Definition is_nonzero_name (n : ustring) : bool := ustr_prefix nonzero_prefix n.

(* ---- iteration combinators (short-circuit like the Rust iterators) ---- *)
(* `for x in l { f(x)?; }` *)
Fixpoint each {A B} (f : A -> res B) (l : list A) : res unit :=
  match l with
  | [] => ROk tt
  | x :: r => do _ <- f x; each f r
  end.
(* `.all(|x| f(x).is_ok())`: ROk true / ROk false; panics and fuel propagate *)
Fixpoint all_is_ok {A B} (f : A -> res B) (l : list A) : res bool :=
  match l with
  | [] => ROk true
  | x :: r => match f x with
              | ROk _ => all_is_ok f r
              | RErr => ROk false
              | RFuel => RFuel
              | RPanic => RPanic
              end
  end.
(* `.any(|x| f(x).is_ok())` *)
Fixpoint any_is_ok {A B} (f : A -> res B) (l : list A) : res bool :=
  match l with
  | [] => ROk false
  | x :: r => match f x with
              | ROk _ => ROk true
              | RErr => any_is_ok f r
              | RFuel => RFuel
              | RPanic => RPanic
              end
  end.
(* `.find_map(f)` *)
Fixpoint find_map_r {A B} (f : A -> res B) (l : list A) : res B :=
  match l with
  | [] => RErr
  | x :: r => match f x with
              | RErr => find_map_r f r
              | o => o
              end
  end.

Fixpoint find_variant (name : ustring) (vs : list variant) : option variant :=
  match vs with
  | [] => None
  | v :: r => if ustr_eqb name (v_raw v) then Some v else find_variant name r
  end.

(* ---- all_props (defaults.rs:581-630) ---- *)
Definition pinfo := (option ustring * id * bool)%type.

Definition is_required (p : prop) : bool :=
  match p_state p with PRequired => true | _ => false end.
Definition is_optional (p : prop) : bool :=
  match p_state p with POptional => true | _ => false end.

Fixpoint flat_map_r {A B} (f : A -> res (list B)) (l : list A) : res (list B) :=
  match l with
  | [] => ROk []
  | x :: r => do a <- f x; do b <- flat_map_r f r; ROk (a ++ b)%list
  end.

Fixpoint all_props (T : space) (fuel : nat) (p : prop) {struct fuel} : res (list pinfo) :=
  match wire_name p with
  | Some name => ROk [(Some name, p_ty p, is_required p)]
  | None =>
      match fuel with
      | O => RFuel
      | S n =>
          match get_det T (p_ty p) with
          | None => RPanic
          | Some (DStruct _ _ props _) =>
              let all_required := negb (is_optional p) in
              do l <- flat_map_r (all_props T n) props;
              ROk (map (fun '(nm, t, req) => (nm, t, req && all_required)) l)
          | Some (DOption t') =>
              match get_det T t' with
              | Some (DStruct _ _ props _) =>
                  do l <- flat_map_r (all_props T n) props;
                  ROk (map (fun '(nm, t, req) => (nm, t, req && false)) l)
              | _ => RPanic
              end
          | Some (DMap _ v) => ROk [(None, v, false)]
          | Some _ => RPanic
          end
      end
  end.

(* BTreeMap<name,(id,required)>::from_iter: a later duplicate overwrites *)
Definition bt_insert {A} (k : ustring) (a : A) (m : list (ustring * A)) : list (ustring * A) :=
  (k, a) :: remove_key k m.
Definition named_of (l : list pinfo) : list (ustring * (id * bool)) :=
  fold_left (fun m '(nm, t, req) => match nm with Some k => bt_insert k (t, req) m | None => m end) l [].
Definition unnamed_of (l : list pinfo) : list id :=
  flat_map (fun '(nm, t, _) => match nm with None => [t] | Some _ => [] end) l.

(* ---- newtype constraints as the repaired Newtype arm checks them (defaults.rs, fix 9117497):
   allow/deny lists by serde_json::Value equality, lengths in scalar values (chars().count()),
   pattern by an unanchored regress `find` ---- *)
Definition opt_leb (a : option N) (n : N) : bool := match a with Some m => N.leb m n | None => true end.
Definition opt_geb (a : option N) (n : N) : bool := match a with Some m => N.leb n m | None => true end.
Definition constraint_ok (re : ustring -> ustring -> bool) (c : constraints) (v : json) : bool :=
  match c with
  | CNone => true
  | CEnum vs => existsb (fun x => json_eqb x v) vs
  | CDeny vs => negb (existsb (fun x => json_eqb x v) vs)
  | CString mx mn pat =>
      match v with
      | JStr s => opt_geb mx (chars_count s) && opt_leb mn (chars_count s) &&
                  match pat with Some p => re p s | None => true end
      | _ => false
      end
  end.

(* ---- integer_fits (defaults.rs, fix 07af100) ---- *)
Fixpoint strip_prefix (p s : ustring) : option ustring :=
  match p, s with
  | [], _ => Some s
  | x :: p', y :: s' => if N.eqb x y then strip_prefix p' s' else None
  | _ :: _, [] => None
  end.
(* str::trim_start_matches(prefix): strips every leading repetition *)
Fixpoint trim_start (fuel : nat) (p s : ustring) : ustring :=
  match fuel with
  | O => s
  | S n => match p with
           | [] => s
           | _ => match strip_prefix p s with Some r => trim_start n p r | None => s end
           end
  end.
Definition int_table (n : string) : option (Z * Z) :=
  (if String.eqb n "u8" || String.eqb n "U8" then Some (0, 255)
   else if String.eqb n "u16" || String.eqb n "U16" then Some (0, 65535)
   else if String.eqb n "u32" || String.eqb n "U32" then Some (0, 4294967295)
   else if String.eqb n "u64" || String.eqb n "U64" then Some (0, 18446744073709551615)
   else if String.eqb n "i8" || String.eqb n "I8" then Some (-128, 127)
   else if String.eqb n "i16" || String.eqb n "I16" then Some (-32768, 32767)
   else if String.eqb n "i32" || String.eqb n "I32" then Some (-2147483648, 2147483647)
   else if String.eqb n "i64" || String.eqb n "I64" then Some (-9223372036854775808, 9223372036854775807)
   else None)%Z.
Definition integer_fits (itype : ustring) (v : json) : bool :=
  match int_table (string_of_ustring (trim_start (length itype) nonzero_prefix itype)) with
  | None => true
  | Some (lo, hi) =>
      match as_u64 v, as_i64 v with
      | Some z, _ | None, Some z =>
          ((lo <=? z) && (z <=? hi))%Z && negb (is_nonzero_name itype && Z.eqb z 0)
      | None, None => true
      end
  end.

Section Det.
  Variable re : ustring -> ustring -> bool.
  Variable T : space.
  (* validate_type_id at the next fuel level / all_props at the next fuel level *)
  Variable rec : id -> json -> res kind.
  Variable aprops : prop -> res (list pinfo).

  (* validate_default_tuple (507-522) *)
  Definition v_tuple (ts : list id) (v : json) : res kind :=
    do arr <- of_opt (as_array v);
    if negb (Nat.eqb (length arr) (length ts)) then RErr else
    do b <- all_is_ok (fun '(t, x) => rec t x) (combine ts arr);
    if b then ROk KSpecific else RErr.

  (* validate_default_struct_props (524-579) *)
  Definition v_struct_props (props : list prop) (v : json) : res kind :=
    do m <- of_opt (as_object v);
    do l <- flat_map_r aprops props;
    let named := named_of l in
    let unnamed := unnamed_of l in
    do _ <- each (fun '(name, x) =>
                    match assoc name named with
                    | Some (t, _) => do _ <- rec t x; ROk tt
                    | None => do b <- any_is_ok (fun t => rec t x) unnamed;
                              if b then ROk tt else RErr
                    end) m;
    do _ <- each (fun '(name, (_, req)) =>
                    if (req : bool) then (if has_key name m then ROk tt else RErr) else ROk tt) named;
    ROk KSpecific.

  Definition v_variant_payload (vd : vdetails) (v : json) : res kind :=
    match vd with
    | VSimple => RErr
    | VItem t => rec t v
    | VTuple ts => v_tuple ts v
    | VStruct ps => v_struct_props ps v
    end.

  (* validate_default_for_external_enum (380-411) *)
  Definition v_external (vs : list variant) (v : json) : res kind :=
    match v with
    | JStr s =>
        do var <- of_opt (find_variant s vs);
        match v_det var with VSimple => ROk KSpecific | _ => RErr end
    | _ =>
        do m <- of_opt (as_object v);
        match m with
        | [(name, x)] =>
            do var <- of_opt (find_variant name vs);
            v_variant_payload (v_det var) x
        | _ => RErr
        end
    end.

  (* validate_default_for_internal_enum (413-439) *)
  Definition v_internal (vs : list variant) (tag : ustring) (v : json) : res kind :=
    do m <- of_opt (as_object v);
    do tv <- of_opt (assoc tag m);
    do name <- of_opt (as_str tv);
    do var <- of_opt (find_variant name vs);
    match v_det var with
    | VSimple => ROk KSpecific
    | VStruct ps => v_struct_props ps (JObj (remove_key tag m))
    | VItem _ | VTuple _ => RPanic
    end.

  (* validate_default_for_adjacent_enum (441-474) *)
  Definition adj_split (m : list (ustring * json)) (tag content : ustring)
    : option (ustring * option json) :=
    match length m, option_map as_str (assoc tag m), assoc content m with
    | 1%nat, Some (Some tv), None => Some (tv, None)
    | 2%nat, Some (Some tv), Some c => Some (tv, Some c)
    | _, _, _ => None
    end.

  Definition v_adjacent (vs : list variant) (tag content : ustring) (v : json) : res kind :=
    do m <- of_opt (as_object v);
    do tc <- of_opt (adj_split m tag content);
    let '(tv, cv) := tc in
    do var <- of_opt (find_variant tv vs);
    match v_det var, cv with
    | VSimple, None => ROk KSpecific
    | VTuple ts, Some c => v_tuple ts c
    | VStruct ps, Some c => v_struct_props ps c
    | _, _ => RErr
    end.

  (* validate_default_for_untagged_enum (476-496) *)
  Definition v_untagged (vs : list variant) (v : json) : res kind :=
    find_map_r (fun var =>
                  match v_det var with
                  | VSimple => match v with JNull => ROk KSpecific | _ => RErr end
                  | VItem t => rec t v
                  | VTuple ts => v_tuple ts v
                  | VStruct ps => v_struct_props ps v
                  end) vs.

  (* `for (i, value) in v.iter().enumerate() { for other in &v[i+1..] { if value == other {Err} } validate }` *)
  Fixpoint v_set_elems (t : id) (l : list json) : res unit :=
    match l with
    | [] => ROk tt
    | x :: r => if existsb (json_eqb x) r then RErr else
                do _ <- rec t x; v_set_elems t r
    end.

  (* TypeEntry::validate_value (143-321), one level *)
  Definition validate_det (d : details) (v : json) : res kind :=
    match d with
    | DEnum _ _ tag vs _ _ =>
        match tag with
        | TagExternal => v_external vs v
        | TagInternal tg => v_internal vs tg v
        | TagAdjacent tg c => v_adjacent vs tg c v
        | TagUntagged => v_untagged vs v
        end
    | DStruct _ _ props _ => v_struct_props props v
    | DNewtype _ _ t c => do k <- rec t v; if constraint_ok re c v then ROk k else RErr
    | DOption t =>
        match v with
        | JNull => ROk KIntrinsic
        | _ => do _ <- rec t v; ROk KSpecific
        end
    | DBox t => rec t v
    | DVec t =>
        match v with
        | JArr [] => ROk KIntrinsic
        | JArr l => do _ <- each (rec t) l; ROk KSpecific
        | _ => RErr
        end
    | DMap k vt =>
        match v with
        | JObj [] => ROk KIntrinsic
        | JObj m =>
            match get_det T k, get_det T vt with
            | Some _, Some _ =>
                do _ <- each (fun '(key, x) => do _ <- rec k (JStr key); rec vt x) m;
                ROk KSpecific
            | _, _ => RPanic
            end
        | _ => RErr
        end
    | DSet t =>
        match v with
        | JArr [] => ROk KIntrinsic
        | JArr l =>
            match get_det T t with
            | Some _ => do _ <- v_set_elems t l; ROk KSpecific
            | None => RPanic
            end
        | _ => RErr
        end
    | DTuple ts => v_tuple ts v
    | DArray t n =>
        match v with
        | JArr l =>
            if negb (N.eqb (N.of_nat (length l)) n) then RErr else
            match get_det T t with
            | Some _ => do _ <- each (rec t) l; ROk KSpecific
            | None => RPanic
            end
        | _ => RErr
        end
    | DUnit => match v with JNull => ROk KIntrinsic | _ => RErr end
    | DNative _ _ _ => ROk KSpecific
    | DJsonValue => ROk KSpecific
    | DBoolean =>
        match v with
        | JBool false => ROk KIntrinsic
        | JBool true => ROk (KGeneric GBoolean)
        | _ => RErr
        end
    | DInteger name =>
        if negb (integer_fits name v) then RErr else
        match as_u64 v, as_i64 v with
        | None, None => RErr
        | Some 0%Z, _ => ROk KIntrinsic
        | _, Some 0%Z => RPanic
        | Some _, _ => if is_nonzero_name name then ROk (KGeneric GNZU64) else ROk (KGeneric GU64)
        | _, Some _ => ROk (KGeneric GI64)
        end
    | DFloat _ =>
        if is_number v then
          if is_zero_number v then ROk KIntrinsic else ROk (KGeneric GI64)
        else RErr
    | DString =>
        match v with
        | JStr [] => ROk KIntrinsic
        | JStr _ => ROk KSpecific
        | _ => RErr
        end
    | DReference _ => RPanic
    end.
End Det.

Fixpoint validate_value (re : ustring -> ustring -> bool) (T : space) (fuel : nat) (t : id) (v : json)
  {struct fuel} : res kind :=
  match fuel with
  | O => RFuel
  | S n =>
      match get_det T t with
      | None => RPanic
      | Some d => validate_det re T (validate_value re T n) (all_props T n) d v
      end
  end.

(* ---- check_defaults (63-133): what finalize() validates for one entry ---- *)
Definition prop_default_checks (ps : list prop) : list (id * json) :=
  flat_map (fun p => match p_state p with PDefault v => [(p_ty p, v)] | _ => [] end) ps.

Definition entry_default_checks (self : id) (d : details) : list (id * json) :=
  ((match d with
   | DEnum _ (Some v) _ _ _ _ | DStruct _ (Some v) _ _ | DNewtype _ (Some v) _ _ => [(self, v)]
   | _ => []
   end) ++
  (match d with
   | DStruct _ _ ps _ => prop_default_checks ps
   | DEnum _ _ _ vs _ _ =>
       flat_map (fun var => match v_det var with VStruct ps => prop_default_checks ps | _ => [] end) vs
   | _ => []
   end))%list.

Definition check_defaults (re : ustring -> ustring -> bool) (T : space) (fuel : nat) (self : id) : res unit :=
  match get_det T self with
  | None => RPanic
  | Some d => each (fun '(t, v) => validate_value re T fuel t v) (entry_default_checks self d)
  end.

(* the shared generic default functions (DefaultImpl) check_defaults registers in TypeSpace.defaults for one entry:
   one per checked default whose DefaultKind is Generic (defaults.rs: `type_space.defaults.insert(default_fn)`) *)
Definition registered_generics (re : ustring -> ustring -> bool) (T : space) (fuel : nat) (self : id) : list gimpl :=
  match get_det T self with
  | None => []
  | Some d =>
      flat_map (fun '(t, v) => match validate_value re T fuel t v with ROk (KGeneric g) => [g] | _ => [] end)
               (entry_default_checks self d)
  end.
Definition show_gimpl (g : gimpl) : string :=
  match g with GBoolean => "Boolean" | GI64 => "I64" | GU64 => "U64" | GNZU64 => "NZU64" end%string.
(* all entries of the space: what TypeSpace.defaults must contain after finalisation *)
Definition all_registered (re : ustring -> ustring -> bool) (T : space) (fuel : nat) : list string :=
  flat_map (fun '(i, _) => map show_gimpl (registered_generics re T fuel i)) (sp_entries T).

(* ---- has_default (structs.rs:423-485): state of a non-required property ---- *)
Definition has_default (d : option details) (default : option json) : pstate :=
  match d, default with
  | Some (DOption _), None | Some (DVec _), None | Some (DMap _ _), None | Some DUnit, None => POptional
  | _, None => PRequired
  | Some (DOption _), Some JNull => POptional
  | Some DUnit, Some JNull => POptional
  | Some (DVec _), Some (JArr []) => POptional
  | Some (DMap _ _), Some (JObj []) => POptional
  | Some DBoolean, Some (JBool false) => POptional
  | Some (DInteger _), Some (JInt 0%Z) => POptional
  | Some (DInteger _), Some (JFlt q) => if Z.eqb (Qnum q) 0 then POptional else PDefault (JFlt q)
  | Some DString, Some (JStr []) => POptional
  | _, Some v => PDefault v
  end.

(* the value serde's plain `#[serde(default)]` produces for the member's Rust type, as has_default recognises it:
   EXACT tests -- null, [], {}, false, the number zero (`n.as_u64() == Some(0)` / `n.as_f64() == Some(0.0)`), "" --
   and only for Option / Unit / Vec / Map / bool / integers / String; floats never *)
Definition intrinsic_default (d : details) (v : json) : bool :=
  match d, v with
  | DOption _, JNull | DUnit, JNull => true
  | DVec _, JArr [] => true
  | DMap _ _, JObj [] => true
  | DBoolean, JBool false => true
  | DInteger _, JInt z => Z.eqb z 0
  | DInteger _, JFlt q => Z.eqb (Qnum q) 0
  | DString, JStr [] => true
  | _, _ => false
  end.

(* shapes the IR fixes by itself: a value of the wrong JSON type / arity for the type kind *)
Definition shape_mismatch (d : details) (v : json) : bool :=
  match d, v with
  | DBoolean, JBool _ => false
  | DBoolean, _ => true
  | DInteger _, _ => match as_u64 v, as_i64 v with None, None => true | _, _ => false end
  | DFloat _, _ => negb (is_number v)
  | DUnit, JNull => false
  | DUnit, _ => true
  | DVec _, JArr _ | DSet _, JArr _ => false
  | DVec _, _ | DSet _, _ => true
  | DMap _ _, JObj _ => false
  | DMap _ _, _ => true
  | DArray _ n, JArr l => negb (N.eqb (N.of_nat (length l)) n)
  | DArray _ _, _ => true
  | DTuple ts, JArr l => negb (Nat.eqb (length l) (length ts))
  | DTuple _, _ => true
  | DStruct _ _ _ _, JObj _ => false
  | DStruct _ _ _ _, _ => true
  | _, _ => false
  end.

(* ---- printing for the correspondence check ---- *)
Open Scope string_scope.
Definition show_kind (k : kind) : string :=
  match k with
  | KIntrinsic => "Intrinsic"
  | KSpecific => "Specific"
  | KGeneric GBoolean => "Generic(Boolean)"
  | KGeneric GI64 => "Generic(I64)"
  | KGeneric GU64 => "Generic(U64)"
  | KGeneric GNZU64 => "Generic(NZU64)"
  end.
Definition show_pstate (s : pstate) : string :=
  match s with
  | PRequired => "required"
  | POptional => "optional"
  | PDefault v => "default:" ++ show_json v
  end.
Definition show_vres (r : res kind) : string :=
  match r with
  | ROk k => "ok:" ++ show_kind k
  | RErr => "err"
  | RFuel => "fuel"
  | RPanic => "panic"
  end.
