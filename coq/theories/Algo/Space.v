(* Space.v -- executable model of TypeSpace's identifier allocation and its three
   de-duplication indexes (typify-impl/src/lib.rs).  DEFINITIONS ONLY; all
   lemmas are in Proofs/SpaceProofs.v, the property theorems in Props/C16.v.

   Rust state (lib.rs:186-212)            model
     next_id      : u64                    next_id    : N        (starts at 1, lib.rs:217)
     id_to_entry  : BTreeMap<TypeId,_>     entries    : alist id entry
     type_to_id   : BTreeMap<Details,_>    type_to_id : alist body id
     name_to_id   : BTreeMap<String,_>     name_to_id : alist name id
     ref_to_id    : BTreeMap<RefKey,_>     ref_to_id  : alist refkey id
   (`definitions`, `uses_*`, `defaults`, `cache` do not take part in allocation.)

   A TypeEntry is abstracted to what allocation looks at: its type name (if it is
   an Enum/Struct/Newtype, type_entry.rs:587-595) and an opaque structural key
   with the list of child ids.  The converter (convert_schema and everything
   below it) is NOT modelled: an API call carries an arbitrary *conversion
   script*, the list of assign_type calls the converter issues; an entry handed
   to assign_type may mention earlier results of the same conversion (CRes),
   identifiers obtained by resolving a `$ref` through ref_to_id (CKey) or
   absolute identifiers (CAbs).  Theorems quantify over all scripts.

   Finite maps are association lists with unique keys (`upd` replaces in
   place, which is BTreeMap::insert's overwrite). *)
From Coq Require Import NArith List Bool String DecimalString.
Import ListNotations.
Open Scope N_scope.

Definition id := N.
Definition name := N.      (* type names after sanitize(), numbered by the harness *)
Definition refkey := N.    (* RefKey::Root / RefKey::Def(s), numbered by the harness *)

(* ---------- association lists ---------- *)
Section AList.
  Context {K V : Type} (eqb : K -> K -> bool).
  Fixpoint lookup (k : K) (m : list (K * V)) : option V :=
    match m with
    | [] => None
    | (k', v) :: t => if eqb k k' then Some v else lookup k t
    end.
  (* BTreeMap::insert: overwrite when present *)
  Fixpoint upd (k : K) (v : V) (m : list (K * V)) : list (K * V) :=
    match m with
    | [] => [(k, v)]
    | (k', v') :: t => if eqb k k' then (k, v) :: t else (k', v') :: upd k v t
    end.
End AList.

(* ---------- entries ---------- *)
Record body := mkBody { bkey : N; bkids : list id }.
Inductive entry := Named (n : name) (b : body) | Unnamed (b : body).

Definition ebody (e : entry) : body := match e with Named _ b => b | Unnamed b => b end.
Definition ekids (e : entry) : list id := bkids (ebody e).
Definition ename (e : entry) : option name := match e with Named n _ => Some n | Unnamed _ => None end.
Definition with_kids (e : entry) (ks : list id) : entry :=
  match e with
  | Named n b => Named n (mkBody (bkey b) ks)
  | Unnamed b => Unnamed (mkBody (bkey b) ks)
  end.

Fixpoint list_eqb (l1 l2 : list N) : bool :=
  match l1, l2 with
  | [], [] => true
  | a :: t1, b :: t2 => (a =? b) && list_eqb t1 t2
  | _, _ => false
  end.
Definition body_eqb (a b : body) : bool := (bkey a =? bkey b) && list_eqb (bkids a) (bkids b).

(* ---------- what the converter hands to assign_type ---------- *)
Inductive cref := CRes (k : nat) | CAbs (i : id) | CKey (r : refkey).
Record tbody := mkT { tkey : N; tkids : list cref }.
Inductive tentry :=
| TNamed (n : name) (b : tbody)     (* Enum / Struct / Newtype *)
| TUnnamed (b : tbody)              (* everything else *)
| TRef (c : cref).                  (* TypeEntryDetails::Reference *)

Record space := mkSpace {
  next_id : N;
  entries : list (id * entry);
  type_to_id : list (body * id);
  name_to_id : list (name * id);
  ref_to_id : list (refkey * id) }.

Definition empty : space := mkSpace 1 [] [] [] [].   (* Default for TypeSpace, lib.rs:214-232 *)

Definition BOXKEY : N := 0.   (* structural key of TypeEntryDetails::Box *)

(* resolved form of a tentry *)
Inductive rentry := RRef (i : id) | REnt (e : entry).

Definition resolve (s : space) (res : list id) (c : cref) : id :=
  match c with
  | CRes k => nth k res 0
  | CAbs i => i
  | CKey r => match lookup N.eqb r (ref_to_id s) with Some i => i | None => 0 end
  end.
Definition resolve_body (s : space) (res : list id) (b : tbody) : body :=
  mkBody (tkey b) (map (resolve s res) (tkids b)).
Definition resolve_t (s : space) (res : list id) (t : tentry) : rentry :=
  match t with
  | TNamed n b => REnt (Named n (resolve_body s res b))
  | TUnnamed b => REnt (Unnamed (resolve_body s res b))
  | TRef c => RRef (resolve s res c)
  end.

(* lib.rs:929-963 assign_type (with assign, lib.rs:919-923, inlined) *)
Definition assign_type (s : space) (t : rentry) : space * id :=
  match t with
  | RRef i => (s, i)                                             (* 930-931 *)
  | REnt (Named n b) =>
      match lookup N.eqb n (name_to_id s) with
      | Some i => (s, i)                                         (* 942-948: reuse by name, no comparison *)
      | None =>                                                  (* 950-953 *)
          let i := next_id s in
          (mkSpace (i + 1) (upd N.eqb i (Named n b) (entries s)) (type_to_id s)
                   (upd N.eqb n i (name_to_id s)) (ref_to_id s), i)
      end
  | REnt (Unnamed b) =>
      match lookup body_eqb b (type_to_id s) with
      | Some i => (s, i)                                         (* 955-956: reuse by structure *)
      | None =>                                                  (* 958-961 *)
          let i := next_id s in
          (mkSpace (i + 1) (upd N.eqb i (Unnamed b) (entries s)) (upd body_eqb b i (type_to_id s))
                   (name_to_id s) (ref_to_id s), i)
      end
  end.

(* one conversion: the assign_type calls convert_schema issues, in order *)
Fixpoint run_script (s : space) (res : list id) (scr : list tentry) : space * list id :=
  match scr with
  | [] => (s, res)
  | t :: r => let '(s', i) := assign_type s (resolve_t s res t) in run_script s' (res ++ [i]) r
  end.

(* lib.rs:780-785 / 685-690: finalize re-inserts each entry of the range at its
   own id; the structural view (name, key, children) of an entry is not changed
   by finalize (it computes bespoke impls and checks defaults).  The `.unwrap()`
   of line 687/782 cannot fail when every id of the range has an entry
   (SpaceProofs.dom_full). *)
Definition finalize_one (s : space) (i : id) : space :=
  match lookup N.eqb i (entries s) with
  | Some e => mkSpace (next_id s) (upd N.eqb i e (entries s)) (type_to_id s) (name_to_id s) (ref_to_id s)
  | None => s
  end.
Fixpoint range (lo : N) (n : nat) : list N :=
  match n with O => [] | S m => lo :: range (lo + 1) m end.
Definition finalize_range (base : N) (s : space) : space :=
  fold_left finalize_one (range base (N.to_nat (next_id s - base))) s.

(* lib.rs:766-788 add_type_with_name: id_for_schema = one conversion whose last
   assign_type result is returned (lib.rs:969-992) *)
Definition add_type (s : space) (scr : list tentry) : space * id :=
  let base := next_id s in
  let '(s', res) := run_script s [] scr in
  (finalize_range base s', last res 0).

(* how convert_ref_type / the replacement branch fills a reserved id *)
Inductive ins :=
| InsNamed (n : name) (b : tbody)   (* lib.rs:751-754: name_to_id.insert OVERWRITES; id_to_entry.insert *)
| InsRaw (b : tbody).               (* lib.rs:668-674 (settings.replace) and 729 (native name match): no index touched *)
Record defn := mkDef { d_key : refkey; d_script : list tentry; d_ins : ins }.

Definition set_entries (s : space) (m : list (id * entry)) : space :=
  mkSpace (next_id s) m (type_to_id s) (name_to_id s) (ref_to_id s).

(* lib.rs:695-756 convert_ref_type for the definition with reserved id `rid` *)
Definition convert_def (s : space) (rid : id) (d : defn) : space :=
  let '(s', res) := run_script s [] (d_script d) in
  match d_ins d with
  | InsNamed n b =>
      mkSpace (next_id s') (upd N.eqb rid (Named n (resolve_body s' res b)) (entries s'))
              (type_to_id s') (upd N.eqb n rid (name_to_id s')) (ref_to_id s')
  | InsRaw b => set_entries s' (upd N.eqb rid (Unnamed (resolve_body s' res b)) (entries s'))
  end.

(* lib.rs:625-633: ids base..base+n reserved, ref_to_id.insert OVERWRITES *)
Fixpoint reserve_refs (m : list (refkey * id)) (rid : id) (defs : list defn) : list (refkey * id) :=
  match defs with
  | [] => m
  | d :: r => reserve_refs (upd N.eqb (d_key d) rid m) (rid + 1) r
  end.
Definition reserve (s : space) (defs : list defn) : space :=
  mkSpace (next_id s + N.of_nat (List.length defs)) (entries s) (type_to_id s) (name_to_id s)
          (reserve_refs (ref_to_id s) (next_id s) defs).

(* lib.rs:639-676: convert the first `fuel` definitions in order (all of them
   when the call succeeds; a prefix when a conversion returns Err) *)
Fixpoint convert_defs (s : space) (rid : id) (defs : list defn) : space :=
  match defs with
  | [] => s
  | d :: r => convert_defs (convert_def s rid d) (rid + 1) r
  end.

Fixpoint replace_nth (k : nat) (v : id) (l : list id) : list id :=
  match l, k with
  | [], _ => []
  | _ :: t, O => v :: t
  | a :: t, S k' => a :: replace_nth k' v t
  end.

(* cycles.rs:93-109: one snip.  id_to_box(child) = assign_type(Box(child))
   (lib.rs:1005-1007), then the parent's slot is re-pointed IN id_to_entry only:
   a type_to_id key of an unnamed parent keeps its old children. *)
Definition box_slot (s : space) (pk : id * nat) : space :=
  let '(p, k) := pk in
  match lookup N.eqb p (entries s) with
  | None => s
  | Some e =>
      match nth_error (ekids e) k with
      | None => s
      | Some c =>
          let '(s', bx) := assign_type s (REnt (Unnamed (mkBody BOXKEY [c]))) in
          set_entries s' (upd N.eqb p (with_kids e (replace_nth k bx (ekids e))) (entries s'))
      end
  end.

(* lib.rs:639,665-689 (fix c22ef06): `batch_names` records the type name under
   which each definition of THIS call was inserted; the first definition whose
   name is already recorded makes the call return Err(InvalidSchema) -- AFTER
   convert_ref_type inserted it.  The name is the one carried by the inserted
   entry (InsNamed); replacement / native entries (InsRaw) have none.
   `batch_dup defs` = index of that definition. *)
Definition ins_name (i : ins) : option name := match i with InsNamed n _ => Some n | InsRaw _ => None end.
Fixpoint batch_dup_from (seen : list name) (defs : list defn) (k : nat) : option nat :=
  match defs with
  | [] => None
  | d :: r =>
      match ins_name (d_ins d) with
      | Some n => if existsb (N.eqb n) seen then Some k else batch_dup_from (n :: seen) r (S k)
      | None => batch_dup_from seen r (S k)
      end
  end.
Definition batch_dup (defs : list defn) : option nat := batch_dup_from [] defs O.

(* One API call.  break_cycles is abstracted to the list of snips it performs
   (parent id, slot index); which snips it chooses is Cycles.v's business (C07). *)
Inductive call :=
| AddType (scr : list tentry)
| AddRefs (defs : list defn) (boxes : list (id * nat)) (ret : option refkey)
    (* add_ref_types (ret = None) / add_root_schema (ret = Some Root when titled) *)
| AddRefsErr (defs : list defn) (done : nat) (partial : list tentry).
    (* the call returned Err while converting definition number `done`
       (lib.rs:665 `?`) after that conversion had issued the assign_type calls
       `partial`: ids stay reserved, no break_cycles, no finalize *)

(* a batch that returns Err after `done` definitions were converted and inserted *)
Definition refs_err (s : space) (defs : list defn) (done : nat) (partial : list tentry) : space * id :=
  let base := next_id s in
  let s1 := reserve s defs in
  (fst (run_script (convert_defs s1 base (firstn done defs)) [] partial), 0).

Definition refs_ok (s : space) (defs : list defn) (boxes : list (id * nat)) (ret : option refkey) : space * id :=
  let base := next_id s in
  let s1 := reserve s defs in
  let s2 := convert_defs s1 base defs in
  let s3 := fold_left box_slot boxes s2 in
  let s4 := finalize_range base s3 in
  (s4, match ret with
       | Some r => match lookup N.eqb r (ref_to_id s4) with Some i => i | None => 0 end
       | None => 0
       end).

(* lib.rs:717-737 (fix 40183ea): after ALL conversions, every NAMED entry this
   call created (ids base..next_id: the definitions AND the inline / titled types
   their conversions assigned) must have its own name, else Err(InvalidSchema).
   Like c22ef06 nothing is rolled back; break_cycles and finalize do not run. *)
Definition created_names (base : N) (s : space) : list name :=
  flat_map (fun i => match lookup N.eqb i (entries s) with
                     | Some (Named n _) => [n]
                     | _ => []
                     end) (range base (N.to_nat (next_id s - base))).
Fixpoint has_dup (l : list name) : bool :=
  match l with [] => false | a :: t => existsb (N.eqb a) t || has_dup t end.
Definition created_dup (base : N) (s : space) : bool := has_dup (created_names base s).

Definition run_call (s : space) (c : call) : space * id :=
  match c with
  | AddType scr => add_type s scr
  | AddRefs defs boxes ret =>
      match batch_dup defs with
      | Some i => refs_err s defs (S i) []      (* c22ef06: definitions 0..i are inserted *)
      | None =>
          if created_dup (next_id s) (convert_defs (reserve s defs) (next_id s) defs)
          then refs_err s defs (List.length defs) []     (* 40183ea: ALL definitions are inserted *)
          else refs_ok s defs boxes ret
      end
  | AddRefsErr defs done partial => refs_err s defs done partial
  end.

(* does the call return Err? *)
Definition call_err (s : space) (c : call) : bool :=
  match c with
  | AddType _ => false
  | AddRefs defs _ _ =>
      match batch_dup defs with
      | Some _ => true
      | None => created_dup (next_id s) (convert_defs (reserve s defs) (next_id s) defs)
      end
  | AddRefsErr _ _ _ => true
  end.

Definition run_history (s : space) (h : list call) : space :=
  fold_left (fun s c => fst (run_call s c)) h s.

(* states and results after every call *)
Fixpoint run_trace (s : space) (h : list call) : list (space * id * bool) :=
  match h with
  | [] => []
  | c :: r => let sr := run_call s c in (sr, call_err s c) :: run_trace (fst sr) r
  end.

(* ---------- observations ---------- *)
(* to_stream() (lib.rs:906-908, type_entry.rs:702-729) emits one definition per
   Enum/Struct/Newtype ENTRY, in id order; OutputSpace::add_item
   (output.rs:22-32) extends, never replaces: two entries with one name are two
   definitions of that name. *)
Definition def_names (s : space) : list name :=
  flat_map (fun ie => match ename (snd ie) with Some n => [n] | None => [] end) (entries s).

Definition dom (s : space) : list id := map fst (entries s).

(* ---------- printing (for the correspondence run) ---------- *)
Open Scope string_scope.
Definition sN (n : N) : string := NilZero.string_of_uint (N.to_uint n).
Definition sList {A} (f : A -> string) (l : list A) : string := String.concat "," (map f l).
Definition show_entry (ie : id * entry) : string :=
  let '(i, e) := ie in
  sN i ++ ":" ++ match e with Named n _ => "n" ++ sN n | Unnamed _ => "u" end
       ++ ":" ++ sN (bkey (ebody e)) ++ ":" ++ String.concat "." (map sN (ekids e)).
Definition show_pair (p : N * N) : string := sN (fst p) ++ ">" ++ sN (snd p).
Definition show_space (s : space) : string :=
  "next=" ++ sN (next_id s) ++ "|ent=" ++ sList show_entry (entries s)
  ++ "|t2i=" ++ sList (fun p => sN (snd p)) (type_to_id s)
  ++ "|names=" ++ sList show_pair (name_to_id s)
  ++ "|refs=" ++ sList show_pair (ref_to_id s).
(* the correspondence run prints, per call, only what changed (keeps the
   vm_compute result small); the checker re-assembles the states *)
Definition opt_eqb (a b : option N) : bool :=
  match a, b with Some x, Some y => (x =? y)%N | None, None => true | _, _ => false end.
Definition entry_eqb (a b : entry) : bool :=
  opt_eqb (ename a) (ename b) && body_eqb (ebody a) (ebody b).
Definition changed {V} (veqb : V -> V -> bool) (prev cur : list (N * V)) : list (N * V) :=
  filter (fun kv => match lookup N.eqb (fst kv) prev with
                    | Some v => negb (veqb v (snd kv))
                    | None => true
                    end) cur.
Definition show_delta (prev cur : space) (ret : id) (err : bool) : string :=
  "next=" ++ sN (next_id cur)
  ++ "|ent=" ++ sList show_entry (changed entry_eqb (entries prev) (entries cur))
  ++ "|t2i=" ++ sList sN (filter (fun i => negb (existsb (N.eqb i) (map snd (type_to_id prev))))
                                 (map snd (type_to_id cur)))
  ++ "|names=" ++ sList show_pair (changed N.eqb (name_to_id prev) (name_to_id cur))
  ++ "|refs=" ++ sList show_pair (changed N.eqb (ref_to_id prev) (ref_to_id cur))
  ++ "|sizes=" ++ sN (N.of_nat (List.length (entries cur))) ++ "." ++ sN (N.of_nat (List.length (type_to_id cur)))
  ++ "." ++ sN (N.of_nat (List.length (name_to_id cur))) ++ "." ++ sN (N.of_nat (List.length (ref_to_id cur)))
  ++ "|ret=" ++ sN ret ++ "|err=" ++ (if err then "1" else "0").
Fixpoint show_deltas (prev : space) (tr : list (space * id * bool)) : list string :=
  match tr with
  | [] => []
  | (s, r, e) :: t => show_delta prev s r e :: show_deltas s t
  end.
Definition show_trace (h : list call) : string :=
  String.concat "#" (show_deltas empty (run_trace empty h)).
