(* Executable model of typify-impl/src/convert.rs: convert_integer (969-1169),
   the string-format table of convert_string (787-890) and convert_number
   (1172-1193).  No proofs here: the model must keep running when a proof breaks.

   Numbers are IEEE-754 binary64 (Flocq), exactly the `f64` the Rust code
   computes with.  The format table is REGENERATED from the Rust source
   (Gen/IntTable.v). *)
From Coq Require Import String ZArith List Bool.
From Flocq Require Import Core BinarySingleNaN Binary Bits.
From Typify Require Import Gen.IntTable.
Import ListNotations.
Open Scope string_scope.

Definition f64 := binary64.

Lemma Hp53 : Prec_gt_0 53. Proof. reflexivity. Qed.
Lemma Hpe53 : Prec_lt_emax 53 1024. Proof. reflexivity. Qed.

Definition fadd (x y : f64) : f64 := Bplus 53 1024 Hp53 Hpe53 binop_nan_pl64 mode_NE x y.
Definition fsub (x y : f64) : f64 := Bminus 53 1024 Hp53 Hpe53 binop_nan_pl64 mode_NE x y.
Definition fabs (x : f64) : f64 := Babs 53 1024 unop_nan_pl64 x.
Definition fcmp (x y : f64) : option comparison := Bcompare 53 1024 x y.

Definition fle x y := match fcmp x y with Some Lt | Some Eq => true | _ => false end.
Definition flt x y := match fcmp x y with Some Lt => true | _ => false end.
Definition fge x y := match fcmp x y with Some Gt | Some Eq => true | _ => false end.
Definition fgt x y := match fcmp x y with Some Gt => true | _ => false end.
Definition feq x y := match fcmp x y with Some Eq => true | _ => false end.

(* Rust's f64::max / f64::min on non-NaN arguments (NaN cannot come out of a
   JSON document; the sign of a zero result is irrelevant to every later test). *)
Definition fmax x y := if fle x y then y else x.
Definition fmin x y := if fle x y then x else y.

Definition fone : f64 := b64_of_bits 4607182418800017408.     (* 1.0 *)
Definition feps : f64 := b64_of_bits 4372995238176751616.     (* f64::EPSILON = 2^-52 *)
Definition fzero : f64 := b64_of_bits 0.                       (* +0.0 *)

Record row := { r_fmt : string; r_ty : string; r_nz : string; r_min : f64; r_max : f64 }.

Definition int_formats : list row :=
  map (fun '(f, t, n, a, b) =>
         {| r_fmt := f; r_ty := t; r_nz := n; r_min := b64_of_bits a; r_max := b64_of_bits b |})
      int_formats_raw.

(* schemars::schema::NumberValidation *)
Record bounds := {
  b_min : option f64;    (* minimum *)
  b_max : option f64;    (* maximum *)
  b_emin : option f64;   (* exclusiveMinimum *)
  b_emax : option f64;   (* exclusiveMaximum *)
  b_mult : option f64    (* multipleOf *)
}.

(* metadata.default: None = no default; Some None = default present but
   `as_f64()` is None (not a number); Some (Some d) = numeric default *)
Definition dflt := option (option f64).

Inductive outcome := Chosen (ty : string) | ErrInvalidValue.

Definition norm_min (b : bounds) : option f64 :=
  match b_min b, b_emin b with
  | None, None => None
  | None, Some v => Some (fadd v fone)
  | Some v, None => Some v
  | Some m, Some e => Some (fmax m (fadd e fone))
  end.

Definition norm_max (b : bounds) : option f64 :=
  match b_max b, b_emax b with
  | None, None => None
  | None, Some v => Some (fsub v fone)
  | Some v, None => Some v
  | Some m, Some e => Some (fmin m (fsub e fone))
  end.

Definition is_one (m : option f64) : bool :=
  match m with Some v => feq v fone | None => false end.

Definition close (a b : f64) : bool := fle (fabs (fsub a b)) feps.

(* the `find_map` over `formats.iter().rev()` *)
Fixpoint find_map {A B} (f : A -> option B) (l : list A) : option B :=
  match l with
  | [] => None
  | x :: tl => match f x with Some y => Some y | None => find_map f tl end
  end.

Definition f_i64_min : f64 := b64_of_bits 14114281232179134464.  (* i64::MIN as f64 = -2^63 *)
Definition f_i64_max : f64 := b64_of_bits 4890909195324358656.   (* i64::MAX as f64 =  2^63 *)

Definition fit_type (min max : option f64) : option string :=
  match min, max with
  | None, Some mx =>
      find_map (fun r => if close (r_max r) mx && fle (r_min r) f_i64_min
                         then Some (r_ty r) else None) (rev int_formats)
  | Some mn, None =>
      find_map (fun r => if feq mn fone then Some (r_nz r)
                         else if close (r_min r) mn && fge (r_max r) f_i64_max
                         then Some (r_ty r) else None)
               (rev int_formats)
  | Some mn, Some mx =>
      find_map (fun r => if feq mn fone then Some (r_nz r)
                         else if close (r_max r) mx && close (r_min r) mn then Some (r_ty r)
                         else None)
               (rev int_formats)
  | None, None => None
  end.

Definition default_in (d : dflt) (min max : option f64) : bool :=
  match d with
  | None => true
  | Some None => false
  | Some (Some v) =>
      match min, max with
      | None, None => true
      | None, Some mx => fle v mx
      | Some mn, None => fge v mn
      | Some mn, Some mx => fge v mn && fle v mx
      end
  end.

Definition is_none {A} (o : option A) := match o with None => true | Some _ => false end.

Definition choose_integer (format : option string) (b : bounds) (d : dflt) : outcome :=
  let min := norm_min b in
  let max := norm_max b in
  let frow := match format with
              | Some f => find (fun r => String.eqb (r_fmt r) f) int_formats
              | None => None
              end in
  let general (min max : option f64) :=
      if default_in d min max then
        match fit_type min max with
        | Some ty => Chosen ty
        | None => if match format with Some f => String.eqb f "uint64" | None => false end
                  then (* values of this format may exceed i64::MAX; none is negative *)
                       match d with
                       | Some (Some v) => if flt v fzero then ErrInvalidValue else Chosen "u64"
                       | _ => Chosen "u64"
                       end
                  else Chosen "i64"
        end
      else ErrInvalidValue in
  match frow with
  | Some r =>
      let valid_min := match min with None => true | Some m => fge m (r_min r) end in
      let valid_max := match max with None => true | Some m => fle m (r_max r) end in
      if is_none (b_mult b) && valid_min && valid_max then
        let bad_default := match d with
                           | Some (Some v) =>
                               flt v (r_min r) || fgt v (r_max r)
                               || match min with Some m => flt v m | None => false end
                               || match max with Some m => fgt v m | None => false end
                           | _ => false
                           end in
        if bad_default then ErrInvalidValue
        else if is_one min then Chosen (r_nz r) else Chosen (r_ty r)
      else
        general (match min with None => Some (r_min r) | _ => min end)
                (match max with None => Some (r_max r) | _ => max end)
  | None => general min max
  end.

(* convert_string: recognised formats -> native type, anything else -> String
   (string validation is ignored when a format is present) *)
Definition choose_string_format (format : string) : string :=
  match find (fun p => String.eqb (fst p) format) string_formats with
  | Some p => snd p
  | None => "String"
  end.

(* convert_number *)
Definition choose_number (format : option string) : string :=
  match format with
  | Some f => match find (fun p => String.eqb (fst p) f) number_formats with
              | Some p => snd p
              | None => "f64"
              end
  | None => "f64"
  end.

(* --- printing for the correspondence check --- *)
Definition show_outcome (o : outcome) : string :=
  match o with Chosen t => "ok:" ++ t | ErrInvalidValue => "err:InvalidValue" end.

Definition ob (z : option Z) : option f64 := option_map b64_of_bits z.
Definition mkb (mn mx emn emx mu : option Z) : bounds :=
  {| b_min := ob mn; b_max := ob mx; b_emin := ob emn; b_emax := ob emx; b_mult := ob mu |}.
Definition mkd (d : option (option Z)) : dflt := option_map ob d.
Definition run_int (f : option string) (mn mx emn emx mu : option Z) (d : option (option Z)) : string :=
  show_outcome (choose_integer f (mkb mn mx emn emx mu) (mkd d)).
