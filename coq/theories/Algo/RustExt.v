(* C13 — the x-rust-type decision procedure.  Definitions only.

   decide            typify-impl/src/rust_extension.rs:24-113 (convert_rust_extension)
   convert_object    typify-impl/src/convert.rs:54-56 (extension consulted first)
   name_match        typify-impl/src/type_entry.rs:99-105
   convert_ref_def   typify-impl/src/lib.rs:694-756, the arms reachable from a
                     definition that carries the extension

   Strings are lists of Unicode scalar values.  `str::replace('-', "_")`,
   `str::find("::")`, `&path[..k]`, `&path[k..]`, `rsplit("::").next()` are
   modelled on that representation ("::" and '-' are ASCII, so byte offsets and
   scalar offsets cut at the same places).

   NOT modelled (inputs instead): serde's parse of the extension value (the
   outcome `ExtMalformed | ExtOk`), `semver::VersionReq::parse` (the outcome
   `None | Some ast`, the AST is passed field by field from the real parser),
   the conversion of each parameter schema (`id_for_schema`: `Some t | None`),
   and `syn::parse_str::<syn::TypePath>(&path).is_ok()` (section variable
   `path_is_type_path`; no hypothesis is made about it, its verdict on each
   tested path is taken from the real syn parser by harness/src/bin/c13.rs). *)
From Coq Require Import NArith List Bool String.
From Typify Require Import Algo.Semver.
Import ListNotations.
Open Scope N_scope.

Definition ustring := list N.

Definition colon : N := 58.
Definition dash : N := 45.
Definition underscore : N := 95.
Definition sep : ustring := [colon; colon].

Fixpoint ustr_eqb (a b : ustring) : bool :=
  match a, b with
  | [], [] => true
  | x :: a', y :: b' => (x =? y) && ustr_eqb a' b'
  | _, _ => false
  end.

(* str::replace('-', "_") *)
Definition dash_to_us (s : ustring) : ustring :=
  map (fun c => if c =? dash then underscore else c) s.

(* str::find("::") : offset of the first occurrence *)
Fixpoint find_sep (s : ustring) : option nat :=
  match s with
  | [] => None
  | c :: t =>
      match t with
      | d :: _ => if (c =? colon) && (d =? colon) then Some O else option_map S (find_sep t)
      | [] => None
      end
  end.

(* rsplit("::").next().unwrap() : what follows the last occurrence *)
Definition last_segment (s : ustring) : ustring :=
  let r := rev s in
  match find_sep r with
  | Some k => rev (firstn k r)
  | None => s
  end.

(* the segments of a path: split at every "::", scanning left to right
   (specification vocabulary only; the code never splits the path) *)
Fixpoint split_sep_aux (s : ustring) (acc : ustring) : list ustring :=
  match s with
  | [] => [rev acc]
  | c :: t =>
      match t with
      | d :: t' => if (c =? colon) && (d =? colon) then rev acc :: split_sep_aux t' []
                   else split_sep_aux t (c :: acc)
      | [] => [rev (c :: acc)]
      end
  end.

Definition split_sep (s : ustring) : list ustring := split_sep_aux s [].

Definition no_colon (s : ustring) : Prop := Forall (fun c => c <> colon) s.

(* ------------------------------------------------------------ settings *)

Inductive crate_vers := CVVersion (v : version) | CVAny | CVNever.
Record crate_spec := CS { cs_version : crate_vers; cs_rename : option ustring }.
Inductive unknown_policy := PGenerate | PAllow | PDeny.

(* settings.crates : BTreeMap<String, CrateSpec> as an association list *)
Definition crates := list (ustring * crate_spec).

Fixpoint lookup (cs : crates) (k : ustring) : option crate_spec :=
  match cs with
  | [] => None
  | (k', s) :: tl => if ustr_eqb k k' then Some s else lookup tl k
  end.

(* ----------------------------------------------------------- extension *)

Section Decide.
Context {T : Type}.    (* a converted parameter (a type id in Rust) *)
(* syn::parse_str::<syn::TypePath>(&path).is_ok()  (rust_extension.rs:60-68) *)
Context (path_is_type_path : ustring -> bool).

Record extension := X {
  x_crate : ustring;
  x_path : ustring;
  x_params : list (option T)      (* outcome of id_for_schema for each parameter *)
}.

Inductive ext_parse :=
| ExtAbsent                                   (* no "x-rust-type" key *)
| ExtMalformed                                (* serde_json::from_value failed *)
| ExtOk (e : extension) (r : option req).     (* r = VersionReq::parse(version).ok() *)

Inductive decision := Use (path : ustring) (params : list T) | Generate.

(* .collect::<Result<Vec<_>>>().ok() *)
Fixpoint collect (l : list (option T)) : option (list T) :=
  match l with
  | [] => Some []
  | Some x :: tl => option_map (cons x) (collect tl)
  | None :: _ => None
  end.

Definition decide (cs : crates) (pol : unknown_policy) (x : ext_parse) : decision :=
  match x with
  | ExtAbsent => Generate                                     (* :25 `?` *)
  | ExtMalformed => Generate                                  (* :27-40 *)
  | ExtOk e None => Generate                                  (* :42-48 *)
  | ExtOk e (Some rq) =>
    let crate_ident := dash_to_us (x_crate e) in              (* :50 *)
    match find_sep (x_path e) with                            (* :51 `?` *)
    | None => Generate
    | Some k =>
      if negb (ustr_eqb crate_ident (firstn k (x_path e))) then Generate   (* :52-58 *)
      else if negb (path_is_type_path (x_path e)) then Generate            (* :60-68 *)
      else
        let path' :=
          match lookup cs (x_crate e) with                    (* :71 *)
          | Some spec =>
              let ok := match cs_version spec with            (* :74-78 *)
                        | CVAny => true
                        | CVVersion v => matches_req rq v
                        | CVNever => false
                        end in
              if ok then
                Some (match cs_rename spec with               (* :81-85 *)
                      | Some new_crate => dash_to_us new_crate ++ skipn k (x_path e)
                      | None => x_path e
                      end)
              else None
          | None =>
              match pol with                                  (* :87-94 *)
              | PGenerate => None
              | PAllow => Some (x_path e)
              | PDeny => None
              end
          end in
        match path' with
        | None => Generate
        | Some p =>
            match collect (x_params e) with                   (* :99-107 *)
            | None => Generate
            | Some ids => Use (sep ++ p) ids                  (* :109-112 *)
            end
        end
    end
  end.

(* ---------------------------------------------- definitions and wrappers *)

Inductive name := NRequired (s : ustring) | NSuggested (s : ustring) | NUnknown.

(* type_entry.rs:99-105 *)
Definition name_match (type_name : ustring) (params : list T) (n : name) : bool :=
  let native_name := last_segment type_name in
  negb (match params with [] => true | _ => false end)
  || match n with NRequired r => ustr_eqb r native_name | _ => false end.

(* what a definition `#/definitions/<n>` carrying the extension becomes
   (lib.rs:694-756): the Native entry itself, a transparent newtype named after
   the definition around it, or whatever the structural conversion yields *)
Inductive def_outcome :=
| DefNative (path : ustring) (params : list T)
| DefNewtype (path : ustring) (params : list T)
| DefStructural.

Definition convert_ref_def (cs : crates) (pol : unknown_policy) (n : name) (x : ext_parse)
  : def_outcome :=
  match decide cs pol x with                                  (* convert.rs:54-56 *)
  | Use p ps => if name_match p ps n then DefNative p ps      (* lib.rs:729 *)
                else DefNewtype p ps                          (* lib.rs:733-749 *)
  | Generate => DefStructural
  end.

End Decide.
Arguments extension : clear implicits.
Arguments ext_parse : clear implicits.
Arguments decision : clear implicits.
Arguments def_outcome : clear implicits.

(* --------------------------------------------------- printing for the tie *)
Open Scope string_scope.

Fixpoint string_of_ustring (s : ustring) : string :=
  match s with
  | [] => EmptyString
  | c :: t => String (Ascii.ascii_of_N c) (string_of_ustring t)
  end.

Fixpoint ustring_of_string (s : string) : ustring :=
  match s with
  | EmptyString => []
  | String a t => Ascii.N_of_ascii a :: ustring_of_string t
  end.

Definition show_ty (p : ustring) (ps : list ustring) : string :=
  string_of_ustring p ++
  match ps with
  | [] => ""
  | _ => "<" ++ String.concat "," (map string_of_ustring ps) ++ ">"
  end.

Definition show_decision (d : decision ustring) : string :=
  match d with
  | Use p ps => "use " ++ show_ty p ps
  | Generate => "generate"
  end.

Definition show_def (d : def_outcome ustring) : string :=
  match d with
  | DefNative p ps => "native " ++ show_ty p ps
  | DefNewtype p ps => "newtype " ++ show_ty p ps
  | DefStructural => "structural"
  end.

(* inputs as Coq strings (ASCII test data) *)
Definition mk_ext (crate path : string) (params : list (option string)) : extension ustring :=
  X (ustring_of_string crate) (ustring_of_string path)
    (map (option_map ustring_of_string) params).

Definition mk_crates (l : list (string * crate_vers * option string)) : crates :=
  map (fun '(n, v, r) => (ustring_of_string n, CS v (option_map ustring_of_string r))) l.

(* `tp` = verdict of the real syn parser on this case's path *)
Definition run_decide (tp : bool) (cs : list (string * crate_vers * option string)) (pol : unknown_policy)
           (defname : option string) (x : ext_parse ustring) : string :=
  show_decision (decide (fun _ => tp) (mk_crates cs) pol x) ++ " / " ++
  show_def (convert_ref_def (fun _ => tp) (mk_crates cs) pol
              (match defname with Some n => NRequired (ustring_of_string n) | None => NUnknown end) x).
