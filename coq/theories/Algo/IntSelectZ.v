(* Integer-level model of convert_integer: what IntSelect.choose_integer
   computes when every bound is a `safe` double (Spec/IntSpec.v).  The float
   operations are replaced by their exact integer meaning:
     x + 1.0  is z+1 for -2^53 <= z < 2^53 and z otherwise (round to nearest even),
     x - 1.0  is z-1 for -2^53 < z <= 2^53 and z otherwise,
     (a - b).abs() <= EPSILON  is a = b.
   Proofs/IntSelectRefine.v proves the refinement (C10_refine); the property
   theorems are proved on this model with lia (Proofs/IntSelectProofs.v). *)
From Coq Require Import String ZArith List Bool.
From Flocq Require Import Core BinarySingleNaN Binary Bits.
From Typify Require Import Gen.IntTable Algo.IntSelect.
Import ListNotations.
Open Scope string_scope.
Open Scope Z_scope.

(* exact integer value of a finite, integral double *)
Definition Zof (x : f64) : option Z :=
  match x with
  | B754_zero _ _ _ => Some 0
  | B754_finite _ _ s m e _ =>
      if 0 <=? e then Some (cond_Zopp s (Zpos m * 2 ^ e))
      else if (Zpos m) mod (2 ^ (- e)) =? 0 then Some (cond_Zopp s (Zpos m / 2 ^ (- e)))
      else None
  | _ => None
  end.

Record zrow := { z_fmt : string; z_ty : string; z_nz : string; z_lo : Z; z_hi : Z }.

Definition zrow_of (r : row) : option zrow :=
  match Zof (r_min r), Zof (r_max r) with
  | Some a, Some b => Some {| z_fmt := r_fmt r; z_ty := r_ty r; z_nz := r_nz r; z_lo := a; z_hi := b |}
  | _, _ => None
  end.

Fixpoint all_some {A} (l : list (option A)) : option (list A) :=
  match l with
  | [] => Some []
  | Some x :: tl => option_map (cons x) (all_some tl)
  | None :: _ => None
  end.

Definition int_formats_Z : list zrow :=
  match all_some (map zrow_of int_formats) with Some l => l | None => [] end.

Record zbounds := {
  zb_min : option Z; zb_max : option Z; zb_emin : option Z; zb_emax : option Z;
  zb_mult : bool   (* multipleOf present *)
}.
Definition zdflt := option (option Z).

Definition add1 (z : Z) : Z := if (- 2^53 <=? z) && (z <? 2^53) then z + 1 else z.
Definition sub1 (z : Z) : Z := if (- 2^53 <? z) && (z <=? 2^53) then z - 1 else z.

Definition znorm_min (b : zbounds) : option Z :=
  match zb_min b, zb_emin b with
  | None, None => None
  | None, Some v => Some (add1 v)
  | Some v, None => Some v
  | Some m, Some e => Some (Z.max m (add1 e))
  end.

Definition znorm_max (b : zbounds) : option Z :=
  match zb_max b, zb_emax b with
  | None, None => None
  | None, Some v => Some (sub1 v)
  | Some v, None => Some v
  | Some m, Some e => Some (Z.min m (sub1 e))
  end.

Definition zis_one (m : option Z) : bool := match m with Some v => v =? 1 | None => false end.

Definition zfit_type (min max : option Z) : option string :=
  match min, max with
  | None, Some mx =>
      find_map (fun r => if (z_hi r =? mx) && (z_lo r <=? - 2^63) then Some (z_ty r) else None)
               (rev int_formats_Z)
  | Some mn, None =>
      find_map (fun r => if mn =? 1 then Some (z_nz r)
                         else if (z_lo r =? mn) && (z_hi r >=? 2^63) then Some (z_ty r) else None)
               (rev int_formats_Z)
  | Some mn, Some mx =>
      find_map (fun r => if mn =? 1 then Some (z_nz r)
                         else if (z_hi r =? mx) && (z_lo r =? mn) then Some (z_ty r) else None)
               (rev int_formats_Z)
  | None, None => None
  end.

Definition zdefault_in (d : zdflt) (min max : option Z) : bool :=
  match d with
  | None => true
  | Some None => false
  | Some (Some v) =>
      match min, max with
      | None, None => true
      | None, Some mx => v <=? mx
      | Some mn, None => v >=? mn
      | Some mn, Some mx => (v >=? mn) && (v <=? mx)
      end
  end.

(* the part of convert_integer after the format block (default test, fit
   search, fallbacks); IntSelect.choose_integer has it as the local `general` *)
Definition zgeneral (format : option string) (d : zdflt) (min max : option Z) : outcome :=
  if zdefault_in d min max then
    match zfit_type min max with
    | Some ty => Chosen ty
    | None => if match format with Some f => String.eqb f "uint64" | None => false end
              then (* values of this format may exceed i64::MAX; none is negative *)
                   match d with
                   | Some (Some v) => if v <? 0 then ErrInvalidValue else Chosen "u64"
                   | _ => Chosen "u64"
                   end
              else Chosen "i64"
    end
  else ErrInvalidValue.

Definition choose_integer_Z (format : option string) (b : zbounds) (d : zdflt) : outcome :=
  let min := znorm_min b in
  let max := znorm_max b in
  let frow := match format with
              | Some f => find (fun r => String.eqb (z_fmt r) f) int_formats_Z
              | None => None
              end in
  match frow with
  | Some r =>
      let valid_min := match min with None => true | Some m => m >=? z_lo r end in
      let valid_max := match max with None => true | Some m => m <=? z_hi r end in
      if negb (zb_mult b) && valid_min && valid_max then
        let bad_default := match d with
                           | Some (Some v) =>
                               (v <? z_lo r) || (v >? z_hi r)
                               || match min with Some m => v <? m | None => false end
                               || match max with Some m => v >? m | None => false end
                           | _ => false
                           end in
        if bad_default then ErrInvalidValue
        else if zis_one min then Chosen (z_nz r) else Chosen (z_ty r)
      else
        zgeneral format d (match min with None => Some (z_lo r) | _ => min end)
                          (match max with None => Some (z_hi r) | _ => max end)
  | None => zgeneral format d min max
  end.

(* ---- from the doubles of IntSelect to the integers of this model ---- *)
Definition Zof0 (x : f64) : Z := match Zof x with Some z => z | None => 0 end.

Definition zb_of (b : bounds) : zbounds :=
  {| zb_min := option_map Zof0 (b_min b); zb_max := option_map Zof0 (b_max b);
     zb_emin := option_map Zof0 (b_emin b); zb_emax := option_map Zof0 (b_emax b);
     zb_mult := match b_mult b with Some _ => true | None => false end |}.

Definition zd_of (d : dflt) : zdflt := option_map (option_map Zof0) d.

(* computable forms of Spec.IntSpec.safeZ / safe_bounds / safe_default, used by
   the correspondence run of py/props/c10.py (IntSelectProofs proves them
   equivalent to the Prop forms) *)
Definition safeZb (z : Z) : bool :=
  (Z.abs z <=? 2^53) || (z =? - 2^63) || (z =? 2^63) || (z =? 2^64).
Definition safeb (x : f64) : bool :=
  match Zof x with Some z => safeZb z | None => false end.
Definition osafeb (o : option f64) : bool := match o with Some x => safeb x | None => true end.
Definition safe_boundsb (b : bounds) : bool :=
  osafeb (b_min b) && osafeb (b_max b) && osafeb (b_emin b) && osafeb (b_emax b).
Definition safe_defaultb (d : dflt) : bool :=
  match d with
  | Some (Some v) => match Zof v with Some _ => true | None => false end
  | _ => true
  end.

(* both models on one lattice point, for the correspondence run:
   "<outcome of choose_integer>|<tie>" where <tie> is "unsafe" outside the domain
   of the refinement theorem, "same" when choose_integer_Z agrees, "DIFF:<its
   outcome>" otherwise *)
Definition run_tie (f : option string) (mn mx emn emx mu : option Z) (d : option (option Z)) : string :=
  let b := mkb mn mx emn emx mu in
  let dd := mkd d in
  let o1 := show_outcome (choose_integer f b dd) in
  o1 ++ "|" ++
  (if safe_boundsb b && safe_defaultb dd then
     let o2 := show_outcome (choose_integer_Z f (zb_of b) (zd_of dd)) in
     if String.eqb o1 o2 then "same" else "DIFF:" ++ o2
   else "unsafe").
