(* Algo/Emit.v - the derive / visibility / impl surface typify emits for one
   named entry of the type space (definitions ONLY; proofs in Proofs/EmitProofs.v).

   Mirrors typify-impl/src/type_entry.rs:
     TypeEntry::output           (base derive_set, dispatch by kind)
     output_enum                 (extension for all-simple-variant enums)
     output_struct               (derive_set untouched; `pub` fields)
     output_newtype              (is_str extension; derive_set.remove per constraint
                                  arm; `vis`; validating Deserialize impl)
     strings_to_derives          (base U settings.extra_derives U entry.extra_derives,
                                  BTreeSet order)
   Every literal (derive names, removed names, which arm removes, `pub` tokens)
   comes from Gen/DeriveTable.v, which the translator `c19 tables` regenerates
   from the Rust source on every run. *)
From Coq Require Import String Ascii NArith List Bool.
From Typify Require Import Base.Json IR.TypeIR Gen.DeriveTable.
Import ListNotations.

Definition u (s : string) : ustring := ustr_of_string s.

(* ---- BTreeSet<&str>: strictly increasing list (byte order = scalar order) ---- *)
Fixpoint set_insert (x : ustring) (l : list ustring) : list ustring :=
  match l with
  | [] => [x]
  | y :: r =>
      if ustr_eqb x y then l
      else if ustr_ltb x y then x :: l
      else y :: set_insert x r
  end.

(* BTreeSet::extend *)
Definition set_extend (s : list ustring) (xs : list ustring) : list ustring :=
  fold_left (fun acc x => set_insert x acc) xs s.

(* BTreeSet::remove *)
Definition set_remove (x : ustring) (s : list ustring) : list ustring :=
  filter (fun y => negb (ustr_eqb x y)) s.

Definition set_remove_all (xs : list ustring) (s : list ustring) : list ustring :=
  fold_left (fun acc x => set_remove x acc) xs s.

Definition subset (a b : list ustring) : bool := forallb (fun x => mem_ustr x b) a.

(* ---- kinds of named entries (the finite case split of output()) ---- *)
Inductive ckind := KNone | KEnumValue | KDenyValue | KString.

Definition ckind_of (c : constraints) : ckind :=
  match c with
  | CNone => KNone
  | CEnum _ => KEnumValue
  | CDeny _ => KDenyValue
  | CString _ _ _ => KString
  end.

(* names as in `TypeEntryNewtypeConstraints::<name>` (keys of the regenerated tables) *)
Definition ckind_name (k : ckind) : string :=
  match k with
  | KNone => "None"
  | KEnumValue => "EnumValue"
  | KDenyValue => "DenyValue"
  | KString => "String"
  end.

Fixpoint lookup_s {A} (k : string) (l : list (string * A)) : option A :=
  match l with
  | [] => None
  | (k', v) :: r => if String.eqb k k' then Some v else lookup_s k r
  end.

Inductive kind :=
| KindEnum (all_simple : bool)
| KindStruct
| KindNewtype (is_str : bool) (c : ckind).

Definition all_kinds : list kind :=
  [ KindEnum true; KindEnum false; KindStruct ] ++
  flat_map (fun s => map (KindNewtype s) [KNone; KEnumValue; KDenyValue; KString]) [true; false].

(* output_enum: variants.iter().all(|variant| matches!(variant.details, VariantDetails::Simple)) *)
Definition all_simple (vs : list variant) : bool :=
  forallb (fun v => match v_det v with VSimple => true | _ => false end) vs.

(* output_newtype: let inner_type = type_space.id_to_entry.get(type_id).unwrap();
                   let is_str = matches!(inner_type.details, TypeEntryDetails::String);
   (a dangling id panics in Rust: see [output_panics]) *)
Definition is_str (T : space) (inner : id) : bool :=
  match get_det T inner with Some DString => true | _ => false end.

(* TypeEntry::output: which arm; `_ => ()` for unnamed types *)
Definition kind_of (T : space) (d : details) : option kind :=
  match d with
  | DEnum _ _ _ vs _ _ => Some (KindEnum (all_simple vs))
  | DStruct _ _ _ _ => Some KindStruct
  | DNewtype _ _ inner c => Some (KindNewtype (is_str T inner) (ckind_of c))
  | _ => None
  end.

(* Rust panics of output_newtype that concern this surface: the unwrap above and
   `assert!(matches!(constraints, DenyValue(_)) || !matches!(inner, String))` in the
   EnumValue | DenyValue arm. *)
Definition output_panics (T : space) (d : details) : bool :=
  match d with
  | DNewtype _ _ inner c =>
      match get_det T inner with
      | None => true
      | Some DString => match c with CEnum _ => true | _ => false end
      | Some _ => false
      end
  | DReference _ => true
  | _ => false
  end.

(* ---- derive set ---- *)
Definition removed_for (c : ckind) : list ustring :=
  match lookup_s (ckind_name c) newtype_removed with
  | Some l => map u l
  | None => []
  end.

Definition base_set : list ustring := set_extend [] (map u base_derives).

(* derive_set as it reaches strings_to_derives, per kind *)
Definition builtin_for (k : kind) : list ustring :=
  match k with
  | KindEnum true => set_extend base_set (map u simple_enum_derives)
  | KindEnum false => base_set
  | KindStruct => base_set
  | KindNewtype s c =>
      set_remove_all (removed_for c)
        (if s then set_extend base_set (map u string_newtype_derives) else base_set)
  end.

(* strings_to_derives(derive_set, type_derives, extra_derives):
     combined = derive_set.clone(); combined.extend(extra_derives); combined.extend(type_derives) *)
Definition strings_to_derives (derive_set type_derives extra_derives : list ustring) : list ustring :=
  set_extend (set_extend derive_set extra_derives) type_derives.

Definition builtin_derives (T : space) (e : entry) : list ustring :=
  match kind_of T (e_det e) with
  | Some k => builtin_for k
  | None => []
  end.

(* the #[derive(..)] list of the item emitted for entry e, in order *)
Definition derives_of (T : space) (e : entry) : list ustring :=
  match kind_of T (e_det e) with
  | Some k => strings_to_derives (builtin_for k) (e_derives e) (s_derives (sp_settings T))
  | None => []
  end.

(* ---- visibility ---- *)
Inductive vis := Pub | Private.
Definition vis_of_bool (b : bool) : vis := if b then Pub else Private.

Definition lookup_b (k : string) (l : list (string * bool)) : bool :=
  match lookup_s k l with Some b => b | None => false end.

(* `pub enum #type_name` / `pub struct #type_name {..}` / `pub struct #type_name(..);` *)
Definition item_vis (d : details) : option vis :=
  match d with
  | DEnum _ _ _ _ _ _ => Some (vis_of_bool enum_item_pub)
  | DStruct _ _ _ _ => Some (vis_of_bool struct_item_pub)
  | DNewtype _ _ _ _ => Some (vis_of_bool newtype_item_pub)
  | _ => None
  end.

(* struct: `pub #prop_name: #prop_type` for each property;
   newtype: `#vis #inner_type_name` with vis = match constraints { None => pub, _ => (nothing) } *)
Definition field_vis (d : details) : list vis :=
  match d with
  | DStruct _ _ props _ => map (fun _ => vis_of_bool struct_field_pub) props
  | DNewtype _ _ _ c => [vis_of_bool (lookup_b (ckind_name (ckind_of c)) newtype_field_pub)]
  | _ => []
  end.

(* ---- emitted impls that belong to the promised surface ---- *)
(* `impl<'de> ::serde::Deserialize<'de> for #type_name` in the constraint arm *)
Definition validating_for (k : kind) : bool :=
  match k with
  | KindNewtype _ c => lookup_b (ckind_name c) newtype_deserialize_impl
  | _ => false
  end.

Definition emits_validating_deserialize (d : details) : bool :=
  match d with
  | DNewtype _ _ _ c => lookup_b (ckind_name (ckind_of c)) newtype_deserialize_impl
  | _ => false
  end.

(* enum: `impl From<&Self> for T`; struct, newtype: `impl From<&T> for T` *)
Definition from_ref_for (k : kind) : bool :=
  match k with
  | KindEnum _ => enum_from_ref
  | KindStruct => struct_from_ref
  | KindNewtype _ _ => newtype_from_ref
  end.

Definition emits_from_ref_self (d : details) : bool :=
  match d with
  | DEnum _ _ _ _ _ _ => enum_from_ref
  | DStruct _ _ _ _ => struct_from_ref
  | DNewtype _ _ _ _ => newtype_from_ref
  | _ => false
  end.

(* ---- the impl headers every item of a kind carries, whatever its inner type ----
   (trait, self type) with $T = the item's name and $I = the inner type as rendered.
   enum: 1061 (`From<&Self>`); struct: 1184; newtype: Deref / From<T> for I / From<&T> (1639-1656),
   then per constraint arm: None 1436 (+ FromStr for a String inner, 1361-1373);
   DenyValue | EnumValue 1475-1508 (TryFrom<I>, Deserialize); String 1551-1605 (FromStr, the three
   TryFrom, Deserialize).  Impls that depend on the inner type's has_impl, on defaults or on
   bespoke flags are not listed (C17's business). *)
Definition expected_impls (k : kind) : list (string * string) :=
  match k with
  | KindEnum _ => [("::std::convert::From<&Self>", "$T")]
  | KindStruct => [("::std::convert::From<&$T>", "$T")]
  | KindNewtype s c =>
      app [("::std::ops::Deref", "$T"); ("::std::convert::From<$T>", "$I"); ("::std::convert::From<&$T>", "$T")]
      match c with
      | KNone => ("::std::convert::From<$I>", "$T") :: (if s then [("::std::str::FromStr", "$T")] else [])
      | KEnumValue | KDenyValue =>
          [("::std::convert::TryFrom<$I>", "$T"); ("::serde::Deserialize<'de>", "$T")]
      | KString =>
          [("::std::str::FromStr", "$T"); ("::std::convert::TryFrom<&str>", "$T");
           ("::std::convert::TryFrom<&::std::string::String>", "$T");
           ("::std::convert::TryFrom<::std::string::String>", "$T"); ("::serde::Deserialize<'de>", "$T")]
      end
  end%string.

Definition has_header (h : string) (k : kind) : bool :=
  existsb (fun p => String.eqb (fst p) h) (expected_impls k).

(* ---- when is #[derive(X)] satisfiable (rustc's rule: every field type: X,
        and X's supertraits implemented for the type itself) ---- *)
Definition always_derivable_names : list string :=
  ["Debug"; "Clone"; "::serde::Serialize"; "::serde::Deserialize"].

(* traits every type typify can mention implements (std / serde / chrono / uuid /
   serde_json types, generated types by C19_surface_base; replacement types are the
   user's responsibility) - EXCEPT over-long arrays / tuples, see [gap_inside] *)
Definition always_derivable (x : ustring) : bool := mem_ustr x (map u always_derivable_names).

Inductive strait := SCopy | SPartialEq | SEq | SPartialOrd | SOrd | SHash.

Definition strait_name (s : strait) : string :=
  match s with
  | SCopy => "Copy" | SPartialEq => "PartialEq" | SEq => "Eq"
  | SPartialOrd => "PartialOrd" | SOrd => "Ord" | SHash => "Hash"
  end.

Definition all_straits : list strait := [SCopy; SPartialEq; SEq; SPartialOrd; SOrd; SHash].

Definition strait_of (x : ustring) : option strait :=
  find (fun s => ustr_eqb x (u (strait_name s))) all_straits.

(* supertraits a derive needs on the type itself (std: Copy: Clone, Eq: PartialEq,
   PartialOrd: PartialEq, Ord: Eq + PartialOrd) *)
Definition supertraits (x : ustring) : list ustring :=
  match strait_of x with
  | Some SCopy => [u "Clone"]
  | Some SEq => [u "PartialEq"]
  | Some SPartialOrd => [u "PartialEq"]
  | Some SOrd => [u "Eq"; u "PartialOrd"]
  | _ => []
  end.

(* small table for the native types typify itself selects (convert_string formats);
   anything else: unknown, so not claimed *)
Definition native_all : list string :=
  [ "::uuid::Uuid"; "::chrono::naive::NaiveDate"; "::chrono::DateTime<::chrono::offset::Utc>";
    "::std::net::IpAddr"; "::std::net::Ipv4Addr"; "::std::net::Ipv6Addr" ].

Definition native_has (s : strait) (name : ustring) : bool := mem_ustr name (map u native_all).

Definition float_has (s : strait) : bool :=
  match s with SCopy | SPartialEq | SPartialOrd => true | _ => false end.

Definition heap_has (s : strait) : bool :=   (* String, Vec<T>, Box<T> given T *)
  match s with SCopy => false | _ => true end.

Definition hashcoll_has (s : strait) : bool := (* HashMap / IndexMap *)
  match s with SPartialEq | SEq => true | _ => false end.

(* does the type with id i (as a FIELD type) implement s?  Named types: exactly
   when their own derive list says so (what rustc looks at); anonymous types:
   std's impls.  Under-approximates for maps (a BTreeMap map_type has more). *)
Fixpoint has_trait (s : strait) (T : space) (fuel : nat) (i : id) : bool :=
  match fuel with
  | O => false
  | S f =>
      match get T i with
      | None => false
      | Some e =>
          match e_det e with
          | DEnum _ _ _ _ _ _ | DStruct _ _ _ _ | DNewtype _ _ _ _ =>
              mem_ustr (u (strait_name s)) (derives_of T e)
          | DNative n _ _ => native_has s n
          | DOption t => has_trait s T f t
          | DBox t => heap_has s && has_trait s T f t
          | DVec t => heap_has s && has_trait s T f t
          | DMap k v => hashcoll_has s && has_trait SEq T f k && has_trait SHash T f k && has_trait s T f v
          | DSet t => heap_has s && has_trait s T f t   (* type_ident renders Set(t) as Vec<t> *)
          | DArray t _ => has_trait s T f t
          | DTuple ts => (Nat.leb (length ts) 12) && forallb (has_trait s T f) ts
          | DUnit | DBoolean | DInteger _ => true
          | DFloat _ => float_has s
          | DString => heap_has s
          | DJsonValue => match s with SPartialEq | SEq => true | _ => false end
          | DReference _ => false
          end
      end
  end.

(* a float reachable from the type with id i without crossing a named type *)
Fixpoint float_inside (T : space) (fuel : nat) (i : id) : bool :=
  match fuel with
  | O => false
  | S f =>
      match get_det T i with
      | Some (DFloat _) => true
      | Some (DOption t) | Some (DBox t) | Some (DVec t) | Some (DSet t) | Some (DArray t _) =>
          float_inside T f t
      | Some (DMap k v) => float_inside T f k || float_inside T f v
      | Some (DTuple ts) => existsb (float_inside T f) ts
      | _ => false
      end
  end.

(* Aggregates without the impls a derive needs (std / serde implement traits for tuples and
   arrays only up to a size): serde's Serialize / Deserialize stop at arrays of 32 and tuples of 16;
   std's Debug / Clone / PartialEq .. stop at tuples of 12 (arrays are const-generic there).
   [gap_inside serde T fuel i]: such an aggregate is reachable from the field type i without
   crossing a named type. *)
Definition is_serde_trait (x : ustring) : bool :=
  mem_ustr x [u "::serde::Serialize"; u "::serde::Deserialize"].

Fixpoint gap_inside (serde : bool) (T : space) (fuel : nat) (i : id) : bool :=
  match fuel with
  | O => false
  | S f =>
      match get_det T i with
      | Some (DArray t n) => (serde && N.ltb 32 n) || gap_inside serde T f t
      | Some (DTuple ts) =>
          Nat.ltb (if serde then 16 else 12) (length ts) || existsb (gap_inside serde T f) ts
      | Some (DOption t) | Some (DBox t) | Some (DVec t) | Some (DSet t) => gap_inside serde T f t
      | Some (DMap k v) => gap_inside serde T f k || gap_inside serde T f v
      | _ => false
      end
  end.

(* by-value field types of the emitted item *)
Definition contents (d : details) : list id :=
  match d with
  | DEnum _ _ _ vs _ _ =>
      flat_map (fun v => match v_det v with
                         | VSimple => []
                         | VItem t => [t]
                         | VTuple ts => ts
                         | VStruct ps => map p_ty ps
                         end) vs
  | DStruct _ _ ps _ => map p_ty ps
  | DNewtype _ _ t _ => [t]
  | _ => []
  end.

Definition derivable_entry (x : ustring) (T : space) (fuel : nat) (e : entry) : bool :=
  match kind_of T (e_det e) with
  | None => false
  | Some _ =>
      subset (supertraits x) (derives_of T e) &&
      (if always_derivable x
       then forallb (fun i => negb (gap_inside (is_serde_trait x) T fuel i)) (contents (e_det e))
       else match strait_of x with
            | Some s => forallb (has_trait s T fuel) (contents (e_det e))
            | None => false
            end)
  end.

Definition derivable (x : ustring) (T : space) (fuel : nat) (i : id) : bool :=
  match get T i with
  | Some e => derivable_entry x T fuel e
  | None => false
  end.

(* whole-module prediction: every derive of every named entry is satisfiable *)
Definition underivable_of (T : space) (fuel : nat) (e : entry) : list ustring :=
  filter (fun x => negb (derivable_entry x T fuel e)) (derives_of T e).

(* ---- printing for the correspondence (K4) ---- *)
Open Scope string_scope.

Definition show_vis (v : vis) : string := match v with Pub => "pub" | Private => "private" end.
Definition show_bool (b : bool) : string := if b then "true" else "false".

Fixpoint join (sep : string) (l : list string) : string :=
  match l with
  | [] => ""
  | [x] => x
  | x :: r => x ++ sep ++ join sep r
  end.

Definition show_entry (T : space) (fuel : nat) (e : entry) : string :=
  match det_name (e_det e) with
  | None => ""
  | Some n =>
      "{""name"":" ++ show_ustr n ++
      ",""kind"":""" ++ (match e_det e with DEnum _ _ _ _ _ _ => "enum" | DStruct _ _ _ _ => "struct" | _ => "newtype" end) ++
      """,""vis"":""" ++ (match item_vis (e_det e) with Some v => show_vis v | None => "none" end) ++
      """,""derives"":[" ++ join "," (map show_ustr (derives_of T e)) ++
      "],""fields"":[" ++ join "," (map (fun v => """" ++ show_vis v ++ """") (field_vis (e_det e))) ++
      "],""de_impl"":" ++ show_bool (emits_validating_deserialize (e_det e)) ++
      ",""from_ref"":" ++ show_bool (emits_from_ref_self (e_det e)) ++
      ",""panics"":" ++ show_bool (output_panics T (e_det e)) ++
      ",""impls"":[" ++ join "," (map (fun p => "[""" ++ fst p ++ """,""" ++ snd p ++ """]")
                                     (match kind_of T (e_det e) with Some k => expected_impls k | None => [] end)) ++
      "]" ++
      ",""underivable"":[" ++ join "," (map show_ustr (underivable_of T fuel e)) ++
      "]}"
  end.

Definition named_entries (T : space) : list entry :=
  filter (fun e => match det_name (e_det e) with Some _ => true | None => false end)
         (map snd (sp_entries T)).

(* one JSON array per slice of a module's named entries (in id order); slices keep
   the printed string short *)
Definition show_slice (T : space) (skip take : nat) : string :=
  "[" ++ join "," (map (show_entry T (S (length (sp_entries T))))
                       (firstn take (skipn skip (named_entries T)))) ++ "]".

Definition show_module (T : space) : string := show_slice T 0 (length (sp_entries T)).
