(* Algo/ConvertRoot.v - the converter model on a document with a TITLED ROOT schema (RefKey::Root).

   MODEL + K3 ONLY.  The theorems of Props/C02F.v, C03F.v, C05F.v, C14F.v are about documents read as
   `definitions` (convert_doc); nothing is proved about convert_root.  What is established is exact-term
   equality with the real converter on generated documents (py/convert_check.py --root), so the file
   documents the behaviour and pins it down for a later generalisation of the proofs (which would have to
   generalise the resolver `ref_id D` to `root_rid D` in every Proofs/Convert*.v).  Definitions only. *)
From Coq Require Import String Ascii ZArith NArith QArith List Bool.
From Typify Require Import Base.Json Spec.Schema Spec.Valid IR.TypeIR.
From Typify Require Algo.Heck Algo.Sanitize.
From Typify Require Import Algo.Convert.
Import ListNotations.
Close Scope Q_scope.
Close Scope string_scope.
Open Scope list_scope.
Open Scope N_scope.

(* ------------------------------------------------------------------ a titled root schema (RefKey::Root)
   lib.rs:832-862 add_root_schema: a root schema WITH a title is converted as one more definition, AFTER
   the definitions (whatever its title sorts like), under the name Name::Required(title) (fix 2b82c72);
   `"$ref": "#"` (root_key in the AST) resolves to its id.  With a Required name the title in the root's
   own metadata plays no role (util.rs:792) EXCEPT under a nullable root, whose inner type is named by the
   title (get_type_name with a Suggested name) - left out ([root_ok]).  MODEL + K3 ONLY: the theorems of
   Props/C0xF.v are about documents without a titled root. *)
Definition root_rid (D : defs) (r : ustring) : option id :=
  match ref_id D r with
  | Some i => Some i
  | None => if ustr_eqb r root_key then Some (1 + N.of_nat (length D)) else None
  end.

Definition untitled (s : schema) : schema :=
  match s with
  | SObj ty fmt enum cst nv sv ik items ai mni mxi uq props req ap mnp mxp allo anyo oneo no ref dflt _ =>
      SObj ty fmt enum cst nv sv ik items ai mni mxi uq props req ap mnp mxp allo anyo oneo no ref dflt None
  | _ => s
  end.

Definition convert_root (cls : Heck.CharClasses) (D : defs) (title : ustring) (root : schema) : option space :=
  let n := N.of_nat (length D) in
  if negb (Sanitize.unique (def_names cls D ++ [Sanitize.sanitize cls title Sanitize.Pascal])) then None else
  match conv_defs cls (root_rid D) D 1 (mkSt (2 + n) [] [] [] (mkFlags false false)) with
  | Some s1 =>
      match conv_def cls (root_rid D) title (untitled root) (1 + n) s1 with
      | Some s2 => Some (space_of s2)
      | None => None
      end
  | None => None
  end.

Definition root_ok (s : schema) : bool :=
  match classify_s (untitled s) with Some (false, _) => true | _ => false end.

(* the fragment with a titled root: the document D ++ [(title, root)] read as definitions (the root last,
   "#" a key for references) is in the fragment, except that the keys need not be sorted at the end *)
Definition in_frag_root (cls : Heck.CharClasses) (D : defs) (title : ustring) (root : schema) : bool :=
  let D' := D ++ [(title, untitled root)] in
  keys_sorted (map fst D)
  && forallb (fun kv => def_key_ok (fst kv)) D
  && root_ok root
  && forallb (fun kv => frag cls (root_key :: map fst D) (snd kv)) D'
  && Sanitize.unique (all_names cls D')
  && forallb (fun kv => no_cycle_from (S (S (length D))) ((root_key, untitled root) :: D) [] (fst kv))
             ((root_key, untitled root) :: D).
