(* Executable model of typify's identifier handling.  Definitions ONLY.

   typify-impl/src/util.rs:740-769   sanitize
   typify-impl/src/util.rs:771-779   recase
   typify-impl/src/util.rs:781-788   unique
   typify-impl/src/type_entry.rs:231-287  variants_unique / TypeEntryEnum::from_metadata
                                          (variant identifiers, X fallback, panic)
   typify-impl/src/structs.rs:158    field identifier = recase(prop_name, Snake)
   typify-impl/src/util.rs:790-799   get_type_name = sanitize(name, Pascal)
   typify-impl/src/lib.rs:650-655    replacement lookup by sanitize(def_name, Pascal)
   typify-impl/src/enums.rs:717, structs/output: serde rename emitted iff Some

   `syn::parse_str::<syn::Ident>` (syn-2.0.100/src/ident.rs accept_as_ident +
   proc-macro2-1.0.94 fallback lexer is_ident_start/is_ident_continue) is
   modelled by `syn_ident_ok` on strings without white space / comments (the
   only strings `sanitize` ever hands to it consist of XID_Continue scalars). *)
From Coq Require Import NArith List Bool String Ascii.
From Typify Require Import Algo.Heck.
Import ListNotations.
Open Scope N_scope.

(* ASCII text -> ustring (for constants only) *)
Definition ustr (s : string) : ustring :=
  List.map (fun a => N_of_ascii a) (list_ascii_of_string s).

Definition c_quote : N := 39.   (* ' *)
Definition c_dash : N := 45.    (* - *)
Definition c_x : N := 120.      (* x *)
Definition c_X : N := 88.       (* X *)

Definition s_async := ustr "async".
Definition s_async_ := ustr "async_".
Definition s_plus1_in := ustr "+1".
Definition s_plus1 := ustr "plus1".
Definition s_minus1_in := ustr "-1".
Definition s_minus1 := ustr "minus1".
Definition s_extra := ustr "extra".

(* syn-2.0.100/src/ident.rs accept_as_ident: the strings that are lexically
   identifiers but rejected by `impl Parse for Ident` *)
Definition syn_rejected : list ustring :=
  List.map ustr
    ["_"; "abstract"; "as"; "async"; "await"; "become"; "box"; "break";
     "const"; "continue"; "crate"; "do"; "dyn"; "else"; "enum";
     "extern"; "false"; "final"; "fn"; "for"; "if"; "impl"; "in";
     "let"; "loop"; "macro"; "match"; "mod"; "move"; "mut";
     "override"; "priv"; "pub"; "ref"; "return"; "Self"; "self";
     "static"; "struct"; "super"; "trait"; "true"; "try"; "type";
     "typeof"; "unsafe"; "unsized"; "use"; "virtual"; "where";
     "while"; "yield"]%string.

Inductive case := Pascal | Snake.

Inductive outcome (A : Type) := Ok (a : A) | Err | Panic.
Arguments Ok {A} a.
Arguments Err {A}.
Arguments Panic {A}.

Definition umem (x : ustring) (l : list ustring) : bool := existsb (ustring_eqb x) l.

Section Sanitize.
  Variable cls : CharClasses.

  (* proc-macro2 fallback: first is_ident_start (= '_' or XID_Start), rest
     is_ident_continue (= XID_Continue); non-empty *)
  Definition lexical_ident (s : ustring) : bool :=
    match s with
    | [] => false
    | c :: r => (xid_start cls c || (c =? c_underscore)) && forallb (xid_continue cls) r
    end.

  (* syn::parse_str::<syn::Ident>(s).is_ok() *)
  Definition syn_ident_ok (s : ustring) : bool :=
    lexical_ident s && negb (umem s syn_rejected).

  Definition to_case (c : case) : ustring -> ustring :=
    match c with
    | Pascal => to_pascal_case cls
    | Snake => to_snake_case cls
    end.

  (* input.replace("'", "").replace(|c| !is_xid_continue(c), "-") *)
  Definition pre_clean (s : ustring) : ustring :=
    List.map (fun ch => if xid_continue cls ch then ch else c_dash)
             (filter (fun ch => negb (ch =? c_quote)) s).

  (* util.rs:740-769 *)
  Definition sanitize_core (input : ustring) (c : case) : ustring :=
    if ustring_eqb input s_async then s_async_
    else if ustring_eqb input s_plus1_in then s_plus1
    else if ustring_eqb input s_minus1_in then s_minus1
    else to_case c (pre_clean input).

  Definition add_prefix (c : case) (out : ustring) : ustring :=
    let prefix := to_case c [c_x] in
    match out with
    | [] => prefix
    | ch :: _ => if xid_start cls ch then out else prefix ++ out
    end.

  Definition sanitize (input : ustring) (c : case) : ustring :=
    let out := add_prefix c (sanitize_core input c) in
    if syn_ident_ok out then out else out ++ [c_underscore].

  (* util.rs:771-779 *)
  Definition recase (input : ustring) (c : case) : ustring * option ustring :=
    let new := sanitize input c in
    (new, if ustring_eqb new input then None else Some input).

  (* The JSON name a field/variant `ident` with `#[serde(rename = r)]` (when
     Some r) or without attribute (None) is bound to by serde_derive. *)
  Definition wire_name (p : ustring * option ustring) : ustring :=
    match snd p with
    | Some r => r
    | None => fst p
    end.

  (* util.rs:781-788: HashSet insertion, all() stops at the first duplicate *)
  Fixpoint unique_aux (seen : list ustring) (l : list ustring) : bool :=
    match l with
    | [] => true
    | x :: r => if umem x seen then false else unique_aux (x :: seen) r
    end.
  Definition unique (l : list ustring) : bool := unique_aux [] l.

  (* raw_name.replace(|c| c == '_' || !is_xid_continue(c), "X") *)
  Definition x_clean (s : ustring) : ustring :=
    List.map (fun ch => if (ch =? c_underscore) || negb (xid_continue cls ch) then c_X else ch) s.

  (* type_entry.rs:251-287 *)
  Definition variant_idents (raws : list ustring) : outcome (list ustring) :=
    let v1 := List.map (fun r => sanitize r Pascal) raws in
    if unique v1 then Ok v1
    else
      let v2 := List.map (fun r => sanitize (x_clean r) Pascal) raws in
      if unique v2 then Ok v2 else Panic.

  (* enums.rs:717: rename emitted iff raw_name != ident_name *)
  Definition variant_rename (raw ident : ustring) : option ustring :=
    if ustring_eqb raw ident then None else Some raw.

  Definition variants (raws : list ustring) : outcome (list (ustring * option ustring)) :=
    match variant_idents raws with
    | Ok ids => Ok (List.map (fun p => (snd p, variant_rename (fst p) (snd p))) (combine raws ids))
    | Err => Err
    | Panic => Panic
    end.

  (* structs.rs:158: one field per property *)
  Definition field_idents (props : list ustring) : list (ustring * option ustring) :=
    List.map (fun p => recase p Snake) props.

  (* structs.rs:19-146 struct_members: the field names of the generated
     struct, in declaration order up to the (stable) sort by identifier; when
     additionalProperties is a schema other than true/false a flattened map
     field named "extra" is pushed (structs.rs:97-113) *)
  Definition struct_field_names (props : list ustring) (typed_additional : bool) : list ustring :=
    List.map fst (field_idents props) ++ (if typed_additional then [s_extra] else []).

  (* structs.rs:119-144 (fix 5896b59): Err(InvalidSchema "multiple properties
     map to the same field name") unless the final names are unique.
     Result: (renamed property fields, flattened fields). *)
  Definition struct_members (props : list ustring) (typed_additional : bool)
    : outcome (list (ustring * option ustring) * list ustring) :=
    if unique (struct_field_names props typed_additional)
    then Ok (field_idents props, if typed_additional then [s_extra] else [])
    else Err.

  (* util.rs:798 get_type_name for Name::Required(def): the type name of a definition *)
  Definition def_idents (defs : list ustring) : list ustring :=
    List.map (fun d => sanitize d Pascal) defs.

  (* lib.rs add_ref_types_impl (fix c22ef06): the definitions of ONE call are
     converted in order; `batch_names.insert` reports Err(InvalidSchema "... map
     to the same type name") at the first type name seen twice *)
  Definition add_definitions (defs : list ustring) : outcome (list ustring) :=
    if unique (def_idents defs) then Ok (def_idents defs) else Err.

  (* lib.rs:650-655: settings.replace.get(&sanitize(def_name, Pascal)) *)
  Fixpoint assoc {T} (k : ustring) (m : list (ustring * T)) : option T :=
    match m with
    | [] => None
    | (k', v) :: r => if ustring_eqb k k' then Some v else assoc k r
    end.
  Definition replace_lookup {T} (repl : list (ustring * T)) (def_name : ustring) : option T :=
    assoc (sanitize def_name Pascal) repl.

  (* util.rs:803-814 type_patch: settings.patch.get(type_name).rename, else the name itself
     (the rename is used verbatim, it is not sanitised) *)
  Definition type_patch (patch : list (ustring * ustring)) (n : ustring) : ustring :=
    match assoc n patch with
    | Some r => r
    | None => n
    end.

  (* All definition-level name sources of ONE add_root_schema / add_ref_types call
     (lib.rs add_root_schema: the titled root is pushed LAST as RefKey::Root and named
     from its title: Name::Unknown + metadata title -> sanitize(title, Pascal);
     definitions: Name::Required(key) -> sanitize(key, Pascal); both then through
     type_patch).  `batch_names` (fix c22ef06) compares the names of the CONVERTED
     entries, so the root takes part.  Not modelled: replaced definitions (no item),
     derived names of inline sub-types. *)
  Definition batch_type_names (patch : list (ustring * ustring)) (defs : list ustring)
             (root_title : option ustring) : list ustring :=
    List.map (fun d => type_patch patch (sanitize d Pascal)) defs ++
    match root_title with
    | Some t => [type_patch patch (sanitize t Pascal)]
    | None => []
    end.

  Definition add_batch (patch : list (ustring * ustring)) (defs : list ustring)
             (root_title : option ustring) : outcome (list ustring) :=
    if unique (batch_type_names patch defs root_title)
    then Ok (batch_type_names patch defs root_title) else Err.

  (* Derived name of the inline object schema (without title) of property p of
     definition d: convert.rs convert_object `tmp_type_name = get_type_name(..)`
     = sanitize(d, Pascal); structs.rs:56-62 `format!("{}_{}", base,
     prop_name.to_snake_case())` as Name::Suggested; get_type_name -> sanitize(..,
     Pascal); type_patch. *)
  Definition derived_name (patch : list (ustring * ustring)) (d p : ustring) : ustring :=
    type_patch patch
      (sanitize (sanitize d Pascal ++ [c_underscore] ++ to_snake_case cls p) Pascal).

  (* lib.rs assign_type: a named entry whose name is already in name_to_id reuses
     that id (no new entry), else a new entry is created *)
  Definition add_derived (created : list ustring) (n : ustring) : list ustring :=
    if umem n created then created else created ++ [n].

  (* one definition (key, names of its properties with an inline object schema):
     the inline types are assigned while the definition is converted, then
     convert_ref_type stores the definition's own entry (always a new entry;
     name_to_id is overwritten) *)
  Definition convert_def (patch : list (ustring * ustring)) (created : list ustring)
             (dp : ustring * list ustring) : list ustring :=
    fold_left add_derived (List.map (derived_name patch (fst dp)) (snd dp)) created
    ++ [type_patch patch (sanitize (fst dp) Pascal)].

  (* names of all named entries created by one call on a fresh type space, in
     creation order; the titled root (title, inline object properties) is last *)
  Definition created_names (patch : list (ustring * ustring))
             (defs : list (ustring * list ustring))
             (root : option (ustring * list ustring)) : list ustring :=
    let c := fold_left (convert_def patch) defs [] in
    match root with
    | Some r => convert_def patch c r
    | None => c
    end.

  (* lib.rs add_ref_types_impl with both checks: batch_names (c22ef06, definition
     level) and created_names (40183ea: every named entry created by the call has
     its own name).  A definition-level duplicate is also a duplicate of
     created_names, so the outcome is Err iff created_names has a duplicate.
     Not modelled: field collisions inside the definitions (struct_members),
     inline types other than titleless object properties, nesting deeper than
     one level, replaced definitions, earlier calls (name_to_id not empty). *)
  Definition add_batch_full (patch : list (ustring * ustring))
             (defs : list (ustring * list ustring))
             (root : option (ustring * list ustring)) : outcome (list ustring) :=
    if unique (created_names patch defs root)
    then Ok (created_names patch defs root) else Err.

End Sanitize.

(* ------------------------------------------------------------------ *)
(* Instances for evaluation                                            *)
(* ------------------------------------------------------------------ *)

(* finite table (generated per run from Rust std / unicode-ident by the
   harness): scalar -> (flags, to_uppercase, to_lowercase), flags bit 0
   XID_Start, 1 XID_Continue, 2 alphanumeric, 3 lowercase, 4 uppercase *)
Definition ctable := list (N * (N * list N * list N)).

Fixpoint tlookup (t : ctable) (c : N) : option (N * list N * list N) :=
  match t with
  | [] => None
  | (k, e) :: r => if k =? c then Some e else tlookup r c
  end.

Definition tflag (t : ctable) (bit : N) (c : N) : bool :=
  match tlookup t c with
  | Some (f, _, _) => N.testbit f bit
  | None => false
  end.

Definition table_classes (t : ctable) : CharClasses :=
  {| xid_start := tflag t 0;
     xid_continue := tflag t 1;
     is_alnum := tflag t 2;
     is_lower := tflag t 3;
     is_upper := tflag t 4;
     to_upper := fun c => match tlookup t c with Some (_, u, _) => u | None => [c] end;
     to_lower := fun c => match tlookup t c with Some (_, _, l) => l | None => [c] end |}.

(* ASCII-only classification: every non-ASCII scalar is in no class, except
   that U+03C2 (final sigma, which heck can emit) is XID_Continue.  It
   satisfies all class hypotheses (non-vacuity) and agrees with Rust on ASCII. *)
Definition a_lower (c : N) : bool := (97 <=? c) && (c <=? 122).
Definition a_upper (c : N) : bool := (65 <=? c) && (c <=? 90).
Definition a_digit (c : N) : bool := (48 <=? c) && (c <=? 57).
Definition ascii_classes : CharClasses :=
  {| xid_start := fun c => a_lower c || a_upper c;
     xid_continue := fun c => a_lower c || a_upper c || a_digit c || (c =? 95) || (c =? 962);
     is_alnum := fun c => a_lower c || a_upper c || a_digit c;
     is_lower := a_lower;
     is_upper := a_upper;
     to_upper := fun c => if a_lower c then [c - 32] else [c];
     to_lower := fun c => if a_upper c then [c + 32] else [c] |}.

(* ------------------------------------------------------------------ *)
(* Printing (for the correspondence runs)                              *)
(* ------------------------------------------------------------------ *)
From Coq Require Import DecimalString.

Definition show_N (n : N) : string := NilZero.string_of_uint (N.to_uint n).

Fixpoint show_ustring (s : ustring) : string :=
  match s with
  | [] => ""
  | [c] => show_N c
  | c :: r => show_N c ++ " " ++ show_ustring r
  end%string.

Definition show_bool (b : bool) : string := if b then "T" else "F".

Definition show_rename (r : option ustring) : string :=
  match r with
  | None => "-"
  | Some x => ("+" ++ show_ustring x)%string
  end.

Definition case_of (pascal : bool) : case := if pascal then Pascal else Snake.

(* "<ident>|<rename>|<syn_ident_ok input>" *)
Definition run_sanitize (cls : CharClasses) (s : ustring) (pascal : bool) : string :=
  let p := recase cls s (case_of pascal) in
  (show_ustring (fst p) ++ "|" ++ show_rename (snd p) ++ "|" ++ show_bool (syn_ident_ok cls s))%string.

Fixpoint show_list (l : list string) : string :=
  match l with
  | [] => ""
  | [x] => x
  | x :: r => x ++ "," ++ show_list r
  end%string.

Definition run_variants (cls : CharClasses) (raws : list ustring) : string :=
  match variants cls raws with
  | Panic => "panic"
  | Err => "err"
  | Ok vs => ("ok:" ++ show_list (List.map (fun p => show_ustring (fst p) ++ "/" ++ show_rename (snd p)) vs))%string
  end.

Definition run_fields (cls : CharClasses) (props : list ustring) (typed_additional : bool) : string :=
  match struct_members cls props typed_additional with
  | Ok (fs, fl) =>
      show_list (List.map (fun p => show_ustring (fst p) ++ "/" ++ show_rename (snd p))%string fs
                 ++ List.map (fun n => show_ustring n ++ "/flatten")%string fl)
  | Err => "err"
  | Panic => "panic"
  end.

Definition run_defs (cls : CharClasses) (defs : list ustring) : string :=
  match add_definitions cls defs with
  | Ok ids => show_list (List.map show_ustring ids)
  | Err => "err"
  | Panic => "panic"
  end.

Definition run_batch (cls : CharClasses) (patch : list (ustring * ustring)) (defs : list ustring)
           (root_title : option ustring) : string :=
  match add_batch cls patch defs root_title with
  | Ok ids => show_list (List.map show_ustring ids)
  | Err => "err"
  | Panic => "panic"
  end.

Definition run_batch_full (cls : CharClasses) (patch : list (ustring * ustring))
           (defs : list (ustring * list ustring)) (root : option (ustring * list ustring)) : string :=
  match add_batch_full cls patch defs root with
  | Ok ids => show_list (List.map show_ustring ids)
  | Err => "err"
  | Panic => "panic"
  end.
