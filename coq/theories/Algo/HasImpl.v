(* Algo/HasImpl.v — C17: executable model of the introspection facade and of the
   emission conditions it is supposed to describe (definitions ONLY).

   Mirrors (typify-impl/src, pinned tree, hook lines shift type_entry.rs by +5):
     has_impl_d      type_entry.rs:597-700   TypeEntry::has_impl
     prop_default    structs.rs:352-407      generate_serde_attr (DefaultFunction)
     emitted_r       type_entry.rs:732-1074  output_enum   (bespoke impls, default_impl)
                     type_entry.rs:1076-1326 output_struct (Default when `default` set or
                                              every property has a default; builder)
                     type_entry.rs:1328-1662 output_newtype (proxy / constrained impls)
     std_impl        what core/std/serde_json provide for the un-named kinds
     reported_*      lib.rs:1140-1201        variants_info / properties_info / inner
     emitted_*       type_entry.rs:1122-1182, enums.rs:706-800 (fields / variants emitted)
     builder_some    lib.rs:1111-1137        Type::builder
     ident_names     type_entry.rs:1668-1824 type_ident (the named leaves of the path)
     uses_flags_cover  the uses_* flags (lib.rs:834-852) against the IR content

   The two repairs proposed in patches/C17-1.diff and C17-2.diff are switches of
   the model (record `cfg`); `pinned` is the code as it is at the pinned commit.
   The check decides on every run, by observing the real code on the curated
   witnesses, which configuration it has to compare with. *)
From Coq Require Import String Ascii ZArith NArith List Bool.
From Typify Require Import Base.Json IR.TypeIR.
Import ListNotations.
Open Scope N_scope.

Record cfg := mkCfg {
  (* patches/C17-1.diff: output_newtype emits `impl Display` for String-constrained newtypes *)
  fix_display_constrained : bool;
  (* patches/C17-2.diff = /repo 2273521: has_impl(Integer("::std::num::NonZero…"), Default) = false *)
  fix_nonzero_default : bool;
  (* patches/C17-3.diff: the public facade Type::has_impl (lib.rs) answers false for
     (String-constrained newtype, Display); TypeEntry::has_impl, which the emission
     consults, is unchanged, so the output is byte-identical *)
  fix_display_facade : bool }.

Definition pinned : cfg := mkCfg false false false.          (* the pinned commit *)
Definition current : cfg := mkCfg false true false.          (* after fix 2273521 *)
Definition repaired : cfg := mkCfg true true false.          (* 2273521 + C17-1 *)
Definition repaired_facade : cfg := mkCfg false true true.   (* 2273521 + C17-3 *)

(* outcome of a has_impl query: a boolean, unbounded recursion (the Rust stack
   overflows), or a panic (`unwrap()` on a dangling id, `unreachable!()`) *)
Inductive hres := HBool (b : bool) | HDiverge | HPanic.

Definition is_some {A} (o : option A) : bool := match o with Some _ => true | None => false end.
Definition mem_bespoke (b : bespoke) (l : list bespoke) : bool := existsb (bespoke_eqb b) l.
Definition mem_trait (t : trait) (l : list trait) : bool := existsb (trait_eqb t) l.

Fixpoint uprefix (p s : ustring) : bool :=
  match p, s with
  | [], _ => true
  | a :: p', b :: s' => N.eqb a b && uprefix p' s'
  | _ :: _, [] => false
  end.

(* value.rs:11 STD_NUM_NONZERO_PREFIX = "::std::num::NonZero" *)
Definition nonzero_prefix : ustring := ustr_of_string "::std::num::NonZero".
Definition is_nonzero (name : ustring) : bool := uprefix nonzero_prefix name.

(* Iterator::all over has_impl answers: stops at the first `false` *)
Fixpoint all_res (g : id -> hres) (l : list id) : hres :=
  match l with
  | [] => HBool true
  | i :: r => match g i with
              | HBool true => all_res g r
              | other => other
              end
  end.

(* type_entry.rs:597-700: one call frame.  `rec` answers the recursive calls. *)
Definition has_impl_step (c : cfg) (T : space) (rec : details -> trait -> hres)
           (d : details) (t : trait) : hres :=
  let sub (j : id) (t' : trait) : hres :=
    match get_det T j with                         (* id_to_entry.get(..).unwrap() *)
    | None => HPanic
    | Some dj => rec dj t'
    end in
  match d with
  | DEnum _ default _ _ _ bes =>
      match t with
      | TDefault => HBool (is_some default)
      | TFromStr => HBool (mem_bespoke AllSimpleVariants bes || mem_bespoke UntaggedFromStr bes)
      | TDisplay => HBool (mem_bespoke AllSimpleVariants bes || mem_bespoke UntaggedDisplay bes)
      end
  | DStruct _ default _ _ =>
      match t with
      | TDefault => HBool (is_some default)
      | _ => HBool false
      end
  | DNewtype _ default inner cs =>
      match t with
      | TDefault => HBool (is_some default)        (* first arm: (_, Default) *)
      | _ =>
        match cs with
        | CString _ _ _ => HBool true              (* FromStr and Display *)
        | CNone => sub inner t
        | _ => HBool false
        end
      end
  | DNative _ impls _ => HBool (mem_trait t impls)
  | DBox j => if trait_eqb t TDefault then sub j t else HBool false
  | DJsonValue => HBool false
  | DUnit | DOption _ | DVec _ | DMap _ _ | DSet _ => HBool (trait_eqb t TDefault)
  | DTuple ids =>
      if trait_eqb t TDefault && (N.of_nat (length ids) <=? 12)
      then all_res (fun j => sub j TDefault) ids
      else HBool false
  | DArray j n =>
      if (n <=? 32) && trait_eqb t TDefault then sub j t else HBool false
  | DBoolean => HBool true
  | DInteger name =>
      if fix_nonzero_default c && trait_eqb t TDefault && is_nonzero name
      then HBool false else HBool true
  | DFloat _ => HBool true
  | DString => HBool true
  | DReference _ => HPanic                          (* unreachable!() *)
  end.

(* One unit of fuel per Rust call frame; exhaustion = unbounded recursion. *)
Fixpoint has_impl_d (c : cfg) (T : space) (fuel : nat) (d : details) (t : trait) : hres :=
  match fuel with
  | O => HDiverge
  | S f => has_impl_step c T (has_impl_d c T f) d t
  end.

(* TypeEntry::has_impl by id (what the emission code consults) *)
Definition has_impl_r (c : cfg) (T : space) (fuel : nat) (i : id) (t : trait) : hres :=
  match get_det T i with
  | None => HPanic
  | Some d => has_impl_d c T fuel d t
  end.

(* C17-F1: Display asked of a String-constrained newtype *)
Definition known_display_constrained (T : space) (i : id) (t : trait) : bool :=
  match t, get_det T i with
  | TDisplay, Some (DNewtype _ _ _ (CString _ _ _)) => true
  | _, _ => false
  end.

(* Type::has_impl, lib.rs:1102: the facade (patches/C17-3.diff adds the early return) *)
Definition has_impl_api_r (c : cfg) (T : space) (fuel : nat) (i : id) (t : trait) : hres :=
  if fix_display_facade c && known_display_constrained T i t then HBool false
  else has_impl_r c T fuel i t.

(* the boolean the API hands out; false when there is no answer *)
Definition has_impl (c : cfg) (T : space) (fuel : nat) (i : id) (t : trait) : bool :=
  match has_impl_api_r c T fuel i t with HBool b => b | _ => false end.

(* ---------------------------------------------------------------- emission *)

(* structs.rs:352-407: Optional -> DefaultFunction::Default (4 arms),
   Default(v) -> Custom(fn), Required -> None *)
Inductive pdefault := PDNone | PDDefault | PDCustom.
Definition prop_default (p : prop) : pdefault :=
  match p_state p with
  | POptional => PDDefault
  | PDefault _ => PDCustom
  | PRequired => PDNone
  end.
Definition prop_has_default (p : prop) : bool :=
  match prop_default p with PDNone => false | _ => true end.

(* does output_enum / output_struct / output_newtype emit `impl <t> for Name`?
   `fuel` is what the has_impl calls made by output_newtype may use. *)
Definition emitted_r (c : cfg) (T : space) (fuel : nat) (d : details) (t : trait) : hres :=
  match d with
  | DEnum _ default _ _ _ bes =>
      match t with
      | TDefault => HBool (is_some default)                                    (* :868 default_impl *)
      | TFromStr => HBool (mem_bespoke AllSimpleVariants bes                   (* :808 simple_enum_impl *)
                           || mem_bespoke UntaggedFromStr bes)                 (* :879 *)
      | TDisplay => HBool (mem_bespoke AllSimpleVariants bes
                           || mem_bespoke UntaggedDisplay bes)                 (* :934 *)
      end
  | DStruct _ default props _ =>
      match t with
      | TDefault => HBool (is_some default || forallb prop_has_default props)  (* :1193 / :1206 *)
      | _ => HBool false
      end
  | DNewtype _ default inner cs =>
      match get_det T inner with                                               (* :1347 unwrap *)
      | None => HPanic
      | Some di =>
        let is_str := match di with DString => true | _ => false end in
        match t with
        | TDefault => HBool (is_some default)                                  (* :1616 *)
        | TFromStr =>
            match cs with
            | CNone => if is_str then HBool true                               (* :1361 str_impl *)
                       else has_impl_d c T fuel di TFromStr                    (* :1376 *)
            | CEnum _ | CDeny _ => HBool false                                 (* TryFrom<inner> only *)
            | CString _ _ _ => HBool true                                      (* :1551 *)
            end
        | TDisplay =>
            match cs with
            | CNone => has_impl_d c T fuel di TDisplay                         (* :1423 *)
            | CEnum _ | CDeny _ => HBool false
            | CString _ _ _ => HBool (fix_display_constrained c)               (* nothing at the pinned commit *)
            end
        end
      end
  | _ => HBool false
  end.

(* well-formedness the emission needs: output_newtype unwraps the inner entry (:1347) *)
Definition newtype_inner_ok (T : space) : bool :=
  forallb (fun ie => match e_det (snd ie) with
                     | DNewtype _ _ inner _ => is_some (get_det T inner)
                     | _ => true
                     end) (sp_entries T).

Definition is_named (d : details) : bool :=
  match d with
  | DEnum _ _ _ _ _ _ | DStruct _ _ _ _ | DNewtype _ _ _ _ => true
  | _ => false
  end.

(* what core / std / serde_json provide for the un-named kinds; `rec j` is
   "the component j implements the SAME trait".
     bool, i*/u*, f32/f64, String: Default, Display, FromStr
     NonZero*: Display, FromStr, NO Default
     (): Default only;  Option<T>, Vec<T> (also the rendering of Set), maps: Default only
     tuples of <= 12 components: Default iff every component;  [T; 0]: Default;
     [T; n], 1 <= n <= 32: Default iff T
     Box<T>: Default iff T, Display iff T, no FromStr
     serde_json::Value: Default, Display, FromStr
     Native: the impl list recorded with the entry (typify's own for uuid/chrono/std::net,
             the caller's declaration for replacements/conversions) *)
Definition std_impl (rec : id -> bool) (d : details) (t : trait) : bool :=
  match d with
  | DBoolean | DFloat _ | DString | DJsonValue => true
  | DInteger name => match t with TDefault => negb (is_nonzero name) | _ => true end
  | DUnit | DOption _ | DVec _ | DSet _ | DMap _ _ => trait_eqb t TDefault
  | DTuple ids => trait_eqb t TDefault && (N.of_nat (length ids) <=? 12) && forallb rec ids
  | DArray j n => trait_eqb t TDefault && ((n =? 0) || ((n <=? 32) && rec j))
  | DBox j => match t with TFromStr => false | _ => rec j end
  | DNative _ impls _ => mem_trait t impls
  | _ => false
  end.

(* the type with id i implements trait t in the generated module *)
Fixpoint implements (c : cfg) (T : space) (fuel : nat) (i : id) (t : trait) : bool :=
  match fuel with
  | O => false
  | S f =>
    match get_det T i with
    | None => false
    | Some d =>
        if is_named d
        then match emitted_r c T f d t with HBool b => b | _ => false end
        else std_impl (fun j => implements c T f j t) d t
    end
  end.

(* --------------------------------------------------- the two known classes *)

(* C17-F2: Default asked of a NonZero integer, or of a Box / tuple / array (n>=1)
   built from one *)
Fixpoint reaches_nonzero (T : space) (fuel : nat) (i : id) : bool :=
  match fuel with
  | O => false
  | S f =>
    match get_det T i with
    | Some (DInteger name) => is_nonzero name
    | Some (DBox j) => reaches_nonzero T f j
    | Some (DTuple ids) => existsb (reaches_nonzero T f) ids
    | Some (DArray j n) => negb (n =? 0) && reaches_nonzero T f j
    | _ => false
    end
  end.
Definition known_nonzero_default (T : space) (fuel : nat) (i : id) (t : trait) : bool :=
  match t with TDefault => reaches_nonzero T fuel i | _ => false end.

(* ----------------------------------------------------- reported vs emitted *)

(* lib.rs:1183-1193 properties_info: (name, required, type id) *)
Definition reported_props (ps : list prop) : list (ustring * bool * id) :=
  map (fun p => (p_name p, match p_state p with PRequired => true | _ => false end, p_ty p)) ps.

(* type_entry.rs:1122-1182: one `pub name: ty` per property, flattened ones
   included, in order; the bool is "carries #[serde(default…)]" *)
Definition emitted_fields (ps : list prop) : list (ustring * bool * id) :=
  map (fun p => (p_name p, prop_has_default p, p_ty p)) ps.

Inductive rvariant :=
| RSimple
| RTuple (ts : list id)
| RStruct (ps : list (ustring * id)).

(* lib.rs:1147-1170 variants_info *)
Definition reported_variant (v : variant) : ustring * rvariant :=
  (v_ident v,
   match v_det v with
   | VSimple => RSimple
   | VItem t => RTuple [t]
   | VTuple ts => RTuple ts
   | VStruct ps => RStruct (map (fun p => (p_name p, p_ty p)) ps)
   end).

(* enums.rs:706-800 output_variant.  A field type is a type id, or the
   one-component tuple `(T,)` of it *)
Inductive fty := FId (t : id) | FTuple1 (t : id).
Inductive evariant :=
| EUnit
| ETuple (fs : list fty)
| ENamed (ps : list (ustring * id)).

Definition emitted_variant (v : variant) : ustring * evariant :=
  (v_ident v,
   match v_det v with
   | VSimple => EUnit
   | VItem t => ETuple [FId t]
   | VTuple [t] => ETuple [FTuple1 t]                 (* `Name((T,))` enums.rs:756 *)
   | VTuple ts => ETuple (map FId ts)
   | VStruct ps => ENamed (map (fun p => (p_name p, p_ty p)) ps)
   end).

(* what "the reported variant is the emitted variant" means *)
Definition variant_agrees (r : ustring * rvariant) (e : ustring * evariant) : bool :=
  ustr_eqb (fst r) (fst e) &&
  match snd r, snd e with
  | RSimple, EUnit => true
  | RTuple ts, ETuple fs =>
      (N.of_nat (length ts) =? N.of_nat (length fs)) &&
      forallb (fun p => match snd p with FId t => N.eqb (fst p) t | FTuple1 _ => false end) (combine ts fs)
  | RStruct ps, ENamed qs =>
      (N.of_nat (length ps) =? N.of_nat (length qs)) &&
      forallb (fun p => ustr_eqb (fst (fst p)) (fst (snd p)) && N.eqb (snd (fst p)) (snd (snd p))) (combine ps qs)
  | _, _ => false
  end.

(* C17-F4: a tuple variant of exactly one component *)
Definition known_tuple1_variant (v : variant) : bool :=
  match v_det v with VTuple [_] => true | _ => false end.

(* lib.rs:1196-1201 / type_entry.rs:1637 *)
Definition reported_inner (d : details) : option id :=
  match d with DNewtype _ _ inner _ => Some inner | _ => None end.
Definition emitted_newtype_field (d : details) : option id :=
  match d with DNewtype _ _ inner _ => Some inner | _ => None end.

(* lib.rs:1111-1137 *)
Definition builder_some (T : space) (i : id) : bool :=
  if negb (s_builder (sp_settings T)) then false
  else match get_det T i with Some (DStruct _ _ _ _) => true | _ => false end.

(* type_entry.rs:1234-1324: output_struct adds the `builder::Name` item *)
Definition emitted_builder (T : space) (i : id) : bool :=
  match get_det T i with
  | Some (DStruct _ _ _ _) => s_builder (sp_settings T)
  | _ => false
  end.

(* names of the items to_stream() emits at the root (lib.rs:906: every entry
   goes through TypeEntry::output; only the named kinds add an item) *)
Definition emitted_item_names (T : space) : list ustring :=
  flat_map (fun ie => match det_name (e_det (snd ie)) with Some n => [n] | None => [] end) (sp_entries T).

(* type_entry.rs:1668-1824: the named leaves of type_ident (all other leaves
   are `::std…`, `::serde_json…`, primitive or native paths).  None = panic
   (`expect("unresolved type id …")`) or fuel exhausted *)
Fixpoint concat_opts (l : list (option (list ustring))) : option (list ustring) :=
  match l with
  | [] => Some []
  | o :: r => match o, concat_opts r with
              | Some a, Some b => Some (a ++ b)%list
              | _, _ => None
              end
  end.

Fixpoint ident_names (T : space) (fuel : nat) (i : id) : option (list ustring) :=
  match fuel with
  | O => None
  | S f =>
    let many (l : list id) := concat_opts (map (ident_names T f) l) in
    match get_det T i with
    | None => None
    | Some d =>
      match d with
      | DEnum n _ _ _ _ _ | DStruct n _ _ _ | DNewtype n _ _ _ => Some [n]
      | DOption j | DBox j | DVec j | DSet j | DArray j _ => ident_names T f j
      | DMap k v => many [k; v]
      | DTuple ids => many ids
      | DNative _ _ ps => many ps
      | DReference _ => None
      | _ => Some []
      end
    end
  end.

Definition names_resolve (T : space) (fuel : nat) (i : id) : bool :=
  match ident_names T fuel i with
  | None => true                                      (* no ident is reported *)
  | Some ns => forallb (fun n => mem_ustr n (emitted_item_names T)) ns
  end.

(* ------------------------------------------------------------- uses_* flags *)

Definition crate_prefix (s : string) (name : ustring) : bool := uprefix (ustr_of_string s) name.

(* which crates does an entry, by itself, put into the output?
   (chrono, uuid, serde_json, regress) *)
Definition entry_needs (d : details) : bool * bool * bool * bool :=
  match d with
  | DNative name _ _ =>
      (crate_prefix "::chrono::" name, crate_prefix "::uuid::" name, crate_prefix "::serde_json::" name, false)
  | DJsonValue => (false, false, true, false)
  | DNewtype _ _ _ (CString _ _ (Some _)) => (false, false, false, true)
  | _ => (false, false, false, false)
  end.

Definition uses_flags_cover (T : space) : bool :=
  forallb (fun ie =>
    match entry_needs (e_det (snd ie)) with
    | (c, u, j, r) =>
        implb c (sp_uses_chrono T) && implb u (sp_uses_uuid T) &&
        implb j (sp_uses_serde_json T) && implb r (sp_uses_regress T)
    end) (sp_entries T).

(* ------------------------------------------------------------------- show *)
Open Scope string_scope.

Definition show_hres (r : hres) : string :=
  match r with HBool true => "1" | HBool false => "0" | HDiverge => "D" | HPanic => "P" end.
Definition show_bool (b : bool) : string := if b then "1" else "0".
Definition traits3 : list trait := [TFromStr; TDisplay; TDefault].

(* one line per entry:  id|H:fsd|E:fsd|I:fsd|K:12|B:be|N:n   (f=FromStr s=Display d=Default) *)
Definition show_entry (c : cfg) (T : space) (fuel : nat) (ie : id * entry) : string :=
  let i := fst ie in
  let d := e_det (snd ie) in
  show_N i ++ "|H:" ++ String.concat "" (map (fun t => show_hres (has_impl_api_r c T fuel i t)) traits3)
  ++ "|E:" ++ (if is_named d then String.concat "" (map (fun t => show_hres (emitted_r c T fuel d t)) traits3) else "---")
  ++ "|I:" ++ String.concat "" (map (fun t => show_bool (implements c T fuel i t)) traits3)
  ++ "|K:" ++ String.concat "" (map (fun t => show_bool (known_display_constrained T i t)) traits3)
  ++ String.concat "" (map (fun t => show_bool (known_nonzero_default T fuel i t)) traits3)
  ++ "|B:" ++ show_bool (builder_some T i) ++ show_bool (emitted_builder T i)
  ++ "|N:" ++ show_bool (names_resolve T fuel i).

Definition show_space (c : cfg) (T : space) (fuel : nat) : string :=
  String.concat ";" (map (show_entry c T fuel) (sp_entries T)) ++ ";U:" ++ show_bool (uses_flags_cover T)
  ++ ";W:" ++ show_bool (newtype_inner_ok T).
