(* Algo/RustStatic.v - C01: what the module typify emits for a type space needs in order to
   be accepted by rustc 1.80.1 + serde_derive 1.0.219.  Definitions ONLY (proofs in
   Proofs/RustStaticProofs.v, property theorems in Props/C01.v).

   [wf_module cls T] is a decidable judgment over the type space (the IR the `verif_dump` hook
   prints), one conjunct per rejection cause the property names.  It is a MODEL of rustc's
   named rejection causes: rustc's type checker is not formalised; the judgment is validated
   differentially against rustc on every run of `bin/check C01` (channel K6, both polarities:
   `false` on a compiling module = the model is too strict, `true` on a failing module = a
   cause the model lacks).

   What each conjunct mirrors (typify-impl/src, working tree):
     items            lib.rs:906 to_stream / output.rs:22 add_item: one item per Enum / Struct /
                      Newtype ENTRY, concatenated without a uniqueness check          (E0428)
     modnames         lib.rs to_stream: `pub mod error`, `pub mod builder`, `mod defaults` share the
                      type namespace of the root                                       (E0428)
     defaultfns       defaults.rs:365-415 default_fn: bespoke function named
                      sanitize(format!("{}_{}", type_name, prop_name), Snake) in `mod defaults`;
                      enums.rs:784 gives struct variants the type name Enum ++ Variant  (E0428)
     fields/variants  structs.rs / enums.rs: field idents per struct and struct variant, variant
                      idents per enum                                                  (E0124, E0428)
     idents           util.rs:740 sanitize / format_ident!: every name is an identifier syn accepts
                      (otherwise to_stream panics in format_ident! or the output does not parse)
     untagged_simple  type_entry.rs:801 assert!: an untagged enum has at most one data-less variant
     from_variants    type_entry.rs:963-1052 convenience_from: one `impl From<V>` per DISTINCT
                      Item / Tuple key (ids); two keys with the same RENDERED type collide (E0119)
     from_tuple1      same, :1030: the body of `From<(T,)>` against the variant declared `V((T,))`:
                      `Self::V(value)` since fix d9b019c (was `Self::V(value.0,)`, E0308); the
                      conjunct is parametric in that switch and holds for every space now
     default_tuple1   value.rs:231,306,337 + variant_tuple: the DEFAULT of a one-element tuple variant is
                      `E::V((x,))` since fix 15ce314 (was `E::V(x)`, E0308); parametric in that switch
     deref_cycle      output_newtype: `impl Deref`, `impl From<Newtype> for Inner`; a cycle through
                      newtype -> inner and Box -> target edges gives `From<A> for Box<A>` (E0119)
                      and unbounded auto-deref (E0055)
     tryfrom_string   output_newtype :1376-1430: FromStr proxy emits `TryFrom<String>`; next to
                      `From<Inner>` with Inner rendered `String` the blanket TryFrom collides (E0119)
     acyclic          cycles.rs: by-value containment INCLUDING native type parameters (C07's
                      specification relation), decided by C07's proven checker         (E0072)
     derive_bounds    serde / std implement Serialize, Deserialize, Debug for arrays up to 32 and
                      tuples up to 12 only                                             (E0277)
     serde_rules      serde_derive internals/check.rs: internal tag with tuple variants, internal
                      tag equal to a variant field's wire name, adjacent tag = content,
                      deny_unknown_fields with flatten
     serde_default    structs.rs:379-407: Optional => `#[serde(default)]` needs Default on the field type
     skip_path        structs.rs:384-425 vs type_entry.rs type_ident: `skip_serializing_if = "P::f"` names a
                      function of the field's rendered type (C14's skip_path / type_ident models)  (E0308)
     defaults         defaults.rs default_fn / value.rs output_value: every Default(v) property
                      renders (no panic) to an expression typed at the property type (C06's model)
     prelude_*        templates mention `Default::default()` (type_entry.rs:1159,1252; value.rs:408),
                      `Vec<T>` for sets (:1768), `Ok(..)` / `Err(..)` unqualified: an item of that
                      name in the root captures them                                   (E0599, E0107, E0308)
*)
From Coq Require Import String Ascii NArith List Bool.
From Typify Require Import Base.Json IR.TypeIR Algo.Heck Algo.HasImpl.
From Typify Require Algo.Sanitize Algo.Cycles Algo.Defaults Algo.Value Algo.SettingsModel.
Import ListNotations.
Open Scope string_scope.
Open Scope N_scope.

Definition us (s : string) : ustring := ustr_of_string s.

(* ------------------------------------------------------------------ generic helpers *)
Fixpoint nodup_u (l : list ustring) : bool :=
  match l with
  | [] => true
  | x :: r => negb (mem_ustr x r) && nodup_u r
  end.

Definition named_dets (T : space) : list details :=
  filter is_named (map (fun ie => e_det (snd ie)) (sp_entries T)).

Definition fuel_of (T : space) : nat := S (S (length (sp_entries T))).

(* ------------------------------------------------------------------ (a) items *)
Definition item_names (T : space) : list ustring := emitted_item_names T.

Definition items_unique (T : space) : bool := nodup_u (item_names T).

Definition has_struct (T : space) : bool :=
  existsb (fun d => match d with DStruct _ _ _ _ => true | _ => false end) (named_dets T).

Definition props_of_det (d : details) : list (ustring * list prop) :=
  (* (type name used for the default function, properties) *)
  match d with
  | DStruct n _ ps _ => [(n, ps)]
  | DEnum n _ _ vs _ _ =>
      flat_map (fun v => match v_det v with
                         | VStruct ps => [((n ++ v_ident v)%list, ps)]
                         | _ => []
                         end) vs
  | _ => []
  end.

Definition has_default_prop (T : space) : bool :=
  existsb (fun d => existsb (fun np => existsb (fun p => match p_state p with PDefault _ => true | _ => false end) (snd np))
                            (props_of_det d)) (named_dets T).

(* sub-modules the root contains *)
Definition module_names (T : space) : list ustring :=
  [us "error"] ++ (if s_builder (sp_settings T) && has_struct T then [us "builder"] else [])
               ++ (if has_default_prop T then [us "defaults"] else []).

Definition modnames_free (T : space) : bool :=
  forallb (fun n => negb (mem_ustr n (module_names T))) (item_names T).

Section WithClasses.
  Variable cls : CharClasses.

  (* defaults.rs:365-391: booleans and integers use the shared generic functions *)
  Definition bespoke_default_fn (T : space) (p : prop) : bool :=
    match p_state p with
    | PDefault _ =>
        match get_det T (p_ty p) with
        | Some DBoolean | Some (DInteger _) => false
        | _ => true
        end
    | _ => false
    end.

  Definition default_fn_name (type_name prop_name : ustring) : ustring :=
    Sanitize.sanitize cls (type_name ++ [95] ++ prop_name)%list Sanitize.Snake.

  Definition default_fn_names (T : space) : list ustring :=
    flat_map (fun d =>
      flat_map (fun np =>
        map (fun p => default_fn_name (fst np) (p_name p))
            (filter (bespoke_default_fn T) (snd np))) (props_of_det d)) (named_dets T).

  Definition defaultfns_unique (T : space) : bool := nodup_u (default_fn_names T).

  (* ---------------------------------------------------------------- (b) members *)
  Definition fields_unique_det (d : details) : bool :=
    forallb (fun np => nodup_u (map p_name (snd np))) (props_of_det d).

  Definition variants_unique_det (d : details) : bool :=
    match d with
    | DEnum _ _ _ vs _ _ => nodup_u (map v_ident vs)
    | _ => true
    end.

  Definition fields_unique (T : space) : bool := forallb fields_unique_det (named_dets T).
  Definition variants_unique (T : space) : bool := forallb variants_unique_det (named_dets T).

  (* ---------------------------------------------------------------- (d) identifiers *)
  Definition idents_of_det (d : details) : list ustring :=
    match d with
    | DStruct n _ ps _ => n :: map p_name ps
    | DNewtype n _ _ _ => [n]
    | DEnum n _ _ vs _ _ =>
        n :: flat_map (fun v => v_ident v :: match v_det v with
                                              | VStruct ps => map p_name ps
                                              | _ => []
                                              end) vs
    | _ => []
    end.

  Definition all_idents (T : space) : list ustring := flat_map idents_of_det (named_dets T).

  Definition idents_valid (T : space) : bool := forallb (Sanitize.syn_ident_ok cls) (all_idents T).
End WithClasses.

(* ------------------------------------------------------------------ render_ok: the assert! of output_enum *)
Definition count_simple (vs : list variant) : nat :=
  length (filter (fun v => match v_det v with VSimple => true | _ => false end) vs).

Definition untagged_simple_det (d : details) : bool :=
  match d with
  | DEnum _ _ TagUntagged vs _ _ => Nat.leb (count_simple vs) 1
  | _ => true
  end.

Definition untagged_simple_ok (T : space) : bool := forallb untagged_simple_det (named_dets T).

(* ------------------------------------------------------------------ (c) impl coherence *)
(* the text type_ident renders for a type id (type_entry.rs:1680-1830), up to spacing:
   enough to decide whether two ids denote the same Rust type.  Sets are rendered Vec. *)
Definition lt_ : ustring := [60].
Definition gt_ : ustring := [62].
Definition comma_ : ustring := [44].

Fixpoint concat_sep (sep : ustring) (l : list ustring) : ustring :=
  match l with
  | [] => []
  | [x] => x
  | x :: r => (x ++ sep ++ concat_sep sep r)%list
  end.

Definition strip_colons (s : ustring) : ustring :=   (* `::std::x` and `std::x` are the same path *)
  match s with
  | 58 :: 58 :: r => r
  | _ => s
  end.

Fixpoint type_text (T : space) (fuel : nat) (i : id) : ustring :=
  match fuel with
  | O => us "?"
  | S f =>
      let rec := type_text T f in
      let app (h : string) (args : list ustring) := (us h ++ lt_ ++ concat_sep comma_ args ++ gt_)%list in
      match get_det T i with
      | None => us "?"
      | Some d =>
          match d with
          | DEnum n _ _ _ _ _ | DStruct n _ _ _ | DNewtype n _ _ _ => n
          | DNative n _ ps =>
              let n' := filter (fun c => negb (c =? 32)) (strip_colons n) in
              match ps with [] => n' | _ => (n' ++ lt_ ++ concat_sep comma_ (map rec ps) ++ gt_)%list end
          | DOption t => app "Option" [rec t]
          | DBox t => app "Box" [rec t]
          | DVec t | DSet t => app "Vec" [rec t]
          | DMap k v => app "Map" [rec k; rec v]
          | DArray t n => app "Array" [rec t; us (show_N n)]
          | DTuple ts => app "Tuple" (map rec ts)
          | DUnit => us "()"
          | DBoolean => us "bool"
          | DInteger n => strip_colons n
          | DFloat n => n
          | DString => us "std::string::String"
          | DJsonValue => us "serde_json::Value"
          | DReference _ => us "?"
          end
      end
  end.

Fixpoint ids_eqb (a b : list id) : bool :=
  match a, b with
  | [], [] => true
  | x :: a', y :: b' => N.eqb x y && ids_eqb a' b'
  | _, _ => false
  end.

(* convenience_from: key of a variant (None: no From impl is considered) *)
Definition from_key (v : variant) : option (list id) :=
  match v_det v with
  | VItem t => Some [t]
  | VTuple ts => Some ts
  | _ => None
  end.

Definition key_count (k : list id) (vs : list variant) : nat :=
  length (filter (fun v => match from_key v with Some k' => ids_eqb k k' | None => false end) vs).

(* the variants that get an `impl From`: key seen exactly once, and not Item(String) *)
Definition from_variants (T : space) (vs : list variant) : list variant :=
  filter (fun v =>
    match from_key v with
    | None => false
    | Some k =>
        Nat.eqb (key_count k vs) 1 &&
        match v_det v with
        | VItem t => match get_det T t with Some DString => false | _ => true end
        | _ => true
        end
    end) vs.

(* the Rust type `From<..>` is implemented for *)
Definition from_type_text (T : space) (fuel : nat) (v : variant) : ustring :=
  match v_det v with
  | VItem t => type_text T fuel t
  | VTuple ts => (us "Tuple" ++ lt_ ++ concat_sep comma_ (map (type_text T fuel) ts) ++ gt_)%list
  | _ => []
  end.

Definition from_variants_coherent_det (T : space) (d : details) : bool :=
  match d with
  | DEnum n _ _ vs _ _ =>
      let tys := map (from_type_text T (fuel_of T)) (from_variants T vs) in
      nodup_u tys && negb (mem_ustr n tys)           (* `From<E> for E` is core's reflexive impl *)
  | _ => true
  end.

Definition from_variants_coherent (T : space) : bool :=
  forallb (from_variants_coherent_det T) (named_dets T).

(* the body of `impl From<(T1,..,Tn)> for E` (type_entry.rs:1030-1060) against the variant as declared
   by output_variant (enums.rs:756: Tuple([t]) is declared `V((T,))`, Tuple(ts) `V(T1,..,Tn)`).
   Argument / field shapes: a type id, or the one-component tuple of one. *)
Definition declared_fields (ts : list id) : list fty :=
  match ts with
  | [t] => [FTuple1 t]
  | _ => map FId ts
  end.

(* [fixed = true]: since d9b019c a single-item tuple passes `value` (the tuple itself);
   [fixed = false]: the pinned code passed `value.0, value.1, ..` for every arity *)
Definition from_body_args (fixed : bool) (ts : list id) : list fty :=
  match ts with
  | [t] => if fixed then [FTuple1 t] else [FId t]
  | _ => map FId ts
  end.

Definition fty_eqb (a b : fty) : bool :=
  match a, b with
  | FId x, FId y | FTuple1 x, FTuple1 y => N.eqb x y
  | _, _ => false
  end.

Fixpoint ftys_eqb (a b : list fty) : bool :=
  match a, b with
  | [], [] => true
  | x :: a', y :: b' => fty_eqb x y && ftys_eqb a' b'
  | _, _ => false
  end.

Definition from_tuple1_det_cfg (fixed : bool) (T : space) (d : details) : bool :=
  match d with
  | DEnum _ _ _ vs _ _ =>
      forallb (fun v => match v_det v with
                        | VTuple ts => ftys_eqb (from_body_args fixed ts) (declared_fields ts)
                        | _ => true
                        end) (from_variants T vs)
  | _ => true
  end.

Definition from_tuple1_ok_cfg (fixed : bool) (T : space) : bool :=
  forallb (from_tuple1_det_cfg fixed T) (named_dets T).

(* the code as it is now (fix d9b019c = patches/C01-1.diff) *)
Definition from_body_fixed : bool := true.
Definition from_tuple1_ok (T : space) : bool := from_tuple1_ok_cfg from_body_fixed T.

(* newtype -> inner and Box -> target edges only *)
Definition deref_graph (T : space) : Cycles.graph :=
  map (fun ie => (fst ie,
                  match e_det (snd ie) with
                  | DNewtype _ _ t _ => Cycles.NOption t
                  | DBox t => Cycles.NOption t
                  | _ => Cycles.NLeaf
                  end)) (sp_entries T).

Definition deref_acyclic (T : space) : bool := Cycles.acyclic_check (deref_graph T).

Definition string_like_native (n : ustring) : bool :=
  let n' := filter (fun c => negb (c =? 32)) (strip_colons n) in
  ustr_eqb n' (us "String") || ustr_eqb n' (us "std::string::String") || ustr_eqb n' (us "alloc::string::String").

(* output_newtype, CNone: `From<Inner> for N` always; FromStr proxy (with TryFrom<&str>, <&String>,
   <String>) iff inner.has_impl(FromStr) && !is_str *)
Definition tryfrom_string_det (T : space) (d : details) : bool :=
  match d with
  | DNewtype _ _ inner CNone =>
      match get_det T inner with
      | Some (DNative n impls _) => negb (string_like_native n && mem_trait TFromStr impls)
      | _ => true
      end
  | _ => true
  end.

Definition tryfrom_string_ok (T : space) : bool := forallb (tryfrom_string_det T) (named_dets T).

(* the bespoke impl families: TryFrom<&str> / TryFrom<String> / FromStr / Display / Default are
   emitted through HasImpl.emitted_r, a FUNCTION of (entry, trait): at most once per type by
   construction.  Exposed for the statement in Props/C01.v. *)
Definition bespoke_impls (T : space) (d : details) : list trait :=
  filter (fun t => match emitted_r current T (fuel_of T) d t with HBool true => true | _ => false end)
         [TFromStr; TDisplay; TDefault].

(* ------------------------------------------------------------------ (f) by-value containment *)
Definition cvariant (v : variant) : Cycles.variant :=
  match v_det v with
  | VSimple => Cycles.VSimple
  | VItem t => Cycles.VItem t
  | VTuple ts => Cycles.VTuple ts
  | VStruct ps => Cycles.VStruct (map p_ty ps)
  end.

(* native generic types known to keep their parameters behind a pointer (like typify's own Vec /
   Box / map kinds, which cycles.rs does not descend into); every other native type is assumed to
   embed its parameters by value, as C07's specification relation does *)
Definition heap_natives : list string :=
  ["std::vec::Vec"; "std::boxed::Box"; "std::collections::HashMap"; "std::collections::BTreeMap";
   "std::collections::HashSet"; "std::collections::BTreeSet"; "std::collections::VecDeque";
   "std::rc::Rc"; "std::sync::Arc"; "Vec"; "Box"].

Definition heap_native (n : ustring) : bool :=
  let n' := filter (fun c => negb (c =? 32)) (strip_colons n) in
  existsb (fun h => ustr_eqb n' (us h)) heap_natives.

Definition cnode (d : details) : Cycles.node :=
  match d with
  | DEnum _ _ _ vs _ _ => Cycles.NEnum (map cvariant vs)
  | DStruct _ _ ps _ => Cycles.NStruct (map p_ty ps)
  | DNewtype _ _ t _ => Cycles.NNewtype t
  | DNative n _ ps => if heap_native n then Cycles.NLeaf else Cycles.NNative ps
  | DOption t => Cycles.NOption t
  | DBox t => Cycles.NBox t
  | DVec t => Cycles.NVec t
  | DMap k v => Cycles.NMap k v
  | DSet t => Cycles.NSet t
  | DArray t _ => Cycles.NArray t
  | DTuple ts => Cycles.NTuple ts
  | _ => Cycles.NLeaf
  end.

Definition graph_of_space (T : space) : Cycles.graph :=
  map (fun ie => (fst ie, cnode (e_det (snd ie)))) (sp_entries T).

(* C07's proven checker on the SPECIFICATION relation (native parameters count) *)
Definition contain_acyclic (T : space) : bool := Cycles.spec_acyclic_check (graph_of_space T).

(* ------------------------------------------------------------------ (g) serde_derive / derive bounds *)
(* field types reachable from an item without crossing another item: arrays <= 32, tuples <= 12 *)
Fixpoint bounds_ok (T : space) (fuel : nat) (i : id) : bool :=
  match fuel with
  | O => true
  | S f =>
      match get_det T i with
      | Some (DOption t) | Some (DBox t) | Some (DVec t) | Some (DSet t) => bounds_ok T f t
      | Some (DMap k v) => bounds_ok T f k && bounds_ok T f v
      | Some (DArray t n) => (n <=? 32) && bounds_ok T f t
      | Some (DTuple ts) => (N.of_nat (length ts) <=? 12) && forallb (bounds_ok T f) ts
      | Some (DNative _ _ ps) => forallb (bounds_ok T f) ps
      | _ => true
      end
  end.

Definition field_types (d : details) : list id :=
  match d with
  | DEnum _ _ _ vs _ _ =>
      flat_map (fun v => match v_det v with
                         | VSimple => []
                         | VItem t => [t]
                         | VTuple ts => ts
                         | VStruct ps => map p_ty ps
                         end) vs
  | DStruct _ _ ps _ => map p_ty ps
  | DNewtype _ _ t _ => [t]
  | _ => []
  end.

Definition derive_bounds_ok (T : space) : bool :=
  forallb (fun d => forallb (bounds_ok T (fuel_of T)) (field_types d)) (named_dets T).

Definition prop_wire_is (t : ustring) (p : prop) : bool :=
  match wire_name p with Some w => ustr_eqb w t | None => false end.

Definition is_flatten (p : prop) : bool := match p_rename p with RFlatten => true | _ => false end.

Definition serde_rules_det (d : details) : bool :=
  match d with
  | DEnum _ _ (TagInternal t) vs _ _ =>
      forallb (fun v => match v_det v with
                        | VTuple _ => false                              (* "cannot be used with tuple variants" *)
                        | VStruct ps => negb (existsb (prop_wire_is t) ps)   (* "conflicts with internal tag" *)
                        | _ => true
                        end) vs
  | DEnum _ _ (TagAdjacent t c) _ _ _ => negb (ustr_eqb t c)             (* "enum tags conflict with each other" *)
  | DStruct _ _ ps deny => negb (deny && existsb is_flatten ps)          (* deny_unknown_fields + flatten *)
  | _ => true
  end.

Definition serde_rules_ok (T : space) : bool := forallb serde_rules_det (named_dets T).

(* `#[serde(default)]` (state Optional) needs `Default` for the field type *)
Definition serde_default_det (T : space) (d : details) : bool :=
  forallb (fun np => forallb (fun p => match p_state p with
                                       | POptional => implements current T (fuel_of T) (p_ty p) TDefault
                                       | _ => true
                                       end) (snd np)) (props_of_det d).

Definition serde_default_ok (T : space) : bool := forallb (serde_default_det T) (named_dets T).

(* `#[serde(skip_serializing_if = "P::f")]` is chosen by structs.rs generate_serde_attr (:384-425, through one
   Box), the field type by type_entry.rs type_ident (:1680-1830): two sites with the same two-part test for
   `::serde_json::Map` (key is String AND value is JsonValue).  The path must name a function of the field's
   own rendered type.  Both sites are C14's models [SettingsModel.skip_path] / [SettingsModel.type_ident]. (E0308) *)
Fixpoint type_head (ty : ustring) : ustring :=       (* the path before the generic arguments *)
  match ty with
  | [] => []
  | c :: r => if c =? 60 then [] else c :: type_head r
  end.

Definition unboxed_id (T : space) (i : id) : id :=
  match get_det T i with
  | Some (DBox t) => match get_det T t with Some _ => t | None => i end
  | _ => i
  end.

Definition skip_path_prop_ok (T : space) (p : prop) : bool :=
  match SettingsModel.skip_path T p with
  | [] => true
  | path =>
      match SettingsModel.type_ident T (fuel_of T) (unboxed_id T (p_ty p)) with
      | Some ty => uprefix (type_head ty ++ us "::")%list path
      | None => true
      end
  end.

Definition skip_path_ok (T : space) : bool :=
  forallb (fun d => forallb (fun np => forallb (skip_path_prop_ok T) (snd np)) (props_of_det d)) (named_dets T).

(* ------------------------------------------------------------------ (e) default expressions *)
(* does expression node `EVarTuple ty var _` construct a variant whose payload is a one-element tuple? *)
Definition tuple1_variant (T : space) (ty var : ustring) : bool :=
  match Value.find_named T ty with
  | Some (DEnum _ _ _ vs _ _) =>
      match Value.find_variant_ident var vs with
      | Some vr => match v_det vr with VTuple [_] => true | _ => false end
      | None => false
      end
  | _ => false
  end.

(* value.rs variant_tuple (fix 15ce314 = patches/C06-7.diff): a one-element tuple variant is built
   `E::V((x,))`.  [wrap1] applies that helper to an expression rendered by the pre-fix model
   `E::V(x)`, so that the conjunct does not depend on when C06's rendering model follows the fix. *)
Fixpoint wrap1 (T : space) (e : Value.expr) {struct e} : Value.expr :=
  let mapl := fix go (es : list Value.expr) : list Value.expr :=
      match es with [] => [] | x :: r => wrap1 T x :: go r end in
  let mapf := fix go (fs : list (Value.fname * Value.expr)) : list (Value.fname * Value.expr) :=
      match fs with [] => [] | (n, x) :: r => (n, wrap1 T x) :: go r end in
  match e with
  | Value.ESome x => Value.ESome (wrap1 T x)
  | Value.EBox x => Value.EBox (wrap1 T x)
  | Value.EVec es => Value.EVec (mapl es)
  | Value.ETuple es => Value.ETuple (mapl es)
  | Value.EArray es => Value.EArray (mapl es)
  | Value.EMap kvs =>
      Value.EMap ((fix go (kvs : list (Value.expr * Value.expr)) : list (Value.expr * Value.expr) :=
                     match kvs with [] => [] | (a, b) :: r => (wrap1 T a, wrap1 T b) :: go r end) kvs)
  | Value.EStruct n fs => Value.EStruct n (mapf fs)
  | Value.EVarStruct ty var fs => Value.EVarStruct ty var (mapf fs)
  | Value.ECtor n es => Value.ECtor n (mapl es)
  | Value.EVarTuple ty var es =>
      if tuple1_variant T ty var then Value.EVarTuple ty var [Value.ETuple (mapl es)]
      else Value.EVarTuple ty var (mapl es)
  | other => other
  end.

(* the code as it is now: value.rs uses variant_tuple (fix 15ce314) *)
Definition default_variant_fixed : bool := true.

Definition default_typed_cfg (fixed : bool) (T : space) (e : Value.expr) (t : id) : bool :=
  Value.expr_typed T (fuel_of T) e t || (fixed && Value.expr_typed T (fuel_of T) (wrap1 T e) t).

Definition prop_default_ok_cfg (fixed : bool) (T : space) (p : prop) : bool :=
  match p_state p with
  | PDefault v =>
      match Value.render_prop_default T (fuel_of T) (p_ty p) v with
      | Defaults.ROk None => true
      | Defaults.ROk (Some e) => default_typed_cfg fixed T e (p_ty p)
      | _ => false
      end
  | _ => true
  end.

Definition prop_default_ok (T : space) (p : prop) : bool := prop_default_ok_cfg default_variant_fixed T p.

Definition defaults_ok (T : space) : bool :=
  forallb (fun d => forallb (fun np => forallb (prop_default_ok T) (snd np)) (props_of_det d)) (named_dets T).

(* value.rs:231-234, 306-309, 337-340: the default of a Tuple(types) variant.  Before fix 15ce314 it
   was rendered `E::V(e1, .., en)` for every arity, ill typed for the one-element tuple declared
   `V((T,))` (E0308, finding C01-16 = C06-F13); since the fix `variant_tuple` passes the tuple
   itself.  The argument / field shapes are those of the `From` body: [from_body_args]. *)
Definition variant_payload (T : space) (ty var : ustring) : option (list id) :=
  match Value.find_named T ty with
  | Some (DEnum _ _ _ vs _ _) =>
      match Value.find_variant_ident var vs with
      | Some vr => match v_det vr with VTuple ts => Some ts | _ => None end
      | None => None
      end
  | _ => None
  end.

Definition tuple1_variant_expr_cfg (fixed : bool) (T : space) (e : Value.expr) : bool :=
  (* true = an ill-shaped construction of a tuple variant *)
  match e with
  | Value.EVarTuple ty var _ =>
      match variant_payload T ty var with
      | Some ts => negb (ftys_eqb (from_body_args fixed ts) (declared_fields ts))
      | None => false
      end
  | _ => false
  end.

(* the entry's own default (`impl Default` / definition default) is rendered by output_value at the entry's
   id (C06's model needs the id for the in-progress guard of fix fd85c79); the id is found by the type name,
   which is unique whenever the `items` conjunct holds *)
Definition id_of_name (T : space) (n : ustring) : option id :=
  option_map fst (find (fun ie => match det_name (e_det (snd ie)) with
                                  | Some m => ustr_eqb m n
                                  | None => false
                                  end) (sp_entries T)).

Definition entry_default_expr (T : space) (d : details) (v : json) : Defaults.res Value.expr :=
  match det_name d with
  | Some n => match id_of_name T n with
              | Some i => Value.output_value T (fuel_of T) i v
              | None => Defaults.RPanic
              end
  | None => Defaults.RPanic
  end.

Definition rendered_defaults (T : space) (d : details) : list Value.expr :=
  (* property defaults with a bespoke function, and the entry's own default (impl Default) *)
  flat_map (fun np =>
    flat_map (fun p => match p_state p with
                       | PDefault v => match Value.render_prop_default T (fuel_of T) (p_ty p) v with
                                       | Defaults.ROk (Some e) => [e]
                                       | _ => []
                                       end
                       | _ => []
                       end) (snd np)) (props_of_det d) ++
  match d with
  | DEnum _ (Some v) _ _ _ _ | DStruct _ (Some v) _ _ | DNewtype _ (Some v) _ _ =>
      match entry_default_expr T d v with
      | Defaults.ROk e => [e]
      | _ => []
      end
  | _ => []
  end.

Definition default_tuple1_ok_cfg (fixed : bool) (T : space) : bool :=
  forallb (fun d => forallb (fun e => negb (Value.expr_any (tuple1_variant_expr_cfg fixed T) e)) (rendered_defaults T d))
          (named_dets T).

Definition default_tuple1_ok (T : space) : bool := default_tuple1_ok_cfg default_variant_fixed T.

(* ------------------------------------------------------------------ prelude capture *)
Definition has_item (T : space) (n : string) : bool := mem_ustr (us n) (item_names T).

Definition struct_default_all (ps : list prop) : bool := forallb prop_has_default ps.

(* does the root mention the unqualified path `Default::default()` ? *)
Definition mentions_default_det (T : space) (d : details) : bool :=
  match d with
  | DStruct _ None ps _ =>
      s_builder (sp_settings T) ||
      (struct_default_all ps && existsb (fun p => match p_state p with POptional => true | _ => false end) ps)
  | DStruct _ (Some v) ps _ =>
      s_builder (sp_settings T) ||
      match entry_default_expr T d v with
      | Defaults.ROk e => Value.expr_any Value.is_default_fill e
      | _ => false
      end
  | _ => false
  end.

Definition prelude_default_ok (T : space) : bool :=
  negb (has_item T "Default" && existsb (mentions_default_det T) (named_dets T)).

Definition has_set (T : space) : bool :=
  existsb (fun ie => match e_det (snd ie) with DSet _ => true | _ => false end) (sp_entries T).

Definition prelude_vec_ok (T : space) : bool := negb (has_item T "Vec" && has_set T).

(* tuple structs (newtypes) live in the value namespace too *)
Definition newtype_named (T : space) (n : string) : bool :=
  existsb (fun d => match d with DNewtype m _ _ _ => ustr_eqb m (us n) | _ => false end) (named_dets T).

Definition mentions_result_det (T : space) (d : details) : bool :=
  match d with
  | DStruct _ _ _ _ => s_builder (sp_settings T)
  | DNewtype _ _ _ CNone =>
      match emitted_r current T (fuel_of T) d TFromStr with HBool true => true | _ => false end
  | DNewtype _ _ _ _ => true
  | DEnum _ _ _ _ _ _ =>
      match emitted_r current T (fuel_of T) d TFromStr with HBool true => true | _ => false end
  | _ => false
  end.

Definition prelude_result_ok (T : space) : bool :=
  negb ((newtype_named T "Ok" || newtype_named T "Err") && existsb (mentions_result_det T) (named_dets T)).

(* ------------------------------------------------------------------ the judgment *)
Inductive conjunct :=
| CItems | CModnames | CDefaultFns | CFields | CVariants | CIdents | CUntaggedSimple
| CFromVariants | CFromTuple1 | CDerefCycle | CTryFromString | CAcyclic | CDeriveBounds
| CSerdeRules | CSerdeDefault | CSkipPath | CDefaults | CDefaultTuple1 | CPreludeDefault | CPreludeVec | CPreludeResult.

Definition all_conjuncts : list conjunct :=
  [CItems; CModnames; CDefaultFns; CFields; CVariants; CIdents; CUntaggedSimple;
   CFromVariants; CFromTuple1; CDerefCycle; CTryFromString; CAcyclic; CDeriveBounds;
   CSerdeRules; CSerdeDefault; CSkipPath; CDefaults; CDefaultTuple1; CPreludeDefault; CPreludeVec; CPreludeResult].

Definition holds (cls : CharClasses) (T : space) (c : conjunct) : bool :=
  match c with
  | CItems => items_unique T
  | CModnames => modnames_free T
  | CDefaultFns => defaultfns_unique cls T
  | CFields => fields_unique T
  | CVariants => variants_unique T
  | CIdents => idents_valid cls T
  | CUntaggedSimple => untagged_simple_ok T
  | CFromVariants => from_variants_coherent T
  | CFromTuple1 => from_tuple1_ok T
  | CDerefCycle => deref_acyclic T
  | CTryFromString => tryfrom_string_ok T
  | CAcyclic => contain_acyclic T
  | CDeriveBounds => derive_bounds_ok T
  | CSerdeRules => serde_rules_ok T
  | CSerdeDefault => serde_default_ok T
  | CSkipPath => skip_path_ok T
  | CDefaults => defaults_ok T
  | CDefaultTuple1 => default_tuple1_ok T
  | CPreludeDefault => prelude_default_ok T
  | CPreludeVec => prelude_vec_ok T
  | CPreludeResult => prelude_result_ok T
  end.

Definition wf_module (cls : CharClasses) (T : space) : bool := forallb (holds cls T) all_conjuncts.

(* the failing conjuncts (empty iff wf_module) *)
Definition wf_report (cls : CharClasses) (T : space) : list conjunct :=
  filter (fun c => negb (holds cls T c)) all_conjuncts.

(* ------------------------------------------------------------------ printing *)
Open Scope string_scope.
Definition show_conjunct (c : conjunct) : string :=
  match c with
  | CItems => "items" | CModnames => "modnames" | CDefaultFns => "defaultfns" | CFields => "fields"
  | CVariants => "variants" | CIdents => "idents" | CUntaggedSimple => "untagged_simple"
  | CFromVariants => "from_variants" | CFromTuple1 => "from_tuple1" | CDerefCycle => "deref_cycle"
  | CTryFromString => "tryfrom_string" | CAcyclic => "acyclic" | CDeriveBounds => "derive_bounds"
  | CSerdeRules => "serde_rules" | CSerdeDefault => "serde_default" | CSkipPath => "skip_path" | CDefaults => "defaults"
  | CDefaultTuple1 => "default_tuple1"
  | CPreludeDefault => "prelude_default" | CPreludeVec => "prelude_vec" | CPreludeResult => "prelude_result"
  end.

Definition show_report (l : list conjunct) : string := String.concat "," (map show_conjunct l).
