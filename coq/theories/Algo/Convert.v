(* Algo/Convert.v -- executable model of typify's CONVERTER on a fragment of
   JSON Schema: `TypeSpace::add_root_schema` on documents
   `{"definitions": {...}}` (no titled root schema).  DEFINITIONS ONLY; lemmas
   are in Proofs/ConvertProofs.v, the property theorems in Props/C02F.v, the
   report in notes/Convert.md.  Tied to the real code on every run by
   py/convert_check.py (K3: the `space` term computed here is compared, by
   kernel conversion, with the `verif_dump` of the real run on the same
   document).

   Rust                                                   model
   lib.rs:832-862   add_root_schema                       convert_doc
   lib.rs:616-732   add_ref_types_impl                    convert_doc / conv_defs
                    (ids base..base+n pre-assigned in BTreeMap key order,
                     batch_names, break_cycles, finalize)
   lib.rs:734-795   convert_ref_type                      conv_def
   lib.rs:958-1002  assign / assign_type                  assign
   lib.rs:1008-1031 id_for_schema                         `cv ..` followed by `assign`
   lib.rs:1034      id_to_option                          assign (DOption _)
   lib.rs:160-176   Name, into_option, append             name, name_opt
   util.rs:790-799  get_type_name (no title)              type_name
   convert.rs:24-46 convert_schema                        conv
   convert.rs:48-785 convert_schema_object (dispatch)     classify (which arm), conv_node
   convert.rs:63-116  [T, "null"] -> Option               conv_node (nullable), inner_name
   convert.rs:787-890 convert_string (no format/validation) KStr
   convert.rs:892-967 convert_enum_string                 KEnum  (+ Sanitize.variants =
                                                          type_entry.rs:240-287 from_metadata)
   convert.rs:969-1190 convert_integer (no default)       KInt via choose_int (int_rows, ibounds_of)
   convert.rs:1193-1214 convert_number (no format)        KNum
   convert.rs:1218 convert_null, 1887 convert_bool,
   convert.rs:1894 convert_permissive                     KNull, KBool, KAny / SBool true
   convert.rs:1268-1361 convert_object                    KMap / KStruct
   structs.rs:212-247 make_map (no propertyNames)         KMap
   structs.rs:19-147  struct_members                      conv_props, sort_props, unique
   structs.rs:149-210 struct_property                     conv_prop
   structs.rs:463-484 has_default (no default value)      has_intrinsic_default
   convert.rs:1363-1380 convert_reference                 KRef
   convert.rs:1760-1875 convert_array (items: T)          KVec
   convert.rs:1877 convert_array_of_any                   KVecAny
   type_entry.rs:320-352 TypeEntryEnum::finalize          bespoke = [AllSimpleVariants] at creation
   cycles.rs break_cycles                                 NOT modelled: the fragment is
                    restricted to documents whose by-value reference graph is
                    acyclic ([byval_acyclic]); there break_cycles adds nothing
                    (validated by K3 on every run, not proved here).
   defaults.rs:64 check_defaults                          no-op (no `default` in the fragment)

   Outcome: [option]; [None] stands for every outcome other than success
   (Err, panic, or a construct outside the fragment).  On the fragment
   ([in_frag D = true]) the model always succeeds
   (ConvertProofs.convert_total) and so does the real code (K3).

   Names are computed with Algo/Sanitize.v's [sanitize]/[recase]/[variants]
   and Algo/Heck.v's [to_snake_case], parametric in the character classes
   [cls]; K3 evaluates with [ascii_classes] on ASCII names. *)
From Coq Require Import String Ascii ZArith NArith QArith List Bool.
From Typify Require Import Base.Json Spec.Schema Spec.Valid IR.TypeIR.
From Typify Require Algo.Heck Algo.Sanitize.
Import ListNotations.
Close Scope Q_scope.
Close Scope string_scope.
Open Scope list_scope.
Open Scope N_scope.

(* ------------------------------------------------------------------ names *)
(* lib.rs:153-176 *)
Inductive name := NRequired (s : ustring) | NSuggested (s : ustring) | NUnknown.

(* Name::into_option *)
Definition name_opt (nm : name) : option ustring :=
  match nm with NRequired s | NSuggested s => Some s | NUnknown => None end.

Open Scope string_scope.
Definition s_Inner : ustring := ulit "Inner".
Definition s_Item : ustring := ulit "Item".
Definition s_item : ustring := ulit "item".
Definition s_Value : ustring := ulit "Value".
Definition s_Variant : ustring := ulit "Variant".
Definition s_i64 : ustring := ulit "i64".
Definition s_f64 : ustring := ulit "f64".
Definition s_map_type : ustring := ulit ":: std :: collections :: HashMap".

Close Scope string_scope.

(* ------------------------------------------------------------------ integer selection
   convert.rs:969-1190 convert_integer without a default value, on INTEGER bounds (the exact meaning
   of the f64 operations when every bound is a "safe" double, as Algo/IntSelectZ.v; the table and the
   function are proved equal to IntSelectZ.int_formats_Z / choose_integer_Z in
   Proofs/ConvertIntTie.v - that file, and only that file, inherits Flocq's axioms). *)
Record irow := mkIrow { ir_fmt : ustring; ir_ty : ustring; ir_nz : ustring; ir_lo : Z; ir_hi : Z }.

Open Scope string_scope.
Open Scope Z_scope.
Definition int_rows : list irow :=
  [ mkIrow (ulit "int8") (ulit "i8") (ulit "::std::num::NonZeroU8") (-128) 127;
    mkIrow (ulit "uint8") (ulit "u8") (ulit "::std::num::NonZeroU8") 0 255;
    mkIrow (ulit "int16") (ulit "i16") (ulit "::std::num::NonZeroU16") (-32768) 32767;
    mkIrow (ulit "uint16") (ulit "u16") (ulit "::std::num::NonZeroU16") 0 65535;
    mkIrow (ulit "int") (ulit "i32") (ulit "::std::num::NonZeroU32") (-2147483648) 2147483647;
    mkIrow (ulit "int32") (ulit "i32") (ulit "::std::num::NonZeroU32") (-2147483648) 2147483647;
    mkIrow (ulit "uint") (ulit "u32") (ulit "::std::num::NonZeroU32") 0 4294967295;
    mkIrow (ulit "uint32") (ulit "u32") (ulit "::std::num::NonZeroU32") 0 4294967295;
    (* `i64::MAX as f64` = 2^63 and `u64::MAX as f64` = 2^64: the limits the code compares with *)
    mkIrow (ulit "int64") (ulit "i64") (ulit "::std::num::NonZeroU64") (-9223372036854775808) 9223372036854775808;
    mkIrow (ulit "uint64") (ulit "u64") (ulit "::std::num::NonZeroU64") 0 18446744073709551616 ].
Definition s_u64 : ustring := ulit "u64".
Definition s_uint64 : ustring := ulit "uint64".
Close Scope string_scope.

Record ibounds := mkIb { ib_min : option Z; ib_max : option Z; ib_emin : option Z; ib_emax : option Z;
                         ib_mult : bool }.

(* x + 1.0 / x - 1.0 on integral doubles (round to nearest even beyond 2^53) *)
Definition iadd1 (z : Z) : Z := if (- 2^53 <=? z) && (z <? 2^53) then z + 1 else z.
Definition isub1 (z : Z) : Z := if (- 2^53 <? z) && (z <=? 2^53) then z - 1 else z.

Definition inorm_min (b : ibounds) : option Z :=
  match ib_min b, ib_emin b with
  | None, None => None
  | None, Some v => Some (iadd1 v)
  | Some v, None => Some v
  | Some m, Some e => Some (Z.max m (iadd1 e))
  end.
Definition inorm_max (b : ibounds) : option Z :=
  match ib_max b, ib_emax b with
  | None, None => None
  | None, Some v => Some (isub1 v)
  | Some v, None => Some v
  | Some m, Some e => Some (Z.min m (isub1 e))
  end.

Fixpoint find_map' {A B} (f : A -> option B) (l : list A) : option B :=
  match l with [] => None | x :: r => match f x with Some y => Some y | None => find_map' f r end end.

(* convert.rs:1130-1167 *)
Definition ifit (mn mx : option Z) : option ustring :=
  match mn, mx with
  | None, Some hi =>
      find_map' (fun r => if (ir_hi r =? hi) && (ir_lo r <=? - 2^63) then Some (ir_ty r) else None) (rev int_rows)
  | Some lo, None =>
      find_map' (fun r => if lo =? 1 then Some (ir_nz r)
                          else if (ir_lo r =? lo) && (ir_hi r >=? 2^63) then Some (ir_ty r) else None) (rev int_rows)
  | Some lo, Some hi =>
      find_map' (fun r => if lo =? 1 then Some (ir_nz r)
                          else if (ir_hi r =? hi) && (ir_lo r =? lo) then Some (ir_ty r) else None) (rev int_rows)
  | None, None => None
  end.

(* convert.rs:1170-1189 *)
Definition igeneral (fmt : option ustring) (mn mx : option Z) : ustring :=
  match ifit mn mx with
  | Some ty => ty
  | None => if match fmt with Some f => ustr_eqb f s_uint64 | None => false end then s_u64 else s_i64
  end.

Definition choose_int (fmt : option ustring) (b : ibounds) : ustring :=
  let mn := inorm_min b in
  let mx := inorm_max b in
  match match fmt with Some f => find (fun r => ustr_eqb (ir_fmt r) f) int_rows | None => None end with
  | Some r =>
      let valid_min := match mn with None => true | Some m => m >=? ir_lo r end in
      let valid_max := match mx with None => true | Some m => m <=? ir_hi r end in
      if negb (ib_mult b) && valid_min && valid_max then
        if match mn with Some v => v =? 1 | None => false end then ir_nz r else ir_ty r
      else igeneral fmt (match mn with None => Some (ir_lo r) | _ => mn end)
                        (match mx with None => Some (ir_hi r) | _ => mx end)
  | None => igeneral fmt mn mx
  end.

(* the numeric keywords of a schema as integer bounds: every bound must be an integer literal whose
   double is exact ("safe": |z| <= 2^53, or +-2^63, 2^64); otherwise the node is outside the fragment *)
Definition q_int (q : Q) : option Z := if (Qden q =? 1)%positive then Some (Qnum q) else None.
Definition safe_int (z : Z) : bool :=
  (Z.abs z <=? 2^53) || (z =? - 2^63) || (z =? 2^63) || (z =? 2^64).
Definition obound (o : option Q) : option (option Z) :=     (* None = not acceptable *)
  match o with
  | None => Some None
  | Some q => match q_int q with Some z => if safe_int z then Some (Some z) else None | None => None end
  end.
Definition ibounds_of (nv : numv) : option ibounds :=
  match obound (n_minimum nv), obound (n_maximum nv), obound (n_exclusive_minimum nv), obound (n_exclusive_maximum nv) with
  | Some a, Some b, Some c, Some d => Some (mkIb a b c d (match n_multiple_of nv with Some _ => true | None => false end))
  | _, _, _, _ => None
  end.
Close Scope Z_scope.

Definition c_slash : N := 47.
Definition c_uscore : N := 95.

(* ------------------------------------------------------------------ state *)
(* lib.rs:186-212: next_id, id_to_entry, name_to_id, type_to_id, uses_serde_json
   (ref_to_id is a function of the document: [ref_id]; the other uses_* flags
   and `defaults` stay false/empty on the fragment) *)
(* uses_serde_json, uses_regress *)
Record uflags := mkFlags { uf_json : bool; uf_regress : bool }.

Record st := mkSt {
  st_next : N;
  st_ents : list (id * entry);          (* kept sorted by id: BTreeMap *)
  st_names : list (ustring * id);       (* name_to_id; the first binding wins *)
  st_types : list (details * id);       (* type_to_id *)
  st_flags : uflags }.

(* BTreeMap::insert on id_to_entry *)
Fixpoint put (j : id) (e : entry) (l : list (id * entry)) : list (id * entry) :=
  match l with
  | [] => [(j, e)]
  | (k, x) :: r =>
      if j <? k then (j, e) :: l
      else if j =? k then (j, e) :: r
      else (k, x) :: put j e r
  end.

(* structural equality on the unnamed details the fragment produces
   (TypeEntryDetails: PartialEq/Ord as the key of type_to_id) *)
Fixpoint ids_eqb (a b : list id) : bool :=
  match a, b with
  | [], [] => true
  | x :: a', y :: b' => (x =? y) && ids_eqb a' b'
  | _, _ => false
  end.

Fixpoint traits_eqb (a b : list trait) : bool :=
  match a, b with
  | [], [] => true
  | x :: a', y :: b' => trait_eqb x y && traits_eqb a' b'
  | _, _ => false
  end.

Definition udet_eqb (a b : details) : bool :=
  match a, b with
  | DOption x, DOption y => x =? y
  | DVec x, DVec y => x =? y
  | DSet x, DSet y => x =? y
  | DTuple x, DTuple y => ids_eqb x y
  | DNative n i p, DNative n' i' p' => ustr_eqb n n' && traits_eqb i i' && ids_eqb p p'
  | DArray x n, DArray y m => (x =? y) && (n =? m)
  | DMap k v, DMap k' v' => (k =? k') && (v =? v')
  | DUnit, DUnit | DBoolean, DBoolean | DString, DString | DJsonValue, DJsonValue => true
  | DInteger x, DInteger y => ustr_eqb x y
  | DFloat x, DFloat y => ustr_eqb x y
  | _, _ => false
  end.

Fixpoint find_type (d : details) (l : list (details * id)) : option id :=
  match l with
  | [] => None
  | (d', i) :: r => if udet_eqb d d' then Some i else find_type d r
  end.

(* lib.rs:968-1002 assign_type *)
Definition assign (te : details) (s : st) : id * st :=
  match te with
  | DReference i => (i, s)
  | _ =>
      match det_name te with
      | Some n =>
          match assoc n (st_names s) with
          | Some i => (i, s)              (* reuse by name, no comparison *)
          | None =>
              let i := st_next s in
              (i, mkSt (i + 1) (put i (mkEntry te []) (st_ents s)) ((n, i) :: st_names s)
                       (st_types s) (st_flags s))
          end
      | None =>
          match find_type te (st_types s) with
          | Some i => (i, s)
          | None =>
              let i := st_next s in
              (i, mkSt (i + 1) (put i (mkEntry te []) (st_ents s)) (st_names s)
                       ((te, i) :: st_types s) (st_flags s))
          end
      end
  end.

Definition set_json (s : st) : st :=
  mkSt (st_next s) (st_ents s) (st_names s) (st_types s) (mkFlags true (uf_regress (st_flags s))).
Definition set_regress (s : st) : st :=
  mkSt (st_next s) (st_ents s) (st_names s) (st_types s) (mkFlags (uf_json (st_flags s)) true).

(* structs.rs:463-484 has_default with `default = None` *)
Definition has_intrinsic_default (s : st) (t : id) : bool :=
  match lookup_id t (st_ents s) with
  | Some e => match e_det e with
              | DOption _ | DVec _ | DMap _ _ | DUnit => true
              | _ => false
              end
  | None => false
  end.

(* structs.rs:74 properties.sort_by(|a, b| a.name.cmp(&b.name)) -- stable *)
Fixpoint ins_prop (p : prop) (l : list prop) : list prop :=
  match l with
  | [] => [p]
  | q :: r => if ustr_ltb (p_name q) (p_name p) then q :: ins_prop p r else p :: l
  end.
Definition sort_props (l : list prop) : list prop := fold_right ins_prop [] l.

(* ------------------------------------------------------------------ dispatch *)
(* convert.rs:1760-1875: which sequence type an array schema becomes *)
Inductive seqc := CVec | CSet | CArr (n : N).
Definition seq_det (c : seqc) (i : id) : details :=
  match c with CVec => DVec i | CSet => DSet i | CArr n => DArray i n end.

Inductive kind :=
| KBool | KStr | KNull | KNum
| KStrC (mx mn : option N) (pat : option ustring)     (* constrained string newtype *)
| KInt (rust : ustring)
| KEnum (raws : list ustring)
| KStruct (deny : bool)
| KMap
| KTuple                                   (* items: [..] with minItems = maxItems = their number *)
| KVec (c : seqc) | KVecAny (c : seqc)     (* Vec / Set / fixed-length array, with / without item schema *)
| KRef (r : ustring)
| KAny
| KOne (tg : tagty)                        (* oneOf converted to a serde enum with this tagging *)
| KOpt.                                    (* oneOf [X, null]: Option<X> (maybe_option) *)

Definition numv_is_none (nv : numv) : bool :=
  match nv with mkNumv None None None None None => true | _ => false end.
Definition strv_is_none (sv : strv) : bool :=
  match sv with mkStrv None None None => true | _ => false end.
Definition is_none {A} (o : option A) : bool := match o with None => true | Some _ => false end.
Definition is_nil {A} (l : list A) : bool := match l with [] => true | _ => false end.
Definition items_absent (ik : items_kind) : bool :=
  match ik with ItemsAbsent => true | _ => false end.

(* the listed strings of an "enum" made of strings only *)
Fixpoint jstrs (l : list json) : option (list ustring) :=
  match l with
  | [] => Some []
  | JStr x :: r => option_map (cons x) (jstrs r)
  | _ => None
  end.

(* [T, "null"] / ["null", T] / [T]  (convert.rs:63-116, 635-652) *)
Definition split_type (l : list itype) : option (bool * itype) :=
  match l with
  | [t] => Some (false, t)
  | [a; b] =>
      match a, b with
      | TNull, TNull => None
      | TNull, t | t, TNull => Some (true, t)
      | _, _ => None
      end
  | _ => None
  end.

(* ------------------------------------------------------------------ oneOf -> tagged enums (enums.rs)
   enums.rs:86-205 maybe_externally_tagged_enum, the shape test per branch.  A branch is
   * "simple":  {"type":"string","enum":[names..]} - one unit variant per name, or
   * "typed":   {"type":"object","properties":{V:S},"required":[V],"additionalProperties":false} -
     the variant V whose data is decided by the TYPE S converts to (external_variant).
   The Rust patterns ignore a few keyword groups (`number: _`, `string: _`, ..., additionalProperties
   of a typed branch); the fragment wants them absent / `false` (an open typed branch is valid for
   objects serde rejects).  Constants (`const`) as simple branches are left out. *)
Definition xsimple (b : schema) : option (list ustring) :=
  match b with
  | SObj (Some [TString]) None (Some es) None nv sv ItemsAbsent [] None None None false [] [] None None None None None
         None None None None None =>
      if numv_is_none nv && strv_is_none sv
      then match jstrs es with Some [] => None | o => o end else None
  | _ => None
  end.

Definition xtyped (b : schema) : option (ustring * schema) :=
  match b with
  | SObj (Some [TObject]) None None None nv sv ItemsAbsent [] None None None false [(v, sc)] [r] (Some (SBool false))
         None None None None None None None None None =>
      if numv_is_none nv && strv_is_none sv && ustr_eqb r v then Some (v, sc) else None
  | _ => None
  end.

(* the two branch forms, as terms *)
Definition xsimple_sch (es : list json) : schema :=
  SObj (Some [TString]) None (Some es) None numv_none strv_none ItemsAbsent [] None None None false [] [] None None None
       None None None None None None None.
Definition xbranch (v : ustring) (sc : schema) : schema :=
  SObj (Some [TObject]) None None None numv_none strv_none ItemsAbsent [] None None None false [(v, sc)] [v]
       (Some (SBool false)) None None None None None None None None None.

(* the variant names a branch contributes; None = not a branch of an externally tagged enum *)
Definition xnames (b : schema) : option (list ustring) :=
  match xsimple b with
  | Some raws => Some raws
  | None => match xtyped b with Some (v, _) => Some [v] | None => None end
  end.

Fixpoint xall_names (bs : list schema) : option (list ustring) :=
  match bs with
  | [] => Some []
  | b :: r => match xnames b, xall_names r with
              | Some a, Some c => Some (a ++ c)
              | _, _ => None
              end
  end.

Fixpoint nodup_names (l : list ustring) : bool :=
  match l with [] => true | x :: r => negb (mem_ustr x r) && nodup_names r end.

(* enums.rs:69-230: every branch has the shape and no variant name occurs twice (otherwise the real
   code goes on to the adjacent / internal / untagged forms) *)
Definition one_external (bs : list schema) : bool :=
  match bs with
  | [] => false
  | _ => match xall_names bs with Some names => nodup_names names | None => false end
  end.

(* ---- adjacently / internally tagged: object branches with a constant-string tag property
   util.rs:460-527 constant_string_value: `{"type":"string","enum":[x]}`, `{"enum":[x]}`, `{"type":"string","const":x}`,
   `{"const":x}` with nothing else but annotations *)
Definition cstr (s : schema) : option ustring :=
  match s with
  | SObj ty None enum cst nv sv ItemsAbsent [] None None None false [] [] None None None None None None None None _ _ =>
      if numv_is_none nv && strv_is_none sv
         && match ty with None | Some [TString] => true | _ => false end
      then match enum, cst with
           | Some [JStr x], None => Some x
           | None, Some (JStr x) => Some x
           | _, _ => None
           end
      else None
  | _ => None
  end.

(* util.rs:619-643 get_object, restricted to the plain typed form: (properties, required, closed) *)
Definition tobj (b : schema) : option (list (ustring * schema) * list ustring * bool) :=
  match b with
  | SObj (Some [TObject]) None None None nv sv ItemsAbsent [] None None None false props req ap None None None None None
         None None None None =>
      if numv_is_none nv && strv_is_none sv && negb (is_nil props) then
        match ap with
        | None => Some (props, req, false)
        | Some (SBool false) => Some (props, req, true)
        | Some _ => None
        end
      else None
  | _ => None
  end.

Fixpoint tobjs (bs : list schema) : option (list (list (ustring * schema) * list ustring * bool)) :=
  match bs with
  | [] => Some []
  | b :: r => match tobj b, tobjs r with
              | Some t, Some l => Some (t :: l)
              | _, _ => None
              end
  end.

Definition tb_props (t : list (ustring * schema) * list ustring * bool) := fst (fst t).
Definition tb_req (t : list (ustring * schema) * list ustring * bool) := snd (fst t).
Definition tb_closed (t : list (ustring * schema) * list ustring * bool) := snd t.

(* on such branches the shape test of maybe_externally_tagged_enum is: one property, one required name,
   the property names pairwise distinct *)
Definition ext_on_tobjs (L : list (list (ustring * schema) * list ustring * bool)) : bool :=
  forallb (fun t => (length (tb_props t) =? 1)%nat && (length (tb_req t) =? 1)%nat) L
  && nodup_names (flat_map (fun t => map fst (tb_props t)) L).

Fixpoint dedup (l : list ustring) : list ustring :=
  match l with [] => [] | x :: r => if mem_ustr x r then dedup r else x :: dedup r end.

Definition tb_consts (t : list (ustring * schema) * list ustring * bool) : list ustring :=
  map fst (filter (fun kv => match cstr (snd kv) with Some _ => true | None => false end) (tb_props t)).

(* enums.rs:452-499: one tag property (constant in every branch), two property names in all *)
Definition one_adjacent (L : list (list (ustring * schema) * list ustring * bool)) : option (ustring * ustring) :=
  match L with
  | [] => None
  | t0 :: r =>
      if forallb (fun t => (length (tb_props t) =? length (tb_req t))%nat) L then
        let tags := fold_left (fun acc t => filter (fun k => mem_ustr k (tb_consts t)) acc) r (tb_consts t0) in
        let names := dedup (flat_map (fun t => map fst (tb_props t)) L) in
        match tags with
        | [tg] =>
            if (length names =? 2)%nat then
              match filter (fun k => negb (ustr_eqb k tg)) names with
              | [ct] => Some (tg, ct)
              | _ => None
              end
            else None
        | _ => None
        end
      else None
  end.

(* enums.rs:318-371: the required constant-string properties common to all branches with pairwise
   different values; the least one is the tag *)
Definition tb_cmap (t : list (ustring * schema) * list ustring * bool) : list (ustring * ustring) :=
  flat_map (fun kv => if mem_ustr (fst kv) (tb_req t)
                      then match cstr (snd kv) with Some v => [(fst kv, v)] | None => [] end
                      else []) (tb_props t).

Fixpoint opt_all_map {A B} (f : A -> option B) (l : list A) : option (list B) :=
  match l with
  | [] => Some []
  | x :: r => match f x, opt_all_map f r with Some y, Some ys => Some (y :: ys) | _, _ => None end
  end.

Fixpoint least (l : list ustring) : option ustring :=
  match l with
  | [] => None
  | x :: r => match least r with
              | Some y => Some (if ustr_ltb y x then y else x)
              | None => Some x
              end
  end.

Definition one_internal (L : list (list (ustring * schema) * list ustring * bool)) : option ustring :=
  match L with
  | [] => None
  | t0 :: _ =>
      least (filter (fun k => match opt_all_map (fun t => assoc k (tb_cmap t)) L with
                              | Some vals => nodup_names vals
                              | None => false
                              end) (map fst (tb_cmap t0)))
  end.

(* ---- untagged: the arms are plain scalar types `{"type": T}` (nothing else), T in boolean / string / integer /
   number / null.  maybe_option (enums.rs:27-67) comes first in convert_one_of: with exactly one non-null arm the
   union is an Option (not modelled here: classified out), so at least two non-null arms are wanted;
   maybe_singleton_subschema needs one arm.  None of the tagged forms matches such arms. *)
Definition scalar_arm (b : schema) : option itype :=
  match b with
  | SObj (Some [t]) fmt None None nv sv ItemsAbsent [] None None None false [] [] None None None None None None None None None None =>
      match t with
      | TBoolean | TString | TNumber | TNull =>
          if is_none fmt && numv_is_none nv && strv_is_none sv then Some t else None
      | TInteger => if strv_is_none sv then Some t else None
      | _ => None
      end
  | _ => None
  end.

Definition one_untagged (bs : list schema) : bool :=
  match opt_all_map scalar_arm bs with
  | Some tys => (2 <=? length (filter (fun t => negb (itype_eqb t TNull)) tys))%nat
  | None => false
  end.

(* enums.rs:27-67 maybe_option, tried first by convert_one_of: at least two arms, exactly one of them not
   `"type": "null"` (whatever else a null arm says) -> Option of that arm.  The model takes two arms, the null one
   plain; other unions with exactly one non-null arm are classified out. *)
Definition nullish (b : schema) : bool :=
  match b with
  | SObj (Some [TNull]) _ _ _ _ _ _ _ _ _ _ _ _ _ _ _ _ _ _ _ _ _ _ _ => true
  | _ => false
  end.
Definition plain_null (b : schema) : bool :=
  match scalar_arm b with Some TNull => true | _ => false end.
(* Some true = an Option; Some false = not an Option; None = an Option the model does not take *)
Definition opt_shape (bs : list schema) : option bool :=
  if (2 <=? length bs)%nat && (length (filter (fun b => negb (nullish b)) bs) =? 1)%nat then
    match bs with
    | [a; b] => if (nullish a && plain_null a) || (nullish b && plain_null b) then Some true else None
    | _ => None
    end
  else Some false.

(* enums.rs via convert.rs:1579-1611: external, then adjacent, then internal *)
Definition one_kind (bs : list schema) : option tagty :=
  if one_external bs then Some TagExternal else
  match bs with
  | [] => None
  | _ =>
      match tobjs bs with
      | None => if one_untagged bs then Some TagUntagged else None
      | Some L =>
          if ext_on_tobjs L then None        (* externally tagged in a form the model does not take *)
          else match one_adjacent L with
               | Some (tg, ct) => Some (TagAdjacent tg ct)
               | None => match one_internal L with
                         | Some tg => Some (TagInternal tg)
                         | None => None
                         end
               end
      end
  end.

(* the union a node carries: "oneOf", else "anyOf" *)
Definition union_of (oneo anyo : option (list schema)) : option (list schema) :=
  match anyo with
  | None => oneo              (* so that [union_of oneo None] IS [oneo] (by computation) *)
  | Some _ => match oneo with Some _ => oneo | None => anyo end
  end.

(* convert.rs:1470-1500 convert_any_of: maybe_option first; then, when the arms are pairwise mutually exclusive
   (util.rs:45-58 - for plain scalar arms: the single types differ pairwise), convert_one_of.  The model takes the
   Option form and plain scalar arms of pairwise different types; everything else (the flattened-union struct,
   exclusivity of objects / arrays) is classified out. *)
Definition any_kind (bs : list schema) : option kind :=
  match opt_shape bs with
  | Some true => Some KOpt
  | Some false =>
      match opt_all_map scalar_arm bs with
      | Some tys =>
          if (fix nd (l : list itype) : bool :=
                match l with [] => true | x :: r => negb (existsb (itype_eqb x) r) && nd r end) tys
             && one_untagged bs
          then Some (KOne TagUntagged) else None
      | None => None
      end
  | None => None
  end.

Section Classify.
  Variable ty : option (list itype).
  Variable fmt : option ustring.
  Variable enum : option (list json).
  Variable cst : option json.
  Variable nv : numv.
  Variable sv : strv.
  Variable ik : items_kind.
  Variable items : list schema.
  Variable ai : option schema.
  Variable mni mxi : option N.
  Variable uq : bool.
  Variable props : list (ustring * schema).
  Variable req : list ustring.
  Variable ap : option schema.
  Variable mnp mxp : option N.
  Variable allo anyo oneo : option (list schema).
  Variable no : option schema.
  Variable ref : option ustring.
  Variable dflt : option json.
  Variable title : option ustring.

  (* keywords no arm of the fragment looks at *)
  Definition no_extras : bool :=
    is_none cst && is_none ai
    && is_none mnp && is_none mxp && is_none allo && is_none anyo && is_none oneo
    && is_none no && is_none dflt && is_none title.

  Definition no_array : bool := items_absent ik && is_nil items.
  Definition no_object : bool := is_nil props && is_nil req && is_none ap.

  Definition ap_simple : option bool :=      (* Some deny *)
    match ap with
    | None | Some (SBool true) => Some false
    | Some (SBool false) => Some true
    | Some _ => None
    end.

  (* numeric / string validation keywords absent (each arm says which it reads) *)
  Definition no_num : bool := numv_is_none nv.
  Definition no_str : bool := strv_is_none sv.
  Definition no_len : bool := is_none mni && is_none mxi && negb uq.
  (* minItems / maxItems that do not make a fixed-length array (convert.rs:1771-1778 wants them
     equal and > 0; equal and 0 is left out too: a Vec does not enforce it) *)
  Definition len_plain : bool :=
    match mni, mxi with Some a, Some b => negb (a =? b) | _, _ => true end.

  (* convert.rs:1771-1778 / 1830-1868: minItems = maxItems > 0 without uniqueItems -> fixed-length array;
     otherwise a Set (uniqueItems) or a Vec, whose lengths are not enforced (equal lengths are left out
     there: the validators would rightly object).  The AST reads `uniqueItems: false` as absent. *)
  Definition seq_kind : option seqc :=
    match mni, mxi with
    | Some a, Some b =>
        if a =? b then (if (0 <? b) && negb uq && (b <? 4294967296) then Some (CArr b) else None)
        else Some (if uq then CSet else CVec)
    | _, _ => Some (if uq then CSet else CVec)
    end.

  (* convert.rs:1796-1807: a tuple with exactly as many item schemas as required items *)
  Definition tuple_len_ok : bool :=
    match mni, mxi with
    | Some a, Some b => (a =? N.of_nat (length items)) && (b =? a) && negb uq && (0 <? a) && (a <? 4294967296)
    | _, _ => false
    end.

  Definition kind_of_type (t : itype) : option kind :=
    match t with
    | TBoolean => if is_none fmt && is_none enum && no_array && no_object && no_num && no_str && no_len then Some KBool else None
    | TNull => if is_none fmt && is_none enum && no_array && no_object && no_num && no_str && no_len then Some KNull else None
    | TNumber => if is_none fmt && is_none enum && no_array && no_object && no_num && no_str && no_len then Some KNum else None
    | TInteger =>
        if is_none enum && no_array && no_object && no_str && no_len then
          option_map (fun b => KInt (choose_int fmt b)) (ibounds_of nv)
        else None
    | TString =>
        if is_none fmt && no_array && no_object && no_num && no_len then
          match enum with
          | None =>
              (* convert.rs:796-828: no validation -> String; otherwise a named newtype *)
              if no_str then Some KStr
              else Some (KStrC (s_max_length sv) (s_min_length sv) (s_pattern sv))
          | Some es => if no_str then
                         match jstrs es with
                         | Some [] => None
                         | Some raws => Some (KEnum raws)
                         | None => None
                         end
                       else None
          end
        else None
    | TArray =>
        if is_none fmt && is_none enum && no_object && no_num && no_str then
          match ik with
          | ItemsTuple => if tuple_len_ok then Some KTuple else None
          | _ =>
              match seq_kind, ik, items with
              | Some c, ItemsAbsent, [] => Some (KVecAny c)
              | Some c, ItemsSingle, [_] => Some (KVec c)
              | _, _, _ => None
              end
          end
        else None
    | TObject =>
        if is_none fmt && is_none enum && no_array && no_num && no_str && no_len then
          (* convert.rs:1278-1298: no properties, nothing required,
             additionalProperties other than `false` -> a map *)
          if is_nil props && is_nil req
             && negb (match ap with Some (SBool false) => true | _ => false end)
          then Some KMap
          else option_map KStruct ap_simple
        else None
    end.

  (* (nullable, kind) *)
  (* convert.rs:468-509: only "oneOf" (and annotations) present -> convert_one_of *)
  Definition only_one : bool :=
    is_none ty && is_none fmt && is_none enum && is_none cst && no_array && no_object && no_num && no_str && no_len
    && is_none ai && is_none mnp && is_none mxp && is_none allo && is_none anyo && is_none no && is_none ref
    && is_none dflt && is_none title.

  Definition only_any : bool :=
    is_none ty && is_none fmt && is_none enum && is_none cst && no_array && no_object && no_num && no_str && no_len
    && is_none ai && is_none mnp && is_none mxp && is_none allo && is_none no && is_none ref
    && is_none dflt && is_none title.

  Definition classify : option (bool * kind) :=
    match oneo with
    | Some bs =>
        if only_one then
          match opt_shape bs with
          | Some true => Some (false, KOpt)
          | Some false => option_map (fun tg => (false, KOne tg)) (one_kind bs)
          | None => None
          end
        else None
    | None =>
    match anyo with
    | Some bs => if only_any then option_map (pair false) (any_kind bs) else None
    | None =>
    if negb no_extras then None else
    match ty with
    | Some l =>
        if negb (is_none ref) then None else
        match split_type l with
        | Some (nl, t) => option_map (pair nl) (kind_of_type t)
        | None => None
        end
    | None =>
        if is_none fmt && is_none enum && no_array && no_object && no_num && no_str && no_len then
          match ref with
          | Some r => Some (false, KRef r)
          | None => Some (false, KAny)
          end
        else None
    end
    end
    end.
End Classify.

Definition classify_s (s : schema) : option (bool * kind) :=
  match s with
  | SBool _ => None
  | SObj ty fmt enum cst nv sv ik items ai mni mxi uq props req ap mnp mxp allo anyo oneo no ref dflt title =>
      classify ty fmt enum cst nv sv ik items ai mni mxi uq props req ap mnp mxp allo anyo oneo no ref dflt title
  end.

(* ------------------------------------------------------------------ conversion *)
Section Convert.
  Variable cls : Heck.CharClasses.
  (* ref_to_id: `#/definitions/<r>` -> pre-assigned id (lib.rs:629-633) *)
  Variable rid : ustring -> option id.

  (* util.rs:790-799 get_type_name, metadata without title *)
  Definition type_name (nm : name) : option ustring :=
    option_map (fun s => Sanitize.sanitize cls s Sanitize.Pascal) (name_opt nm).

  (* convert.rs:98-101 *)
  Definition inner_name (nm : name) : name :=
    match nm with
    | NRequired s => NSuggested (s ++ s_Inner)
    | _ => nm
    end.

  (* structs.rs:59-61  format!("{}_{}", base, prop_name.to_snake_case()) *)
  Definition prop_type_name (base k : ustring) : name :=
    NSuggested (base ++ [c_uscore] ++ Heck.to_snake_case cls k).

  (* convert.rs:1838-1841 *)
  Definition item_name (nm : name) : name :=
    match type_name nm with
    | Some s => NSuggested (s ++ s_Item)
    | None => NUnknown
    end.

  (* lib.rs:168-175 Name::append("item") (convert.rs:1811) for fixed-length arrays *)
  Definition append_item (nm : name) : name :=
    match nm with
    | NRequired p | NSuggested p => NSuggested (p ++ [c_uscore] ++ s_item)
    | NUnknown => NUnknown
    end.
  (* lib.rs:168-175 Name::append *)
  Definition append_name (nm : name) (x : ustring) : name :=
    match nm with
    | NRequired p | NSuggested p => NSuggested (p ++ [c_uscore] ++ x)
    | NUnknown => NUnknown
    end.
  (* convert.rs:1802 type_name.append(&format!("item{}", ii)) *)
  Definition idx_name (nm : name) (i : nat) : name :=
    match nm with
    | NRequired p | NSuggested p => NSuggested (p ++ [c_uscore] ++ s_item ++ ulit (show_N (N.of_nat i)))
    | NUnknown => NUnknown
    end.
  Definition seq_item_name (c : seqc) (nm : name) : name :=
    match c with CArr _ => append_item nm | _ => item_name nm end.

  (* structs.rs:236-239 (type_name.into_option()) *)
  Definition value_name (nm : name) : name :=
    match name_opt nm with
    | Some s => NSuggested (s ++ s_Value)
    | None => NUnknown
    end.

  (* type_entry.rs:240-305 + finalize: string enum with unit variants *)
  Definition mk_enum (n : ustring) (raws : list ustring) : option details :=
    match Sanitize.variant_idents cls raws with
    | Sanitize.Ok ids =>
        Some (DEnum n None TagExternal
                    (map (fun p => mkVariant (fst p) (snd p) VSimple) (combine raws ids))
                    false [AllSimpleVariants])
    | _ => None
    end.

  Section Node.
    (* convert_schema on the children (open recursion, closed by [conv]) *)
    Variable cv : schema -> name -> st -> option (details * st).

    (* structs.rs:149-210 struct_property *)
    Definition conv_prop (base : ustring) (req : list ustring) (k : ustring) (s' : schema) (s : st)
      : option (prop * st) :=
      match cv s' (prop_type_name base k) s with
      | None => None
      | Some (te, s1) =>
          let '(t, s2) := assign te s1 in
          let '(t', st', s3) :=
            if mem_ustr k req then (t, PRequired, s2)
            else if has_intrinsic_default s2 t then (t, POptional, s2)
            else let '(o, s3) := assign (DOption t) s2 in (o, POptional, s3) in
          let '(ident, rn) := Sanitize.recase cls k Sanitize.Snake in
          Some (mkProp ident (match rn with Some old => RRename old | None => RNone end) st' t', s3)
      end.

    (* structs.rs:37-71: properties in BTreeMap order *)
    Definition conv_props (base : ustring) (req : list ustring)
      : list (ustring * schema) -> st -> option (list prop * st) :=
      fix go (ps : list (ustring * schema)) (s : st) {struct ps} : option (list prop * st) :=
        match ps with
        | [] => Some ([], s)
        | (k, s') :: r =>
            match conv_prop base req k s' s with
            | None => None
            | Some (p, s1) =>
                match go r s1 with
                | None => None
                | Some (l, s2) => Some (p :: l, s2)
                end
            end
        end.

    (* convert.rs:1797-1805: the item schemas in order *)
    Definition conv_items (nm : name) : nat -> list schema -> st -> option (list id * st) :=
      fix go (i : nat) (l : list schema) (s : st) {struct l} : option (list id * st) :=
        match l with
        | [] => Some ([], s)
        | it :: r =>
            match cv it (idx_name nm i) s with
            | None => None
            | Some (te, s1) =>
                let '(t, s2) := assign te s1 in
                match go (S i) r s2 with
                | None => None
                | Some (ts, s3) => Some (t :: ts, s3)
                end
            end
        end.

    (* enums.rs:260-306 external_variant: the variant's data is decided by the converted TYPE *)
    Definition conv_xvar (nm : name) (v : ustring) (sc : schema) (s : st) : option (vdetails * bool * st) :=
      match cv sc (append_name nm v) s with
      | None => None
      | Some (te, s1) =>
          match te with
          | DTuple ts => Some (VTuple ts, false, s1)
          | DUnit => Some (VSimple, false, s1)
          | DStruct _ _ ps deny => Some (VStruct ps, deny, s1)
          | _ => let '(t, s2) := assign te s1 in Some (VItem t, false, s2)
          end
      end.

    (* enums.rs:529-589 adjacent_variant, per branch: the tag alone -> unit variant; tag + content -> the
       content as the payload, under Name::append(content) for a Required name and Name::append(variant)
       otherwise *)
    Definition conv_avariant (nm : name) (tg ct : ustring) (b : schema) (s : st)
      : option (ustring * vdetails * bool * st) :=
      match b with
      | SObj _ _ _ _ _ _ _ _ _ _ _ _ props _ _ _ _ _ _ _ _ _ _ _ =>
          let payload (vname : option ustring) (sc : schema) :=
            match vname with
            | None => None
            | Some v =>
                match conv_xvar nm (match nm with NRequired _ => ct | _ => v end) sc s with
                | Some (vd, deny, s1) => Some (v, vd, deny, s1)
                | None => None
                end
            end in
          match props with
          | [(k1, s1)] => match cstr s1 with Some v => Some (v, VSimple, false, s) | None => None end
          | [(k1, s1); (k2, s2)] =>
              if ustr_eqb k1 tg then payload (cstr s1) s2 else payload (cstr s2) s1
          | _ => None
          end
      | SBool _ => None
      end.

    Definition conv_abranches (nm : name) (tg ct : ustring)
      : list schema -> st -> option (list (ustring * vdetails) * bool * st) :=
      fix go (bs : list schema) (s : st) {struct bs} : option (list (ustring * vdetails) * bool * st) :=
        match bs with
        | [] => Some ([], false, s)
        | b :: r =>
            match conv_avariant nm tg ct b s with
            | None => None
            | Some (v, vd, d1, s1) =>
                match go r s1 with
                | None => None
                | Some (vs2, d2, s2) => Some ((v, vd) :: vs2, d1 || d2, s2)
                end
            end
        end.

    (* structs.rs:19-146 struct_members on the properties other than the tag (enums.rs:421-427) *)
    Definition conv_props_skip (tg : ustring) (base : option ustring) (req : list ustring)
      : list (ustring * schema) -> st -> option (list prop * st) :=
      fix go (ps : list (ustring * schema)) (s : st) {struct ps} : option (list prop * st) :=
        match ps with
        | [] => Some ([], s)
        | (k, s') :: r =>
            if ustr_eqb k tg then go r s else
            match match base with
                  | Some b => conv_prop b req k s' s
                  | None => None
                  end with
            | None => None
            | Some (p, s1) =>
                match go r s1 with
                | None => None
                | Some (l, s2) => Some (p :: l, s2)
                end
            end
        end.

    (* enums.rs:402-438 internal_variant *)
    Definition conv_ivariant (nm : name) (tg : ustring) (b : schema) (s : st)
      : option (ustring * vdetails * st) :=
      match b with
      | SObj _ _ _ _ _ _ _ _ _ _ _ _ props req _ _ _ _ _ _ _ _ _ _ =>
          match props with
          | [(k1, s1)] => match cstr s1 with Some v => Some (v, VSimple, s) | None => None end
          | _ =>
              match match assoc tg props with Some ts => cstr ts | None => None end with
              | None => None
              | Some v =>
                  match conv_props_skip tg (name_opt nm) req props s with
                  | None => None
                  | Some (ps, s1) =>
                      let ps' := sort_props ps in
                      if Sanitize.unique (map p_name ps') then Some (v, VStruct ps', s1) else None
                  end
              end
          end
      | SBool _ => None
      end.

    Definition conv_ibranches (nm : name) (tg : ustring)
      : list schema -> st -> option (list (ustring * vdetails) * st) :=
      fix go (bs : list schema) (s : st) {struct bs} : option (list (ustring * vdetails) * st) :=
        match bs with
        | [] => Some ([], s)
        | b :: r =>
            match conv_ivariant nm tg b s with
            | None => None
            | Some (v, vd, s1) =>
                match go r s1 with
                | None => None
                | Some (vs2, s2) => Some ((v, vd) :: vs2, s2)
                end
            end
        end.

    (* enums.rs:610-714 untagged_enum on arms without a name of their own: `Variant<i>`, the arm converted under
       Name::Suggested(enum name).append(variant) and turned into the variant's data as for external tagging *)
    Definition conv_ubranches (n : ustring)
      : nat -> list schema -> st -> option (list (ustring * vdetails) * bool * st) :=
      fix go (i : nat) (bs : list schema) (s : st) {struct bs} : option (list (ustring * vdetails) * bool * st) :=
        match bs with
        | [] => Some ([], false, s)
        | b :: r =>
            let v := s_Variant ++ ulit (show_N (N.of_nat i)) in
            match conv_xvar (NSuggested n) v b s with
            | None => None
            | Some (vd, d1, s1) =>
                match go (S i) r s1 with
                | None => None
                | Some (vs2, d2, s2) => Some ((v, vd) :: vs2, d1 || d2, s2)
                end
            end
        end.

    (* enums.rs:207-245: the variants in branch order; deny_unknown_fields |= deny *)
    Definition conv_xbranches (nm : name) : list schema -> st -> option (list (ustring * vdetails) * bool * st) :=
      fix go (bs : list schema) (s : st) {struct bs} : option (list (ustring * vdetails) * bool * st) :=
        match bs with
        | [] => Some ([], false, s)
        | b :: r =>
            match match b with
                  | SObj _ _ _ _ _ _ _ _ _ _ _ _ props _ _ _ _ _ _ _ _ _ _ _ =>
                      match props with
                      | [(v, sc)] =>
                          match conv_xvar nm v sc s with
                          | Some (vd, deny, s1) => Some ([(v, vd)], deny, s1)
                          | None => None
                          end
                      | _ => match xsimple b with
                             | Some raws => Some (map (fun x => (x, VSimple)) raws, false, s)
                             | None => None
                             end
                      end
                  | SBool _ => None
                  end with
            | None => None
            | Some (vs1, d1, s1) =>
                match go r s1 with
                | None => None
                | Some (vs2, d2, s2) => Some (vs1 ++ vs2, d1 || d2, s2)
                end
            end
        end.

    (* type_entry.rs:240-343: identifiers, finalize (AllSimpleVariants) *)
    Definition mk_tagged (n : ustring) (tg : tagty) (rvs : list (ustring * vdetails)) (deny : bool) : option details :=
      match Sanitize.variant_idents cls (map fst rvs) with
      | Sanitize.Ok ids =>
          Some (DEnum n None tg
                      (map (fun p => mkVariant (fst (fst p)) (snd p) (snd (fst p))) (combine rvs ids))
                      deny
                      (match tg with
                       | TagUntagged =>
                           (* finalize: every variant a newtype variant whose type has FromStr / Display - on the
                              scalar arms of the model every type has both *)
                           if forallb (fun p => match snd p with VItem _ => true | _ => false end) rvs
                           then [UntaggedFromStr; UntaggedDisplay] else []
                       | _ =>
                           if forallb (fun p => match snd p with VSimple => true | _ => false end) rvs
                           then [AllSimpleVariants] else []
                       end))
      | _ => None
      end.

    Definition conv_kind (k : kind) (nm : name) (items : list schema)
               (props : list (ustring * schema)) (req : list ustring) (ap : option schema) (oneo : option (list schema)) (s : st)
      : option (details * st) :=
      match k with
      | KOne TagExternal =>
          match type_name nm with
          | None => None
          | Some n =>
              match match oneo with Some bs => conv_xbranches nm bs s | None => None end with
              | None => None
              | Some (rvs, deny, s1) =>
                  match mk_tagged n TagExternal rvs deny with Some d => Some (d, s1) | None => None end
              end
          end
      | KOne (TagAdjacent tg ct) =>
          match type_name nm with
          | None => None
          | Some n =>
              match match oneo with Some bs => conv_abranches nm tg ct bs s | None => None end with
              | None => None
              | Some (rvs, deny, s1) =>
                  match mk_tagged n (TagAdjacent tg ct) rvs deny with Some d => Some (d, s1) | None => None end
              end
          end
      | KOne (TagInternal tg) =>
          match type_name nm with
          | None => None
          | Some n =>
              match match oneo with Some bs => conv_ibranches nm tg bs s | None => None end with
              | None => None
              | Some (rvs, s1) =>
                  (* enums.rs:374-385: deny_unknown_fields iff some branch has additionalProperties: false *)
                  let deny := match oneo with
                              | Some bs => existsb (fun b => match sch_additional_props b with
                                                             | Some (SBool false) => true | _ => false end) bs
                              | None => false
                              end in
                  match mk_tagged n (TagInternal tg) rvs deny with Some d => Some (d, s1) | None => None end
              end
          end
      | KOpt =>
          (* enums.rs:52-66: the arm under the inner name, assigned, wrapped (convert_option / type_to_option) *)
          match oneo with
          | Some (a :: b :: nil) =>
              match (if nullish a then cv b (inner_name nm) s else cv a (inner_name nm) s) with
              | Some (te, s1) => let '(i, s2) := assign te s1 in Some (DOption i, s2)
              | None => None
              end
          | _ => None
          end
      | KOne TagUntagged =>
          match type_name nm with
          | None => None
          | Some n =>
              match match oneo with Some bs => conv_ubranches n 0%nat bs s | None => None end with
              | None => None
              | Some (rvs, deny, s1) =>
                  (* enums.rs:688-701: at most one variant without data *)
                  if (2 <=? length (filter (fun p => match snd p with VSimple => true | _ => false end) rvs))%nat then None
                  else match mk_tagged n TagUntagged rvs deny with Some d => Some (d, s1) | None => None end
              end
          end
      | KBool => Some (DBoolean, s)
      | KStr => Some (DString, s)
      | KNull => Some (DUnit, s)
      | KNum => Some (DFloat s_f64, s)
      | KStrC mx mn pat =>
          (* convert.rs:806-828: (valid pattern -> uses_regress), assign String, named newtype *)
          let s' := match pat with Some _ => set_regress s | None => s end in
          let '(sid, s1) := assign DString s' in
          match type_name nm with
          | Some n => Some (DNewtype n None sid (CString mx mn pat), s1)
          | None => None
          end
      | KInt r => Some (DInteger r, s)
      | KEnum raws =>
          match type_name nm with
          | Some n => match mk_enum n raws with Some d => Some (d, s) | None => None end
          | None => None
          end
      | KStruct deny =>
          match type_name nm with
          | None => None
          | Some base =>
              match conv_props base req props s with
              | None => None
              | Some (ps, s1) =>
                  let ps' := sort_props ps in
                  if Sanitize.unique (map p_name ps') then Some (DStruct base None ps' deny, s1)
                  else None
              end
          end
      | KMap =>
          let '(kid, s1) := assign DString s in
          match ap with
          | Some vs =>
              match cv vs (value_name nm) s1 with
              | None => None
              | Some (te, s2) => let '(vid, s3) := assign te s2 in Some (DMap kid vid, s3)
              end
          | None =>
              let '(vid, s2) := assign DJsonValue (set_json s1) in Some (DMap kid vid, s2)
          end
      | KTuple =>
          match conv_items nm 0%nat items s with
          | Some (ts, s1) => Some (DTuple ts, s1)
          | None => None
          end
      | KVec c =>
          match items with
          | [it] =>
              match cv it (seq_item_name c nm) s with
              | None => None
              | Some (te, s1) => let '(i, s2) := assign te s1 in Some (seq_det c i, s2)
              end
          | _ => None
          end
      | KVecAny c => let '(i, s1) := assign DJsonValue (set_json s) in Some (seq_det c i, s1)
      | KRef r => match rid r with Some i => Some (DReference i, s) | None => None end
      | KAny => Some (DJsonValue, set_json s)
      end.

    (* convert_schema_object on a classified node; a nullable node converts the
       non-null part under the inner name and wraps it (convert_option,
       type_to_option) *)
    Definition conv_node (c : option (bool * kind)) (nm : name) (items : list schema)
               (props : list (ustring * schema)) (req : list ustring) (ap : option schema) (oneo : option (list schema)) (s : st)
      : option (details * st) :=
      match c with
      | None => None
      | Some (false, k) => conv_kind k nm items props req ap oneo s
      | Some (true, k) =>
          match conv_kind k (inner_name nm) items props req ap oneo s with
          | None => None
          | Some (te, s1) => let '(i, s2) := assign te s1 in Some (DOption i, s2)
          end
      end.
  End Node.

  (* convert.rs:24-46 convert_schema *)
  Fixpoint conv (s : schema) {struct s} : name -> st -> option (details * st) :=
    match s with
    | SBool true => fun _ s0 => Some (DJsonValue, set_json s0)
    | SBool false => fun _ _ => None
    | SObj ty fmt enum cst nv sv ik items ai mni mxi uq props req ap mnp mxp allo anyo oneo no ref dflt title =>
        fun nm s0 =>
        conv_node conv
          (classify ty fmt enum cst nv sv ik items ai mni mxi uq props req ap mnp mxp allo anyo oneo no ref dflt title)
          nm items props req ap (union_of oneo anyo) s0
    end.

  (* lib.rs:734-795 convert_ref_type, for the definition [d] with pre-assigned id [t] *)
  Definition conv_def (d : ustring) (s : schema) (t : id) (s0 : st) : option st :=
    match conv s (NRequired d) s0 with
    | None => None
    | Some (te, s1) =>
        let n := Sanitize.sanitize cls d Sanitize.Pascal in
        let '(ent, s2) :=
          match te with
          | DEnum _ _ _ _ _ _ | DStruct _ _ _ _ | DNewtype _ _ _ _ => (te, s1)
          | DReference r => (DNewtype n None r CNone, s1)
          | _ => let '(i, s2) := assign te s1 in (DNewtype n None i CNone, s2)
          end in
        match det_name ent with
        | None => None
        | Some en =>
            Some (mkSt (st_next s2) (put t (mkEntry ent []) (st_ents s2)) ((en, t) :: st_names s2)
                       (st_types s2) (st_flags s2))
        end
    end.

  Fixpoint conv_defs (ds : list (ustring * schema)) (t : id) (s0 : st) : option st :=
    match ds with
    | [] => Some s0
    | (d, s) :: r =>
        match conv_def d s t s0 with
        | None => None
        | Some s1 => conv_defs r (t + 1) s1
        end
    end.
End Convert.

(* position of the definition + base id 1 (lib.rs:625-633 on a fresh TypeSpace) *)
Fixpoint ref_index (D : defs) (r : ustring) (i : id) : option id :=
  match D with
  | [] => None
  | (k, _) :: rest => if ustr_eqb r k then Some i else ref_index rest r (i + 1)
  end.
Definition ref_id (D : defs) (r : ustring) : option id := ref_index D r 1.

Definition default_settings : settings := mkSettings None [] false s_map_type.

Definition space_of (s : st) : space :=
  mkSpace (st_ents s) (st_next s) default_settings false false (uf_json (st_flags s)) (uf_regress (st_flags s)) [].

(* lib.rs:638-705 batch_names: Err when two definitions get the same type name *)
Definition def_names (cls : Heck.CharClasses) (D : defs) : list ustring :=
  map (fun kv => Sanitize.sanitize cls (fst kv) Sanitize.Pascal) D.

Definition convert_doc (cls : Heck.CharClasses) (D : defs) : option space :=
  if negb (Sanitize.unique (def_names cls D)) then None else
  match conv_defs cls (ref_id D) D 1 (mkSt (1 + N.of_nat (length D)) [] [] [] (mkFlags false false)) with
  | Some s => Some (space_of s)
  | None => None
  end.

(* the (definition, type id) pairs the validator is asked about *)
Fixpoint pairs_from (D : defs) (i : id) : list (ustring * id) :=
  match D with
  | [] => []
  | (k, _) :: r => (k, i) :: pairs_from r (i + 1)
  end.
Definition pairs_of (D : defs) : list (ustring * id) := pairs_from D 1.

(* ------------------------------------------------------------------ the fragment *)
(* a pattern every ECMAScript engine accepts (regress::Regex::new never fails on it): letters,
   digits, space, '_' and '-' with an optional leading '^' and trailing '$'.  (The model cannot
   decide regex validity in general; an invalid pattern makes the real converter return Err.) *)
Definition pat_char_ok (c : N) : bool :=
  ((97 <=? c) && (c <=? 122)) || ((65 <=? c) && (c <=? 90)) || ((48 <=? c) && (c <=? 57))
  || (c =? 32) || (c =? 95) || (c =? 45).
Definition strip_caret (p : ustring) : ustring := match p with 94 :: r => r | _ => p end.
Definition strip_dollar (p : ustring) : ustring :=
  match rev p with 36 :: r => rev r | _ => p end.
Definition pat_safe (p : ustring) : bool := forallb pat_char_ok (strip_dollar (strip_caret p)).
Definition u32_ok (o : option N) : bool := match o with Some n => n <? 4294967296 | None => true end.
Definition strc_ok (mx mn : option N) (pat : option ustring) : bool :=
  u32_ok mx && u32_ok mn && match pat with Some p => pat_safe p | None => true end.

(* enums.rs:550-566: the name under which the content of an adjacently tagged variant is converted *)
Definition adj_name (nm : name) (ct v : ustring) : name :=
  append_name nm (match nm with NRequired _ => ct | _ => v end).

(* the type positions below one branch of a tagged oneOf, with the names they are converted under
   (open recursion: [f] is the function being defined - names_of / frag / byval_refs) *)
Definition branch_fold {X} (cls : Heck.CharClasses) (tg : tagty) (nm : name) (f : schema -> name -> X)
           (app : X -> X -> X) (nil : X) (b : schema) : X :=
  match b with
  | SObj _ _ _ _ _ _ _ _ _ _ _ _ bprops _ _ _ _ _ _ _ _ _ _ _ =>
      match tg with
      | TagExternal =>
          match bprops with
          | [(v, sc)] => f sc (append_name nm v)
          | _ => nil
          end
      | TagAdjacent t c =>
          match bprops with
          | [(k1, s1); (k2, s2)] =>
              if ustr_eqb k1 t
              then match cstr s1 with Some v => f s2 (adj_name nm c v) | None => nil end
              else match cstr s2 with Some v => f s1 (adj_name nm c v) | None => nil end
          | _ => nil
          end
      | TagInternal t =>
          match name_opt nm with
          | Some base =>
              (fix gp (ps : list (ustring * schema)) {struct ps} : X :=
                 match ps with
                 | [] => nil
                 | (k, s') :: q => app (if ustr_eqb k t then nil else f s' (prop_type_name cls base k)) (gp q)
                 end) bprops
          | None => nil
          end
      | TagUntagged => nil
      end
  | SBool _ => nil
  end.

(* a non-nullable oneOf node *)
Definition is_one (s : schema) : bool :=
  match classify_s s with Some (_, KOne _) => true | _ => false end.

(* the payload schemas of the typed branches *)
Definition xpayloads (bs : list schema) : list schema :=
  flat_map (fun b => match xtyped b with Some (_, sc) => [sc] | None => [] end) bs.

(* conditions on the payloads of a tagged oneOf under which serde's reading is the schema's:
   * no `null` payload: enums.rs:279-285 turns it into a UNIT variant, which serialises as the bare
     name (the schema wants {"V": null}) - modelled, outside the fragment;
   * the struct payloads are all closed or all open: deny_unknown_fields is accumulated at the ENUM
     (enums.rs:232) and then holds for every struct variant (the shape of finding C02-F1). *)
Definition struct_deny (sc : schema) : option bool :=
  match classify_s sc with Some (false, KStruct d) => Some d | _ => None end.
Definition payloads_ok (bs : list schema) : bool :=
  forallb (fun sc => match classify_s sc with Some (false, KNull) => false | _ => true end) (xpayloads bs)
  && match flat_map (fun sc => match struct_deny sc with Some d => [d] | None => [] end) (xpayloads bs) with
     | [] => true
     | d :: r => forallb (Bool.eqb d) r
     end.

Fixpoint keys_sorted_b (l : list ustring) : bool :=
  match l with
  | a :: ((b :: _) as r) => ustr_ltb a b && keys_sorted_b r
  | _ => true
  end.

(* the non-null arm of an Option union: not nullable, not null, not itself such a union *)
Definition opt_arm_ok (x : schema) : bool :=
  match classify_s x with
  | Some (false, KNull) | Some (false, KOpt) => false
  | Some (false, _) => true
  | _ => false
  end.

(* the theorems of Props/C0xF.v cover the unions written with "oneOf" so far; "anyOf" is in the model and K3 (frag_w) *)
Definition proved_union (anyo : option (list schema)) : bool := true.

(* the taggings the theorems of Props/C0xF.v cover so far (the model and K3 cover all of them: frag_w) *)
Definition proved_tag (tg : tagty) : bool :=
  match tg with _ => true end.

Fixpoint variant_n_names (i : nat) (l : list schema) {struct l} : list ustring :=
  match l with
  | [] => []
  | _ :: r => (s_Variant ++ ulit (show_N (N.of_nat i))) :: variant_n_names (S i) r
  end.

(* an arm of an untagged oneOf of the fragment: a plain, non-null scalar *)
Definition scalar_kind (b : schema) : bool :=
  match classify_s b with
  | Some (false, KBool) | Some (false, KStr) | Some (false, KNum) | Some (false, KInt _) => true
  | _ => false
  end.

(* the raw variant names, in branch order *)
Definition variant_names (tg : tagty) (bs : list schema) : option (list ustring) :=
  match tg with
  | TagExternal => xall_names bs
  | TagAdjacent t _ | TagInternal t =>
      opt_all_map (fun b => match assoc t (sch_props b) with Some ts => cstr ts | None => None end) bs
  | TagUntagged => Some (variant_n_names 0%nat bs)
  end.

(* the tag schema in the form the validators read: {"type":"string","enum":[x]} and nothing else *)
Definition tag_plain (ts : schema) : bool :=
  match ts with
  | SObj (Some [TString]) None (Some [JStr _]) None nv sv ItemsAbsent [] None None None false [] [] None None None None None
         None None None None None => numv_is_none nv && strv_is_none sv
  | _ => false
  end.

(* payload conditions for a list of payload schemas (see payloads_ok) *)
Definition payloads_ok_l (L : list schema) : bool :=
  forallb (fun sc => match classify_s sc with Some (false, KNull) => false | _ => true end) L
  && match flat_map (fun sc => match struct_deny sc with Some d => [d] | None => [] end) L with
     | [] => true
     | d :: r => forallb (Bool.eqb d) r
     end.

Definition contents (ct : ustring) (bs : list schema) : list schema :=
  flat_map (fun b => match assoc ct (sch_props b) with Some sc => [sc] | None => [] end) bs.

(* conditions on the branches of a tagged oneOf beyond the shape test of the converter:
   * adjacent: every branch closed and requiring all its members (an open branch, or an optional content,
     is valid for objects the enum rejects: the shape of finding C02-F2), the tag in plain form, the
     contents as the payloads of an external enum;
   * internal: the tag in plain form, required names all declared, members sorted / distinct identifiers
     as for a struct, no optional tagged-oneOf member, and the branches all closed or all open (the flag
     is the enum's: a mix is finding C02-F1). *)
Definition branches_ok (cls : Heck.CharClasses) (tg : tagty) (bs : list schema) : bool :=
  match tg with
  | TagExternal => payloads_ok bs
  | TagAdjacent t c =>
      forallb (fun b => match tobj b with
                        | Some (props, req, closed) =>
                            closed && forallb (fun kv => mem_ustr (fst kv) req) props
                            && forallb (fun r => has_key r props) req
                            && match assoc t props with Some ts => tag_plain ts | None => false end
                            && forallb (fun kv => ustr_eqb (fst kv) t || ustr_eqb (fst kv) c) props
                            && keys_sorted_b (map fst props) && (length props <=? 2)%nat
                        | None => false
                        end) bs
      && negb (ustr_eqb t c)
      && payloads_ok_l (contents c bs)
  | TagInternal t =>
      forallb (fun b => match tobj b with
                        | Some (props, req, closed) =>
                            let rest := filter (fun kv => negb (ustr_eqb (fst kv) t)) props in
                            match assoc t props with Some ts => tag_plain ts | None => false end
                            && mem_ustr t req
                            && forallb (fun r => has_key r props) req
                            && keys_sorted_b (map fst props)
                            && Sanitize.unique (map (fun kv => fst (Sanitize.recase cls (fst kv) Sanitize.Snake)) rest)
                            && forallb (fun kv => mem_ustr (fst kv) req || negb (is_one (snd kv))) rest
                        | None => false
                        end) bs
      && match bs with
         | [] => true
         | b0 :: r => forallb (fun b => Bool.eqb (match sch_additional_props b0 with Some (SBool false) => true | _ => false end)
                                                 (match sch_additional_props b with Some (SBool false) => true | _ => false end)) r
         end
  | TagUntagged =>
      (* scalar arms of pairwise different JSON types, none of them null (Check/Exact.v reads a null branch
         as a nullable union); integer next to number is left out too (an integer is valid for both) *)
      match opt_all_map scalar_arm bs with
      | Some tys =>
          negb (existsb (itype_eqb TNull) tys)
          && (fix nd (l : list itype) : bool :=
                match l with [] => true | x :: r => negb (existsb (itype_eqb x) r) && nd r end) tys
          && negb (existsb (itype_eqb TInteger) tys && existsb (itype_eqb TNumber) tys)
          && forallb scalar_kind bs
      | None => false
      end
  end.

Section Frag.
  Variable cls : Heck.CharClasses.
  Variable keys : list ustring.        (* definition names *)

  (* names of the named types (struct, enum) created while converting [s]
     under the name [nm], the type of [s] itself first *)
  Definition own_names (nm : name) (k : kind) : list ustring :=
    match k with
    | KEnum _ | KStruct _ | KStrC _ _ _ | KOne _ => match type_name cls nm with Some n => [n] | None => [] end
    | _ => []
    end.

  Fixpoint names_of (s : schema) {struct s} : name -> list ustring :=
    match s with
    | SBool _ => fun _ => []
    | SObj ty fmt enum cst nv sv ik items ai mni mxi uq props req ap mnp mxp allo anyo oneo no ref dflt title =>
        fun nm =>
        match classify ty fmt enum cst nv sv ik items ai mni mxi uq props req ap mnp mxp allo anyo oneo no ref dflt title with
        | None => []
        | Some (nl, k) =>
            let nm' := if nl then inner_name nm else nm in
            own_names nm' k ++
            match k with
            | KStruct _ =>
                match type_name cls nm' with
                | Some base => flat_map (fun kv => names_of (snd kv) (prop_type_name cls base (fst kv))) props
                | None => []
                end
            | KMap => match ap with Some vs => names_of vs (value_name nm') | None => [] end
            | KVec c => flat_map (fun it => names_of it (seq_item_name cls c nm')) items
            | KTuple =>
                (fix go (l : list schema) (i : nat) {struct l} : list ustring :=
                   match l with
                   | [] => []
                   | it :: r => names_of it (idx_name nm' i) ++ go r (S i)
                   end) items 0%nat
            | KOpt =>
                match union_of oneo anyo with
                | Some (a :: b :: nil) => if nullish a then names_of b (inner_name nm') else names_of a (inner_name nm')
                | _ => []
                end
            | KOne tg =>
                (* the payloads / members below the branches (a dissolved struct's own name is listed
                   although the struct itself never gets an id: it only asks for one more fresh name) *)
                match union_of oneo anyo with
                | Some bs =>
                    (fix go (l : list schema) {struct l} : list ustring :=
                       match l with
                       | [] => []
                       | b :: r => branch_fold cls tg nm' names_of (@app ustring) [] b ++ go r
                       end) bs
                | None => []
                end
            | _ => []
            end
        end
    end.

  (* field identifiers of a struct, before sorting *)
  Definition field_idents (props : list (ustring * schema)) : list ustring :=
    map (fun kv => fst (Sanitize.recase cls (fst kv) Sanitize.Snake)) props.

  Fixpoint keys_sorted (l : list ustring) : bool :=
    match l with
    | a :: ((b :: _) as r) => ustr_ltb a b && keys_sorted r
    | _ => true
    end.

  (* [top]: the schema of a definition or an array item / map value / property;
     `true` is accepted only as additionalProperties (see notes/Convert.md) *)
  Fixpoint frag (s : schema) {struct s} : bool :=
    match s with
    | SBool _ => false
    | SObj ty fmt enum cst nv sv ik items ai mni mxi uq props req ap mnp mxp allo anyo oneo no ref dflt title =>
        match classify ty fmt enum cst nv sv ik items ai mni mxi uq props req ap mnp mxp allo anyo oneo no ref dflt title with
        | None => false
        | Some (_, k) =>
            match k with
            | KEnum raws =>
                match Sanitize.variant_idents cls raws with Sanitize.Ok _ => true | _ => false end
            | KStrC mx mn pat => strc_ok mx mn pat
            | KStruct _ =>
                keys_sorted (map fst props)
                && forallb (fun r => has_key r props) req
                && Sanitize.unique (field_idents props)
                (* an OPTIONAL member whose schema is a tagged oneOf becomes Option<enum>; the validators
                   Check/Covers.v and Check/Exact.v compare every branch of a union with the inner type of
                   an Option, which a tagged enum does not pass branch by branch: left out (a limitation of
                   the validators, not of the converter) *)
                && forallb (fun kv => mem_ustr (fst kv) req || negb (is_one (snd kv))) props
                && forallb (fun kv => frag (snd kv)) props
            | KMap =>
                match ap with
                | Some (SBool true) | None => true
                | Some vs => frag vs
                end
            | KVec _ | KTuple => forallb frag items
            | KRef r => mem_ustr r keys
            | KOpt =>
                (* the arm in the fragment, not itself nullable / an Option / null *)
                proved_union anyo &&
                match union_of oneo anyo with
                | Some (a :: b :: nil) =>
                    if nullish a then opt_arm_ok b && frag b else opt_arm_ok a && frag a
                | _ => false
                end
            | KOne tg =>
                proved_union anyo &&
                match union_of oneo anyo with
                | Some bs =>
                    match variant_names tg bs with
                    | Some names => match Sanitize.variant_idents cls names with Sanitize.Ok _ => true | _ => false end
                    | None => false
                    end
                    && branches_ok cls tg bs
                    && (fix go (l : list schema) {struct l} : bool :=
                          match l with
                          | [] => true
                          | b :: r => branch_fold cls tg (NRequired []) (fun sc _ => frag sc) andb true b && go r
                          end) bs
                    && proved_tag tg
                | None => false
                end
            | _ => true
            end
        end
    end.

  (* the same with every tagging the MODEL covers (what K3 compares; no theorem is about frag_w);
     `true` is accepted only as additionalProperties (see notes/Convert.md) *)
  Fixpoint frag_w (s : schema) {struct s} : bool :=
    match s with
    | SBool _ => false
    | SObj ty fmt enum cst nv sv ik items ai mni mxi uq props req ap mnp mxp allo anyo oneo no ref dflt title =>
        match classify ty fmt enum cst nv sv ik items ai mni mxi uq props req ap mnp mxp allo anyo oneo no ref dflt title with
        | None => false
        | Some (_, k) =>
            match k with
            | KEnum raws =>
                match Sanitize.variant_idents cls raws with Sanitize.Ok _ => true | _ => false end
            | KStrC mx mn pat => strc_ok mx mn pat
            | KStruct _ =>
                keys_sorted (map fst props)
                && forallb (fun r => has_key r props) req
                && Sanitize.unique (field_idents props)
                (* an OPTIONAL member whose schema is a tagged oneOf becomes Option<enum>; the validators
                   Check/Covers.v and Check/Exact.v compare every branch of a union with the inner type of
                   an Option, which a tagged enum does not pass branch by branch: left out (a limitation of
                   the validators, not of the converter) *)
                && forallb (fun kv => mem_ustr (fst kv) req || negb (is_one (snd kv))) props
                && forallb (fun kv => frag_w (snd kv)) props
            | KMap =>
                match ap with
                | Some (SBool true) | None => true
                | Some vs => frag_w vs
                end
            | KVec _ | KTuple => forallb frag_w items
            | KRef r => mem_ustr r keys
            | KOpt =>
                (* the arm in the fragment, not itself nullable / an Option / null *)
                match union_of oneo anyo with
                | Some (a :: b :: nil) =>
                    if nullish a then opt_arm_ok b && frag_w b else opt_arm_ok a && frag_w a
                | _ => false
                end
            | KOne tg =>
                match union_of oneo anyo with
                | Some bs =>
                    match variant_names tg bs with
                    | Some names => match Sanitize.variant_idents cls names with Sanitize.Ok _ => true | _ => false end
                    | None => false
                    end
                    && branches_ok cls tg bs
                    && (fix go (l : list schema) {struct l} : bool :=
                          match l with
                          | [] => true
                          | b :: r => branch_fold cls tg (NRequired []) (fun sc _ => frag_w sc) andb true b && go r
                          end) bs
                | None => false
                end
            | _ => true
            end
        end
    end.
End Frag.

(* references reached without passing through an array or a map (Vec / map
   values are heap indirections: cycles.rs only follows by-value containment) *)
Fixpoint byval_refs (s : schema) {struct s} : list ustring :=
  match s with
  | SBool _ => []
  | SObj ty fmt enum cst nv sv ik items ai mni mxi uq props req ap mnp mxp allo anyo oneo no ref dflt title =>
      match classify ty fmt enum cst nv sv ik items ai mni mxi uq props req ap mnp mxp allo anyo oneo no ref dflt title with
      | Some (_, KRef r) => [r]
      | Some (_, KStruct _) => flat_map (fun kv => byval_refs (snd kv)) props
      | Some (_, KVec (CArr _)) | Some (_, KTuple) => flat_map byval_refs items      (* [T; n] contains T by value (cycles.rs:169) *)
      | Some (_, KOpt) =>
          match union_of oneo anyo with
          | Some (a :: b :: nil) => if nullish a then byval_refs b else byval_refs a
          | _ => []
          end
      | Some (_, KOne tg) =>              (* the variants' data is held by value *)
          match union_of oneo anyo with
          | Some bs =>
              (fix go (l : list schema) {struct l} : list ustring :=
                 match l with
                 | [] => []
                 | b :: r => branch_fold Sanitize.ascii_classes tg (NRequired []) (fun sc _ => byval_refs sc) (@app ustring) [] b ++ go r
                 end) bs
          | None => []
          end
      | _ => []
      end
  end.

Fixpoint no_cycle_from (fuel : nat) (D : defs) (path : list ustring) (r : ustring) : bool :=
  match fuel with
  | O => false
  | S f =>
      if mem_ustr r path then false else
      match assoc r D with
      | None => false
      | Some s => forallb (no_cycle_from f D (r :: path)) (byval_refs s)
      end
  end.

Definition byval_acyclic (D : defs) : bool :=
  forallb (fun kv => no_cycle_from (S (length D)) D [] (fst kv)) D.

(* all type names the conversion of the document creates *)
Definition def_all_names (cls : Heck.CharClasses) (kv : ustring * schema) : list ustring :=
  let n := Sanitize.sanitize cls (fst kv) Sanitize.Pascal in
  match names_of cls (snd kv) (NRequired (fst kv)) with
  | m :: r => if match classify_s (snd kv) with
                 | Some (false, KEnum _) | Some (false, KStruct _) | Some (false, KStrC _ _ _)
                 | Some (false, KOne _) => true
                 | _ => false
                 end
              then m :: r            (* the definition itself is the struct/enum/newtype: m = n *)
              else n :: m :: r
  | [] => [n]
  end.

Definition all_names (cls : Heck.CharClasses) (D : defs) : list ustring :=
  flat_map (def_all_names cls) D.

Definition mem_N (c : N) (k : ustring) : bool := existsb (N.eqb c) k.
Definition def_key_ok (k : ustring) : bool :=
  negb (mem_N c_slash k) && negb (ustr_eqb k root_key).

(* THE fragment *)
Definition in_frag (cls : Heck.CharClasses) (D : defs) : bool :=
  keys_sorted (map fst D)
  && forallb (fun kv => def_key_ok (fst kv)) D
  && forallb (fun kv => frag cls (map fst D) (snd kv)) D
  && Sanitize.unique (all_names cls D)
  && byval_acyclic D.

(* the documents K3 compares: in_frag with every modelled tagging *)
Definition in_frag_w (cls : Heck.CharClasses) (D : defs) : bool :=
  keys_sorted (map fst D)
  && forallb (fun kv => def_key_ok (fst kv)) D
  && forallb (fun kv => frag_w cls (map fst D) (snd kv)) D
  && Sanitize.unique (all_names cls D)
  && byval_acyclic D.

(* ------------------------------------------------------------------ side condition of C05 on the fragment
   `{"type": ["string","null"], "enum": [strings]}` becomes Option<enum>, which
   accepts `null` although `null` is not one of the enumerated values
   (convert.rs:63-116 keeps "null" in the type and drops it from nothing): the
   C05 validator Check/Exact.v refuses that shape (rightly).  Documents without
   it: *)
(* Second shape the C05 validator refuses: a oneOf with ONE typed branch {V: S} whose payload S is a
   one-string enum / const looks like a tagged union keyed on V (Check/Exact.v common_tag); the
   converter makes it an externally tagged enum with the single variant V. *)
Definition pins (sc : schema) : bool :=
  match sch_enum sc, sch_const sc with
  | Some [JStr _], None => true
  | None, Some (JStr _) => true
  | _, _ => false
  end.
Definition no_pinned (bs : list schema) : bool :=
  match bs with
  | [b] => match xtyped b with Some (_, sc) => negb (pins sc) | None => true end
  | _ => true
  end.

Fixpoint no_nullable_enum (s : schema) {struct s} : bool :=
  match s with
  | SBool _ => true
  | SObj ty fmt enum cst nv sv ik items ai mni mxi uq props req ap mnp mxp allo anyo oneo no ref dflt title =>
      match classify ty fmt enum cst nv sv ik items ai mni mxi uq props req ap mnp mxp allo anyo oneo no ref dflt title with
      | Some (true, KEnum _) => false
      | Some (_, KStruct _) => forallb (fun kv => no_nullable_enum (snd kv)) props
      | Some (_, KMap) => match ap with Some vs => no_nullable_enum vs | None => true end
      | Some (_, KVec _) | Some (_, KTuple) => forallb no_nullable_enum items
      | Some (_, KOne _) => match union_of oneo anyo with Some bs => no_pinned bs | None => true end
      | Some (_, KOpt) =>
          match union_of oneo anyo with
          | Some (a :: b :: nil) => if nullish a then no_nullable_enum b else no_nullable_enum a
          | _ => true
          end
      | _ => true
      end
  end.

Definition in_frag_exact (cls : Heck.CharClasses) (D : defs) : bool :=
  in_frag cls D && forallb (fun kv => no_nullable_enum (snd kv)) D.
