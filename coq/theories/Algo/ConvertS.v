(* Algo/ConvertS.v -- the converter model of Algo/Convert.v under SETTINGS
   (property C14): replacements, schema conversions, patches.  DEFINITIONS ONLY;
   lemmas in Proofs/ConvertSProofs.v, theorems in Props/C14F.v, report in
   notes/Convert.md.  Tied to the real code by py/convert_check.py (documents x
   settings assignments: exact equality with the `verif_dump` of the real run).

   Rust                                                    model
   lib.rs:439-505  with_replacement / with_patch /          csettings (association lists; a key is
                   with_conversion                          listed once: BTreeMap / the generators)
   conversions.rs  SchemaCache::insert / lookup             strip, schema_eqb, cache_lookup
                   (without_metadata: recursive, a0b7480)
   convert.rs:35-40 convert_schema: cache before dispatch   conv_s (whole schema), and again on the
   convert.rs:88-102 convert_option on the non-null schema  non-null part of `type: [T, "null"]` (null_inner)
   lib.rs:655-713  add_ref_types_impl: replaced definition  conv_defs_s (Native entry at the id of the
                   -> TypeEntry::new_native, not converted  definition; its schema is never looked at)
   lib.rs:734-795  convert_ref_type, Native name_match      conv_def_s
   util.rs:803-814 type_patch at the six named-entry         apply_patches: a POST-PASS over the finished
                   constructors (type_entry.rs)              space (rename + derives per named entry).
                   Equal to patching at creation when the original and the patched names are pairwise
                   distinct (in_frag_s): name_to_id is keyed by the patched name, but ids / de-duplication
                   then do not depend on which of the two injective namings is used; names of sub-types are
                   derived from the UNPATCHED `Name` handed down (structs.rs:59, convert.rs:1838).  With
                   colliding patched names the real code reuses ids by name (finding C02-F3) or answers
                   InvalidSchema (lib.rs batch_names / created_names); the model answers None.
   The children of every node are converted by the SAME function ([conv_s] is passed to
   Convert.conv_node as [cv]): every type position goes through the cache lookup. *)
From Coq Require Import String Ascii ZArith NArith QArith List Bool.
From Typify Require Import Base.Json Spec.Schema Spec.Valid IR.TypeIR.
From Typify Require Algo.Heck Algo.Sanitize.
From Typify Require Import Algo.Convert.
Import ListNotations.
Close Scope Q_scope.
Close Scope string_scope.
Open Scope list_scope.
Open Scope N_scope.

Record csettings := mkCs {
  cs_replace : list (ustring * (ustring * list trait));            (* type name -> (Rust type, impls) *)
  cs_convert : list (schema * (ustring * list trait));             (* in insertion order: first match wins *)
  cs_patch : list (ustring * (option ustring * list ustring)) }.   (* type name -> (rename, derives) *)

Definition no_settings : csettings := mkCs [] [] [].

(* ------------------------------------------------------------------ schemas modulo annotations *)
(* conversions.rs without_metadata: metadata (title, default; description etc. are not in the AST)
   removed in the schema and in every subschema *)
Fixpoint strip (s : schema) {struct s} : schema :=
  match s with
  | SBool b => SBool b
  | SObj ty fmt enum cst nv sv ik items ai mni mxi uq props req ap mnp mxp allo anyo oneo no ref _ _ =>
      SObj ty fmt enum cst nv sv ik (map strip items) (option_map strip ai) mni mxi uq
           (map (fun kv => (fst kv, strip (snd kv))) props) req (option_map strip ap) mnp mxp
           (option_map (map strip) allo) (option_map (map strip) anyo) (option_map (map strip) oneo)
           (option_map strip no) ref None None
  end.

Definition opt_eqb {A} (eq : A -> A -> bool) (a b : option A) : bool :=
  match a, b with
  | None, None => true
  | Some x, Some y => eq x y
  | _, _ => false
  end.

Definition list_eqb {A} (eq : A -> A -> bool) : list A -> list A -> bool :=
  fix go (l m : list A) {struct l} : bool :=
    match l, m with
    | [], [] => true
    | x :: l', y :: m' => eq x y && go l' m'
    | _, _ => false
    end.

Definition ik_eqb (a b : items_kind) : bool :=
  match a, b with
  | ItemsAbsent, ItemsAbsent | ItemsSingle, ItemsSingle | ItemsTuple, ItemsTuple => true
  | _, _ => false
  end.

Definition numv_eqb (a b : numv) : bool :=
  opt_eqb Qeq_bool (n_multiple_of a) (n_multiple_of b) && opt_eqb Qeq_bool (n_maximum a) (n_maximum b)
  && opt_eqb Qeq_bool (n_exclusive_maximum a) (n_exclusive_maximum b) && opt_eqb Qeq_bool (n_minimum a) (n_minimum b)
  && opt_eqb Qeq_bool (n_exclusive_minimum a) (n_exclusive_minimum b).

Definition strv_eqb (a b : strv) : bool :=
  opt_eqb N.eqb (s_max_length a) (s_max_length b) && opt_eqb N.eqb (s_min_length a) (s_min_length b)
  && opt_eqb ustr_eqb (s_pattern a) (s_pattern b).

(* derived PartialEq of SchemaObject, on the AST *)
Fixpoint schema_eqb (a b : schema) {struct a} : bool :=
  match a, b with
  | SBool x, SBool y => Bool.eqb x y
  | SObj ty fmt enum cst nv sv ik items ai mni mxi uq props req ap mnp mxp allo anyo oneo no ref dflt title,
    SObj ty' fmt' enum' cst' nv' sv' ik' items' ai' mni' mxi' uq' props' req' ap' mnp' mxp' allo' anyo' oneo' no' ref' dflt' title' =>
      opt_eqb (list_eqb itype_eqb) ty ty' && opt_eqb ustr_eqb fmt fmt' && opt_eqb (list_eqb json_eqb) enum enum'
      && opt_eqb json_eqb cst cst' && numv_eqb nv nv' && strv_eqb sv sv' && ik_eqb ik ik'
      && list_eqb schema_eqb items items' && opt_eqb schema_eqb ai ai'
      && opt_eqb N.eqb mni mni' && opt_eqb N.eqb mxi mxi' && Bool.eqb uq uq'
      && list_eqb (fun p q => ustr_eqb (fst p) (fst q) && schema_eqb (snd p) (snd q)) props props'
      && list_eqb ustr_eqb req req' && opt_eqb schema_eqb ap ap'
      && opt_eqb N.eqb mnp mnp' && opt_eqb N.eqb mxp mxp'
      && opt_eqb (list_eqb schema_eqb) allo allo' && opt_eqb (list_eqb schema_eqb) anyo anyo'
      && opt_eqb (list_eqb schema_eqb) oneo oneo' && opt_eqb schema_eqb no no'
      && opt_eqb ustr_eqb ref ref' && opt_eqb json_eqb dflt dflt' && opt_eqb ustr_eqb title title'
  | _, _ => false
  end.

Section Settings.
  Variable cls : Heck.CharClasses.
  Variable S : csettings.

  (* SchemaCache::lookup (only schema OBJECTS are looked up: convert.rs:35) *)
  Definition cache_lookup (s : schema) : option details :=
    match s with
    | SBool _ => None
    | SObj _ _ _ _ _ _ _ _ _ _ _ _ _ _ _ _ _ _ _ _ _ _ _ _ =>
        match find (fun c => schema_eqb (strip s) (strip (fst c))) (cs_convert S) with
        | Some c => Some (DNative (fst (snd c)) (snd (snd c)) [])
        | None => None
        end
    end.

  (* the non-null part of `type: [T, "null"]` as convert.rs:81-92 builds it *)
  Definition null_inner (s : schema) : option schema :=
    match s with
    | SBool _ => None
    | SObj ty fmt enum cst nv sv ik items ai mni mxi uq props req ap mnp mxp allo anyo oneo no ref dflt title =>
        match ty with
        | Some l =>
            match split_type l with
            | Some (true, t0) =>
                Some (SObj (Some [t0]) fmt
                           (option_map (filter (fun v => match v with JNull => false | _ => true end)) enum)
                           cst nv sv ik items ai mni mxi uq props req ap mnp mxp allo anyo oneo no ref dflt title)
            | _ => None
            end
        | None => None
        end
    end.

  Section WithRefs.
    Variable rid : ustring -> option id.

    (* convert_schema under settings *)
    Fixpoint conv_s (s : schema) {struct s} : name -> st -> option (details * st) :=
      match s with
      | SBool true => fun _ s0 => Some (DJsonValue, set_json s0)
      | SBool false => fun _ _ => None
      | SObj ty fmt enum cst nv sv ik items ai mni mxi uq props req ap mnp mxp allo anyo oneo no ref dflt title =>
          fun nm s0 =>
          let whole := SObj ty fmt enum cst nv sv ik items ai mni mxi uq props req ap mnp mxp allo anyo oneo no ref dflt title in
          match cache_lookup whole with
          | Some d => Some (d, s0)
          | None =>
              match match null_inner whole with Some ss => cache_lookup ss | None => None end with
              | Some d => let '(i, s1) := assign d s0 in Some (DOption i, s1)
              | None =>
                  conv_node cls rid conv_s
                    (classify ty fmt enum cst nv sv ik items ai mni mxi uq props req ap mnp mxp allo anyo oneo no ref dflt title)
                    nm items props req ap (union_of oneo anyo) s0
              end
          end
      end.

    (* the last `::` segment of a Rust path (type_entry.rs:106) *)
    Fixpoint last_segment_aux (cur : ustring) (p : ustring) : ustring :=
      match p with
      | [] => rev cur
      | 58 :: 58 :: r => last_segment_aux [] r
      | c :: r => last_segment_aux (c :: cur) r
      end.
    Definition last_segment (p : ustring) : ustring := last_segment_aux [] p.

    (* convert_ref_type *)
    Definition conv_def_s (d : ustring) (s : schema) (t : id) (s0 : st) : option st :=
      match conv_s s (NRequired d) s0 with
      | None => None
      | Some (te, s1) =>
          let n := Sanitize.sanitize cls d Sanitize.Pascal in
          let store (ent : details) (s2 : st) : option st :=
            Some (mkSt (st_next s2) (put t (mkEntry ent []) (st_ents s2))
                       (match det_name ent with Some en => (en, t) :: st_names s2 | None => st_names s2 end)
                       (st_types s2) (st_flags s2)) in
          match te with
          | DEnum _ _ _ _ _ _ | DStruct _ _ _ _ | DNewtype _ _ _ _ => store te s1
          | DReference r => store (DNewtype n None r CNone) s1
          | DNative ty _ ps =>
              if negb (match ps with [] => true | _ => false end) || ustr_eqb d (last_segment ty)
              then store te s1
              else let '(i, s2) := assign te s1 in store (DNewtype n None i CNone) s2
          | _ => let '(i, s2) := assign te s1 in store (DNewtype n None i CNone) s2
          end
      end.

    Definition replaced (d : ustring) : option details :=
      match assoc (Sanitize.sanitize cls d Sanitize.Pascal) (cs_replace S) with
      | Some (ty, impls) => Some (DNative ty impls [])
      | None => None
      end.

    Fixpoint conv_defs_s (ds : list (ustring * schema)) (t : id) (s0 : st) : option st :=
      match ds with
      | [] => Some s0
      | (d, s) :: r =>
          match replaced d with
          | Some nat =>
              conv_defs_s r (t + 1)
                (mkSt (st_next s0) (put t (mkEntry nat []) (st_ents s0)) (st_names s0) (st_types s0) (st_flags s0))
          | None =>
              match conv_def_s d s t s0 with
              | None => None
              | Some s1 => conv_defs_s r (t + 1) s1
              end
          end
      end.
  End WithRefs.

  (* util.rs:803-814; the derives are collected into a BTreeSet (sorted, no repetition) *)
  Fixpoint ins_ustr (x : ustring) (l : list ustring) : list ustring :=
    match l with
    | [] => [x]
    | y :: r => if ustr_ltb x y then x :: l else if ustr_eqb x y then l else y :: ins_ustr x r
    end.
  Definition sort_set (l : list ustring) : list ustring := fold_right ins_ustr [] l.

  Definition type_patch (n : ustring) : ustring * list ustring :=
    match assoc n (cs_patch S) with
    | Some (rn, ds) => (match rn with Some r => r | None => n end, sort_set ds)
    | None => (n, [])
    end.

  Definition patch_entry (e : entry) : entry :=
    match e_det e with
    | DEnum n dv tag vs deny bes => let '(n', ds) := type_patch n in mkEntry (DEnum n' dv tag vs deny bes) ds
    | DStruct n dv ps deny => let '(n', ds) := type_patch n in mkEntry (DStruct n' dv ps deny) ds
    | DNewtype n dv t c => let '(n', ds) := type_patch n in mkEntry (DNewtype n' dv t c) ds
    | _ => e
    end.

  Definition apply_patches (T : space) : space :=
    mkSpace (map (fun ie => (fst ie, patch_entry (snd ie))) (sp_entries T)) (sp_next T) (sp_settings T)
            (sp_uses_chrono T) (sp_uses_uuid T) (sp_uses_serde_json T) (sp_uses_regress T) (sp_defaults T).

  Definition entry_names (T : space) : list ustring :=
    flat_map (fun ie => match det_name (e_det (snd ie)) with Some n => [n] | None => [] end) (sp_entries T).

  (* add_root_schema under settings *)
  Definition convert_doc_s (D : defs) : option space :=
    match conv_defs_s (ref_id D) D 1 (mkSt (1 + N.of_nat (length D)) [] [] [] (mkFlags false false)) with
    | Some s =>
        let T := apply_patches (space_of s) in
        if Sanitize.unique (entry_names T) then Some T else None
    | None => None
    end.

  (* ---------------------------------------------------------------- the fragment under settings
     [prune]: a subschema the cache answers (whole, or the non-null part of a nullable) is a leaf for the
     converter - nothing below it is converted, named or referenced; it is replaced by `{}` before the
     fragment predicate of Algo/Convert.v is applied.  Replaced definitions likewise. *)
  Definition hit (s : schema) : bool :=
    match cache_lookup s with
    | Some _ => true
    | None => match null_inner s with
              | Some ss => match cache_lookup ss with Some _ => true | None => false end
              | None => false
              end
    end.

  Fixpoint prune (s : schema) {struct s} : schema :=
    match s with
    | SBool b => SBool b
    | SObj ty fmt enum cst nv sv ik items ai mni mxi uq props req ap mnp mxp allo anyo oneo no ref dflt title =>
        if hit (SObj ty fmt enum cst nv sv ik items ai mni mxi uq props req ap mnp mxp allo anyo oneo no ref dflt title)
        then SAny
        else SObj ty fmt enum cst nv sv ik (map prune items) ai mni mxi uq
                  (map (fun kv => (fst kv, prune (snd kv))) props) req (option_map prune ap) mnp mxp
                  allo anyo oneo no ref dflt title
    end.

  (* a conversion answers for this node, or for some type position below it *)
  Fixpoint any_hit (s : schema) {struct s} : bool :=
    match s with
    | SBool _ => false
    | SObj ty fmt enum cst nv sv ik items ai mni mxi uq props req ap mnp mxp allo anyo oneo no ref dflt title =>
        hit (SObj ty fmt enum cst nv sv ik items ai mni mxi uq props req ap mnp mxp allo anyo oneo no ref dflt title)
        || existsb any_hit items
        || existsb (fun kv => any_hit (snd kv)) props
        || match ap with Some a => any_hit a | None => false end
        || match oneo with Some bs => existsb any_hit bs | None => false end
        || match anyo with Some bs => existsb any_hit bs | None => false end
    end.

  (* SIDE CONDITION of the model under settings: no conversion answers for an arm of a union ("oneOf" / "anyOf")
     or for a position below one.  There the native type becomes the data of an enum variant and the enum's
     bespoke impls (finalize: UntaggedFromStr / UntaggedDisplay ask the ARMS' types for FromStr / Display) depend
     on the impls configured for it; [mk_tagged] computes them for the unconverted arms.  A union that is
     answered AS A WHOLE is fine (it is pruned). *)
  Fixpoint union_hit_free (s : schema) {struct s} : bool :=
    match s with
    | SBool _ => true
    | SObj ty fmt enum cst nv sv ik items ai mni mxi uq props req ap mnp mxp allo anyo oneo no ref dflt title =>
        if hit (SObj ty fmt enum cst nv sv ik items ai mni mxi uq props req ap mnp mxp allo anyo oneo no ref dflt title)
        then true
        else forallb union_hit_free items
             && forallb (fun kv => union_hit_free (snd kv)) props
             && match ap with Some a => union_hit_free a | None => true end
             && match oneo with Some bs => negb (existsb any_hit bs) | None => true end
             && match anyo with Some bs => negb (existsb any_hit bs) | None => true end
    end.

  Definition prune_defs (D : defs) : defs :=
    map (fun kv => (fst kv, match replaced (fst kv) with Some _ => SAny | None => prune (snd kv) end)) D.

  Definition keys_unique {A} (l : list (ustring * A)) : bool := Sanitize.unique (map fst l).

  Definition in_frag_s (D : defs) : bool :=
    keys_unique (cs_replace S) && keys_unique (cs_patch S)
    && in_frag cls (prune_defs D)
    && forallb (fun kv => match replaced (fst kv) with Some _ => true | None => union_hit_free (snd kv) end) D
    && Sanitize.unique (map (fun n => fst (type_patch n)) (all_names cls (prune_defs D))).
End Settings.
