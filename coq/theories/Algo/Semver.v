(* C13 — semver 1.0.26 requirement matching (model) and Cargo's documented
   requirement semantics (specification).  Definitions only.

   MODEL (mirrors ~/.cargo/registry/.../semver-1.0.26/src):
     ident / pre / pre_compare   impls.rs:52-110  `impl Ord for Prerelease`
     matches_exact .. matches_caret, pre_is_compatible, matches_req
                                 eval.rs:3-181, same case order, every early
                                 `return` is an `if .. then .. else`
   A pre-release tag is the list of its dot separated identifiers; an
   identifier made of digits only is `INum n` (the parser rejects leading
   zeros, so "compare by length, then as strings" IS numeric comparison), every
   other identifier is `IAlnum bytes` compared as ASCII strings.  Build metadata
   is dropped by `VersionReq::parse` and ignored by every function of eval.rs.
   Numbers are `N` (u64 in Rust; no arithmetic is performed on them by eval.rs,
   so there is no overflow to model).

   SPECIFICATION (independent of the code, written from
   https://doc.rust-lang.org/cargo/reference/specifying-dependencies.html and
   the equivalence table in the documentation of `semver::Op`):
     desugar : comparator -> lower bound * upper bound
     sat_cargo r v := every comparator's interval contains v, and a
       pre-release v is only admitted when some comparator with the same
       major.minor.patch carries a pre-release tag itself.
   Upper bounds that the documentation writes as `<(I+1).0.0` etc. for caret,
   tilde, wildcard and partial versions are bounds on the release triple
   (`HiBelow`): `^1.2.3` never reaches `2.0.0-alpha`. *)
From Coq Require Import NArith List Bool.
Import ListNotations.
Open Scope N_scope.

(* ------------------------------------------------------------------ data *)

Inductive ident := INum (n : N) | IAlnum (s : list N).
Definition pre := list ident.

Record version := V { major : N; minor : N; patch : N; vpre : pre }.

Inductive op := Exact | Greater | GreaterEq | Less | LessEq | Tilde | Caret | Wildcard.

Record comparator := C {
  cop : op; cmajor : N; cminor : option N; cpatch : option N; cpre : pre }.

Definition req := list comparator.   (* VersionReq { comparators } ; `*` = [] *)

(* -------------------------------------------- impls.rs: Ord for Prerelease *)

(* Ord::cmp on &str: bytewise lexicographic, a proper prefix is smaller *)
Fixpoint bytes_compare (a b : list N) : comparison :=
  match a, b with
  | [], [] => Eq
  | [], _ :: _ => Lt
  | _ :: _, [] => Gt
  | x :: a', y :: b' => match x ?= y with Eq => bytes_compare a' b' | c => c end
  end.

(* impls.rs:78-93: the match on (lhs all digits, rhs all digits) *)
Definition ident_compare (a b : ident) : comparison :=
  match a, b with
  | INum x, INum y => x ?= y          (* (true,true): len, then string *)
  | INum _, IAlnum _ => Lt            (* (true,false) => Less *)
  | IAlnum _, INum _ => Gt            (* (false,true) => Greater *)
  | IAlnum x, IAlnum y => bytes_compare x y
  end.

(* impls.rs:66-109: the for loop over lhs with rhs.next() *)
Fixpoint idents_compare (a b : list ident) : comparison :=
  match a, b with
  | [], [] => Eq                      (* rhs.next().is_none() => Equal *)
  | [], _ :: _ => Lt                  (* else Less *)
  | _ :: _, [] => Gt                  (* None => return Greater *)
  | x :: a', y :: b' =>
      match ident_compare x y with Eq => idents_compare a' b' | c => c end
  end.

Definition pre_compare (a b : pre) : comparison :=
  match a, b with
  | [], [] => Eq                      (* ptr_eq: both EMPTY *)
  | [], _ :: _ => Gt                  (* a real release compares greater *)
  | _ :: _, [] => Lt
  | _, _ => idents_compare a b
  end.

(* derived PartialEq on the identifier text *)
Fixpoint bytes_eqb (a b : list N) : bool :=
  match a, b with
  | [], [] => true
  | x :: a', y :: b' => (x =? y) && bytes_eqb a' b'
  | _, _ => false
  end.

Definition ident_eqb (a b : ident) : bool :=
  match a, b with
  | INum x, INum y => x =? y
  | IAlnum x, IAlnum y => bytes_eqb x y
  | _, _ => false
  end.

Fixpoint pre_eqb (a b : pre) : bool :=
  match a, b with
  | [], [] => true
  | x :: a', y :: b' => ident_eqb x y && pre_eqb a' b'
  | _, _ => false
  end.

Definition pre_gt (a b : pre) : bool := match pre_compare a b with Gt => true | _ => false end.
Definition pre_lt (a b : pre) : bool := match pre_compare a b with Lt => true | _ => false end.
Definition pre_ge (a b : pre) : bool := match pre_compare a b with Lt => false | _ => true end.
Definition pre_is_empty (a : pre) : bool := match a with [] => true | _ => false end.

(* ------------------------------------------------------------- eval.rs *)

Definition matches_exact (c : comparator) (v : version) : bool :=
  if negb (major v =? cmajor c) then false else
  if (match cminor c with Some m => negb (minor v =? m) | None => false end) then false else
  if (match cpatch c with Some p => negb (patch v =? p) | None => false end) then false else
  pre_eqb (vpre v) (cpre c).

Definition matches_greater (c : comparator) (v : version) : bool :=
  if negb (major v =? cmajor c) then cmajor c <? major v else
  match cminor c with
  | None => false
  | Some m =>
    if negb (minor v =? m) then m <? minor v else
    match cpatch c with
    | None => false
    | Some p =>
      if negb (patch v =? p) then p <? patch v else
      pre_gt (vpre v) (cpre c)
    end
  end.

Definition matches_less (c : comparator) (v : version) : bool :=
  if negb (major v =? cmajor c) then major v <? cmajor c else
  match cminor c with
  | None => false
  | Some m =>
    if negb (minor v =? m) then minor v <? m else
    match cpatch c with
    | None => false
    | Some p =>
      if negb (patch v =? p) then patch v <? p else
      pre_lt (vpre v) (cpre c)
    end
  end.

Definition matches_tilde (c : comparator) (v : version) : bool :=
  if negb (major v =? cmajor c) then false else
  if (match cminor c with Some m => negb (minor v =? m) | None => false end) then false else
  match cpatch c with
  | Some p => if negb (patch v =? p) then p <? patch v else pre_ge (vpre v) (cpre c)
  | None => pre_ge (vpre v) (cpre c)
  end.

Definition matches_caret (c : comparator) (v : version) : bool :=
  if negb (major v =? cmajor c) then false else
  match cminor c with
  | None => true
  | Some m =>
    match cpatch c with
    | None => if 0 <? cmajor c then m <=? minor v else minor v =? m
    | Some p =>
      if 0 <? cmajor c then
        if negb (minor v =? m) then m <? minor v
        else if negb (patch v =? p) then p <? patch v
        else pre_ge (vpre v) (cpre c)
      else if 0 <? m then
        if negb (minor v =? m) then false
        else if negb (patch v =? p) then p <? patch v
        else pre_ge (vpre v) (cpre c)
      else if negb (minor v =? m) || negb (patch v =? p) then false
      else pre_ge (vpre v) (cpre c)
    end
  end.

Definition matches_impl (c : comparator) (v : version) : bool :=
  match cop c with
  | Exact | Wildcard => matches_exact c v
  | Greater => matches_greater c v
  | GreaterEq => matches_exact c v || matches_greater c v
  | Less => matches_less c v
  | LessEq => matches_exact c v || matches_less c v
  | Tilde => matches_tilde c v
  | Caret => matches_caret c v
  end.

Definition opt_is (o : option N) (x : N) : bool :=
  match o with Some y => y =? x | None => false end.

Definition pre_is_compatible (c : comparator) (v : version) : bool :=
  (cmajor c =? major v) && opt_is (cminor c) (minor v) && opt_is (cpatch c) (patch v)
  && negb (pre_is_empty (cpre c)).

(* eval.rs:3-24 *)
Definition matches_req (r : req) (v : version) : bool :=
  if negb (forallb (fun c => matches_impl c v) r) then false else
  if pre_is_empty (vpre v) then true else
  existsb (fun c => pre_is_compatible c v) r.

(* ---------------------------------------------------------------- SPEC *)

Definition triple := (N * N * N)%type.
Definition triple_of (v : version) : triple := (major v, minor v, patch v).

Definition tcompare (a b : triple) : comparison :=
  match a, b with
  | (a1, a2, a3), (b1, b2, b3) =>
    match a1 ?= b1 with
    | Eq => match a2 ?= b2 with Eq => a3 ?= b3 | c => c end
    | c => c
    end
  end.

(* semver.org section 11 precedence (pre-release tags by pre_compare) *)
Definition vcompare (v w : version) : comparison :=
  match tcompare (triple_of v) (triple_of w) with
  | Eq => pre_compare (vpre v) (vpre w)
  | c => c
  end.

Inductive lower := LoNone | LoIncl (w : version) | LoExcl (w : version).
Inductive upper := HiNone | HiBelow (t : triple) | HiExcl (w : version) | HiIncl (w : version).

Definition in_lower (v : version) (l : lower) : bool :=
  match l with
  | LoNone => true
  | LoIncl w => match vcompare v w with Lt => false | _ => true end
  | LoExcl w => match vcompare v w with Gt => true | _ => false end
  end.

Definition in_upper (v : version) (u : upper) : bool :=
  match u with
  | HiNone => true
  | HiBelow t => match tcompare (triple_of v) t with Lt => true | _ => false end
  | HiExcl w => match vcompare v w with Lt => true | _ => false end
  | HiIncl w => match vcompare v w with Gt => false | _ => true end
  end.

Definition R (i j k : N) : version := V i j k [].

(* the documented equivalences; I J K are the numbers written in the
   requirement, `p` its pre-release tag (only possible on a full version) *)
Definition desugar (c : comparator) : lower * upper :=
  let I := cmajor c in
  let p := cpre c in
  match cop c, cminor c, cpatch c with
  (* =I.J.K   exactly that version ; =I.J := >=I.J.0,<I.(J+1).0 ; =I := >=I.0.0,<(I+1).0.0 *)
  | Exact, Some J, Some K => (LoIncl (V I J K p), HiIncl (V I J K p))
  | Exact, Some J, None => (LoIncl (R I J 0), HiBelow (I, J + 1, 0))
  | Exact, None, _ => (LoIncl (R I 0 0), HiBelow (I + 1, 0, 0))
  (* >I.J.K ; >I.J := >=I.(J+1).0 ; >I := >=(I+1).0.0 *)
  | Greater, Some J, Some K => (LoExcl (V I J K p), HiNone)
  | Greater, Some J, None => (LoIncl (R I (J + 1) 0), HiNone)
  | Greater, None, _ => (LoIncl (R (I + 1) 0 0), HiNone)
  (* >=I.J.K ; >=I.J := >=I.J.0 ; >=I := >=I.0.0 *)
  | GreaterEq, Some J, Some K => (LoIncl (V I J K p), HiNone)
  | GreaterEq, Some J, None => (LoIncl (R I J 0), HiNone)
  | GreaterEq, None, _ => (LoIncl (R I 0 0), HiNone)
  (* <I.J.K ; <I.J := <I.J.0 ; <I := <I.0.0 *)
  | Less, Some J, Some K => (LoNone, HiExcl (V I J K p))
  | Less, Some J, None => (LoNone, HiBelow (I, J, 0))
  | Less, None, _ => (LoNone, HiBelow (I, 0, 0))
  (* <=I.J.K ; <=I.J := <I.(J+1).0 ; <=I := <(I+1).0.0 *)
  | LessEq, Some J, Some K => (LoNone, HiIncl (V I J K p))
  | LessEq, Some J, None => (LoNone, HiBelow (I, J + 1, 0))
  | LessEq, None, _ => (LoNone, HiBelow (I + 1, 0, 0))
  (* ~I.J.K := >=I.J.K,<I.(J+1).0 ; ~I.J := =I.J ; ~I := =I *)
  | Tilde, Some J, Some K => (LoIncl (V I J K p), HiBelow (I, J + 1, 0))
  | Tilde, Some J, None => (LoIncl (R I J 0), HiBelow (I, J + 1, 0))
  | Tilde, None, _ => (LoIncl (R I 0 0), HiBelow (I + 1, 0, 0))
  (* ^1.2.3 := >=1.2.3,<2.0.0 ; ^0.2.3 := >=0.2.3,<0.3.0 ; ^0.0.3 := >=0.0.3,<0.0.4
     ^1.2 := >=1.2.0,<2.0.0 ; ^0.2 := >=0.2.0,<0.3.0 ; ^0.0 := >=0.0.0,<0.1.0
     ^1 := >=1.0.0,<2.0.0 ; ^0 := >=0.0.0,<1.0.0 *)
  | Caret, Some J, Some K =>
      (LoIncl (V I J K p),
       HiBelow (if 0 <? I then (I + 1, 0, 0) else if 0 <? J then (0, J + 1, 0) else (0, 0, K + 1)))
  | Caret, Some J, None =>
      (LoIncl (R I J 0), HiBelow (if 0 <? I then (I + 1, 0, 0) else (0, J + 1, 0)))
  | Caret, None, _ => (LoIncl (R I 0 0), HiBelow (I + 1, 0, 0))
  (* I.J.* := >=I.J.0,<I.(J+1).0 ; I.* := >=I.0.0,<(I+1).0.0  ( * alone = no comparator ) *)
  | Wildcard, Some J, _ => (LoIncl (R I J 0), HiBelow (I, J + 1, 0))
  | Wildcard, None, _ => (LoIncl (R I 0 0), HiBelow (I + 1, 0, 0))
  end.

Definition in_range (c : comparator) (v : version) : bool :=
  in_lower v (fst (desugar c)) && in_upper v (snd (desugar c)).

(* "a pre-release version is only matched when specifically asked for": some
   comparator names the same major.minor.patch WITH a pre-release tag *)
Definition asks_prerelease (c : comparator) (v : version) : bool :=
  match cminor c, cpatch c, cpre c with
  | Some J, Some K, _ :: _ =>
      match tcompare (cmajor c, J, K) (triple_of v) with Eq => true | _ => false end
  | _, _, _ => false
  end.

Definition sat_cargo (r : req) (v : version) : bool :=
  forallb (fun c => in_range c v) r
  && (match vpre v with [] => true | _ :: _ => existsb (fun c => asks_prerelease c v) r end).

(* what `VersionReq::parse` can produce (parse.rs:262-352): a pre-release tag
   only on a full version, no patch without a minor, the Wildcard operator
   only on partial versions *)
Definition is_full (c : comparator) : bool :=
  match cminor c, cpatch c with Some _, Some _ => true | _, _ => false end.

Definition wf_comparator (c : comparator) : bool :=
  match cminor c, cpatch c with
  | Some _, Some _ => match cop c with Wildcard => false | _ => true end
  | Some _, None => pre_is_empty (cpre c)
  | None, None => pre_is_empty (cpre c)
  | None, Some _ => false
  end.

(* --------------------------------------------------- printing for the tie *)
From Coq Require Import String.
Definition show_bool (b : bool) : string := if b then "T"%string else "F"%string.

(* one line per requirement: matches_req then sat_cargo on each version *)
Definition show_req (r : req) (vs : list version) : string :=
  String.concat ""%string (map (fun v => show_bool (matches_req r v)) vs)
  ++ "|"%string ++
  String.concat ""%string (map (fun v => show_bool (sat_cargo r v)) vs)
  ++ "|"%string ++ show_bool (forallb wf_comparator r).

Definition show_cmp (c : comparison) : string :=
  match c with Eq => "="%string | Lt => "<"%string | Gt => ">"%string end.
