(* C12 — executable models of every place where typify holds a hash-ordered
   collection, of JSON object parsing through sorted maps, and of OutputSpace.
   DEFINITIONS ONLY (proofs: Proofs/HashOrderProofs.v).

   A std HashSet / HashMap is modelled by the LIST OF ITS ELEMENTS IN THE ORDER
   THE TABLE WOULD ENUMERATE THEM.  The hasher (RandomState keys, table growth)
   is an explicit argument [place]: it decides where a new element lands and
   may reshuffle the whole table; the only thing known about it is
   [Permutation (place x s) (x :: s)].  Every site function takes [place]. *)
From Coq Require Import List String Bool Arith NArith.
Import ListNotations.

(* ------------------------------------------------------------------ *)
(* inventory records (Gen/HashSites.v is a list of these)              *)
(* ------------------------------------------------------------------ *)
Record site := mk_site { s_file : string; s_fn : string; s_kind : string; s_cons : string }.

Definition site_eqb (a b : site) : bool :=
  String.eqb (s_file a) (s_file b) && String.eqb (s_fn a) (s_fn b) &&
  String.eqb (s_kind a) (s_kind b) && String.eqb (s_cons a) (s_cons b).

(* which order-irrelevance argument covers a site *)
Inductive site_class :=
| ClsImport          (* `use std::collections::Hash..`: no collection *)
| ClsTypeMention     (* a path naming the type at a site classified below *)
| ClsBinding         (* the `let` that binds the collection *)
| ClsStringLiteral   (* the text "HashMap" in a literal / doc comment: names the map type of GENERATED code *)
| ClsUniqueInsert    (* util.rs unique(): HashSet::insert inside Iterator::all *)
| ClsLenOnly         (* enums.rs variant_names: collect, then len() *)
| ClsSubset          (* util.rs object_schemas_mutually_exclusive: collect, then is_subset *)
| ClsCountsEntryGet  (* type_entry.rs counts: entry().and_modify().or_insert(), get() *)
| ClsSettingsInsert  (* macro patch/replace: HashMap iterated into BTreeMap::insert, keys injective *)
| ClsCratesInsert    (* macro crates: HashMap iterated into BTreeMap::insert, key = original name *)
| ClsEnvSchemaPath   (* macro: CARGO_MANIFEST_DIR / current_dir locate the schema file *)
| ClsFillingStack    (* value.rs FILLING: thread-local stack, push/pop bracketed by a drop guard; keys compared for equality only *)
| ClsHookOnly.       (* typify-impl/src/verif.rs, feature verif-hooks: not in the product *)

Definition St := mk_site.
Open Scope string_scope.

(* The whitelist: exactly the sites of the pinned tree, each with its class. *)
Definition known_sites : list (site * site_class) := [
  (St "typify-impl/src/enums.rs" "<top>" "HashSet" "import:std::collections::HashSet", ClsImport);
  (St "typify-impl/src/enums.rs" "TypeSpace::maybe_externally_tagged_enum" "HashSet" "path:HashSet", ClsTypeMention);
  (St "typify-impl/src/enums.rs" "TypeSpace::maybe_externally_tagged_enum" "HashSet" "bind:variant_names", ClsBinding);
  (St "typify-impl/src/enums.rs" "TypeSpace::maybe_externally_tagged_enum" "HashSet" "call:variant_names.len", ClsLenOnly);
  (St "typify-impl/src/lib.rs" "MapType::default" "HashMap" "lit:string-literal", ClsStringLiteral);
  (St "typify-impl/src/lib.rs" "TypeSpaceSettings::with_map_type" "HashMap" "lit:string-literal", ClsStringLiteral);
  (St "typify-impl/src/type_entry.rs" "<top>" "HashMap" "import:std::collections::HashMap", ClsImport);
  (St "typify-impl/src/type_entry.rs" "TypeEntryEnum::from_metadata" "HashMap" "path:HashMap::new", ClsTypeMention);
  (St "typify-impl/src/type_entry.rs" "TypeEntryEnum::from_metadata" "HashMap" "bind:counts", ClsBinding);
  (St "typify-impl/src/type_entry.rs" "TypeEntryEnum::from_metadata" "HashMap" "call:counts.entry.and_modify.or_insert", ClsCountsEntryGet);
  (St "typify-impl/src/type_entry.rs" "TypeEntryEnum::from_metadata" "HashMap" "call:counts.get.unwrap", ClsCountsEntryGet);
  (St "typify-impl/src/util.rs" "<top>" "HashSet" "import:std::collections::HashSet", ClsImport);
  (St "typify-impl/src/util.rs" "object_schemas_mutually_exclusive" "HashSet" "path:HashSet", ClsTypeMention);
  (St "typify-impl/src/util.rs" "object_schemas_mutually_exclusive" "HashSet" "bind:aa", ClsBinding);
  (St "typify-impl/src/util.rs" "object_schemas_mutually_exclusive" "HashSet" "bind:bb", ClsBinding);
  (St "typify-impl/src/util.rs" "object_schemas_mutually_exclusive" "HashSet" "call:aa.is_subset", ClsSubset);
  (St "typify-impl/src/util.rs" "object_schemas_mutually_exclusive" "HashSet" "ref:bb", ClsSubset);
  (St "typify-impl/src/util.rs" "object_schemas_mutually_exclusive" "HashSet" "call:bb.is_subset", ClsSubset);
  (St "typify-impl/src/util.rs" "object_schemas_mutually_exclusive" "HashSet" "ref:aa", ClsSubset);
  (St "typify-impl/src/util.rs" "unique" "HashSet" "path:HashSet::new", ClsTypeMention);
  (St "typify-impl/src/util.rs" "unique" "HashSet" "bind:unique", ClsBinding);
  (St "typify-impl/src/util.rs" "unique" "HashSet" "call:unique.insert", ClsUniqueInsert);
  (St "typify-impl/src/value.rs" "<top>" "thread" "macro:thread_local!", ClsFillingStack);
  (St "typify-impl/src/value.rs" "<top>" "thread" "static:FILLING", ClsFillingStack);
  (St "typify-impl/src/value.rs" "<top>" "state" "in-macro:thread_local:RefCell", ClsFillingStack);
  (St "typify-impl/src/value.rs" "<top>" "state" "in-macro:thread_local:new", ClsFillingStack);
  (St "typify-impl/src/value.rs" "FillingGuard::drop" "thread" "call:FILLING.with", ClsFillingStack);
  (St "typify-impl/src/value.rs" "value_for_struct_props" "pointer-address" "cast:*constserde_json::Value", ClsFillingStack);
  (St "typify-impl/src/value.rs" "value_for_struct_props" "thread" "call:FILLING.with", ClsFillingStack);
  (St "typify-macro/src/lib.rs" "<top>" "HashMap" "import:std::collections::HashMap", ClsImport);
  (St "typify-macro/src/lib.rs" "<struct MacroSettings>" "HashMap" "field:crates", ClsBinding);
  (St "typify-macro/src/lib.rs" "<struct MacroSettings>" "HashMap" "field:patch", ClsBinding);
  (St "typify-macro/src/lib.rs" "<struct MacroSettings>" "HashMap" "field:replace", ClsBinding);
  (St "typify-macro/src/lib.rs" "<struct MacroSettings>" "HashMap" "path:HashMap", ClsTypeMention);
  (St "typify-macro/src/lib.rs" "do_import_types" "HashMap" "call:patch.into_iter.for_each", ClsSettingsInsert);
  (St "typify-macro/src/lib.rs" "do_import_types" "HashMap" "call:patch.into", ClsSettingsInsert);
  (St "typify-macro/src/lib.rs" "do_import_types" "HashMap" "call:replace.into_iter.for_each", ClsSettingsInsert);
  (St "typify-macro/src/lib.rs" "do_import_types" "HashMap" "call:crates.into_iter.for_each", ClsCratesInsert);
  (St "typify-macro/src/lib.rs" "do_import_types" "env" "path:std::env::var", ClsEnvSchemaPath);
  (St "typify-macro/src/lib.rs" "do_import_types" "env" "path:std::env::current_dir", ClsEnvSchemaPath)
  (* typify-macro/src/token_utils.rs: the HashSet of into_name_and_impls was replaced by a BTreeSet in
     fix 9ffca46 (finding C12-F1); its six sites are no longer whitelisted: a HashSet re-introduced
     there is UNCOVERED (its Vec order is observable, see C12_macro_impls_hashset_regression_witness) *)
].
Close Scope string_scope.

(* typify-impl/src/verif.rs is the verification hook file (cargo feature `verif-hooks`, off in the
   product, add-only for all property builders): its thread-local / RefCell RECORDERS are covered
   wholesale as ClsHookOnly; any other kind there (a hash collection, env, time, rand) is not *)
Definition hook_only (s : site) : bool :=
  String.eqb (s_file s) "typify-impl/src/verif.rs"%string &&
  (String.eqb (s_kind s) "thread"%string || String.eqb (s_kind s) "state"%string).
Definition covered (s : site) : bool := hook_only s || existsb (fun k => site_eqb s (fst k)) known_sites.
Definition present (sites : list site) (k : site * site_class) : bool :=
  existsb (fun s => site_eqb s (fst k)) sites.

(* ------------------------------------------------------------------ *)
(* hash sets                                                           *)
(* ------------------------------------------------------------------ *)
Section HSet.
  Variable A : Type.
  Variable eqb : A -> A -> bool.

  Definition mem (x : A) (s : list A) : bool := existsb (eqb x) s.

  (* the hasher *)
  Variable place : A -> list A -> list A.

  (* HashSet::insert: true iff the value was not present *)
  Definition hs_insert (x : A) (s : list A) : bool * list A :=
    if mem x s then (false, s) else (true, place x s).

  (* HashSet::remove *)
  Definition hs_remove (x : A) (s : list A) : list A := filter (fun y => negb (eqb x y)) s.

  (* util.rs:781-788  items.into_iter().all(|item| unique.insert(item)) ; `all` short-circuits *)
  Fixpoint all_insert (items : list A) (s : list A) : bool :=
    match items with
    | [] => true
    | x :: r => let '(fresh, s') := hs_insert x s in if fresh then all_insert r s' else false
    end.
  Definition unique (items : list A) : bool := all_insert items [].

  (* iterator.collect::<HashSet<_>>() *)
  Definition hs_collect (items : list A) : list A :=
    fold_left (fun s x => snd (hs_insert x s)) items [].

  (* enums.rs:195-205  variant_names.len() != proto_variants.len()  => reject *)
  Definition variant_names_ok (names : list A) : bool :=
    Nat.eqb (List.length (hs_collect names)) (List.length names).
End HSet.

Section HSubset.
  Variable A : Type.
  Variable eqb : A -> A -> bool.
  (* std HashSet::is_subset: if self.len() <= other.len() { self.iter().all(|v| other.contains(v)) } else { false } *)
  Definition hs_is_subset (s o : list A) : bool :=
    if Nat.leb (List.length s) (List.length o) then forallb (fun v => mem A eqb v o) s else false.
  (* util.rs:363-379: aa, bb are two HashSets (each its own RandomState: two hashers) *)
  Definition fixed_props_exclusive (pa pb : A -> list A -> list A) (a_items b_items : list A) : bool :=
    let aa := hs_collect A eqb pa a_items in
    let bb := hs_collect A eqb pb b_items in
    negb (hs_is_subset aa bb) && negb (hs_is_subset bb aa).
End HSubset.

(* ------------------------------------------------------------------ *)
(* hash maps: type_entry.rs:272-287 (panic message for colliding variant names) *)
(* ------------------------------------------------------------------ *)
Section HMap.
  Variable K : Type.
  Variable eqb : K -> K -> bool.
  Variable placeM : K * nat -> list (K * nat) -> list (K * nat).

  Fixpoint hm_get (k : K) (m : list (K * nat)) : option nat :=
    match m with
    | [] => None
    | (k', v) :: r => if eqb k k' then Some v else hm_get k r
    end.
  Fixpoint hm_modify (k : K) (f : nat -> nat) (m : list (K * nat)) : list (K * nat) :=
    match m with
    | [] => []
    | (k', v) :: r => if eqb k k' then (k', f v) :: r else (k', v) :: hm_modify k f r
    end.
  (* counts.entry(k).and_modify(|x| *x += 1).or_insert(0) *)
  Definition hm_bump (k : K) (m : list (K * nat)) : list (K * nat) :=
    match hm_get k m with
    | Some _ => hm_modify k Datatypes.S m
    | None => placeM (k, 0) m
    end.
  Definition counts_of (idents : list K) : list (K * nat) :=
    fold_left (fun m k => hm_bump k m) idents [].
  (* variants: (ident_name, raw_name); the raw names whose ident occurs more than once,
     in VARIANT (Vec) order; `unwrap` on a missing key is the [None => false] that never happens *)
  Definition dup_raw_names {R : Type} (variants : list (K * R)) : list R :=
    let counts := counts_of (map fst variants) in
    map snd (filter (fun v : K * R => match hm_get (fst v) counts with Some c => Nat.ltb 0 c | None => false end) variants).
End HMap.

(* ------------------------------------------------------------------ *)
(* macro: impls HashSet -> Vec -> TypeEntryNative.impls                *)
(* ------------------------------------------------------------------ *)
Inductive timpl := IFromStr | IDisplay | IDefault.
Definition timpl_eqb (a b : timpl) : bool :=
  match a, b with IFromStr, IFromStr | IDisplay, IDisplay | IDefault, IDefault => true | _, _ => false end.

Definition timpl_rank (a : timpl) : nat := match a with IFromStr => 0 | IDisplay => 1 | IDefault => 2 end.
(* derive(Ord) on TypeSpaceImpl: declaration order FromStr < Display < Default (lib.rs:394-400) *)
Definition timpl_cmp (a b : timpl) : comparison := Nat.compare (timpl_rank a) (timpl_rank b).

(* BTreeSet<TypeSpaceImpl> as a strictly sorted list *)
Fixpoint bs_insert (x : timpl) (s : list timpl) : list timpl :=
  match s with
  | [] => [x]
  | y :: r => match timpl_cmp x y with Lt => x :: s | Eq => s | Gt => y :: bs_insert x r end
  end.
Definition bs_remove (x : timpl) (s : list timpl) : list timpl := filter (fun y => negb (timpl_eqb x y)) s.

(* token_utils.rs:22-47 (since fix 9ffca46): DEFAULT_IMPLS collected into a BTreeSet, listed impls
   inserted / `?`-removed, `into_iter()` (ascending).  modifiers: (true, i) = `i`, (false, i) = `?i`.
   No hasher argument any more: the Vec is a function of the macro input. *)
Definition macro_impls (mods : list (bool * timpl)) : list timpl :=
  fold_left (fun (s : list timpl) (m : bool * timpl) => if fst m then bs_insert (snd m) s else bs_remove (snd m) s)
            mods (fold_left (fun s x => bs_insert x s) [IFromStr; IDisplay] []).

(* the code BEFORE the fix (std HashSet with a hasher): kept only as the regression witness that
   explains why a HashSet at this site is not whitelisted *)
Definition macro_impls_hashset (place : timpl -> list timpl -> list timpl) (mods : list (bool * timpl)) : list timpl :=
  fold_left (fun (s : list timpl) (m : bool * timpl) => if fst m then snd (hs_insert timpl timpl_eqb place (snd m) s)
                        else hs_remove timpl timpl_eqb (snd m) s)
            mods (hs_collect timpl timpl_eqb place [IFromStr; IDisplay]).

(* the eight strictly sorted lists over the three impls *)
Definition all_sorted_impls : list (list timpl) :=
  [ []; [IFromStr]; [IDisplay]; [IDefault]; [IFromStr; IDisplay]; [IFromStr; IDefault]; [IDisplay; IDefault];
    [IFromStr; IDisplay; IDefault] ].

(* consumer 1: type_entry.rs:653  details.impls.contains(&impl_name) *)
Definition native_has_impl (impls : list timpl) (i : timpl) : bool := mem timpl timpl_eqb i impls.

(* consumer 2: TypeEntryNative derives PartialEq/Ord over (type_name, impls: Vec, parameters);
   lib.rs:955 `type_to_id.get(&ty.details)` de-duplicates unnamed entries by that ORDER-SENSITIVE equality *)
Fixpoint impls_eqb (a b : list timpl) : bool :=
  match a, b with
  | [], [] => true
  | x :: a', y :: b' => timpl_eqb x y && impls_eqb a' b'
  | _, _ => false
  end.
Definition native_eqb (a b : string * list timpl) : bool :=
  String.eqb (fst a) (fst b) && impls_eqb (snd a) (snd b).
(* assign_type for a sequence of unnamed native entries: ids by first structurally-equal entry *)
Fixpoint assign_natives (tbl : list (string * list timpl)) (es : list (string * list timpl)) : list nat :=
  match es with
  | [] => []
  | e :: r =>
      let fix idx (t : list (string * list timpl)) (i : nat) : option nat :=
        match t with [] => None | x :: t' => if native_eqb e x then Some i else idx t' (Datatypes.S i) end in
      match idx tbl 0 with
      | Some i => i :: assign_natives tbl r
      | None => List.length tbl :: assign_natives (tbl ++ [e]) r
      end
  end.
(* type_entry.rs:952-984: `impl From<T> for Enum` is emitted for a variant iff its type id is unique among the variants *)
Definition from_impl_variants (ids : list nat) : list nat :=
  filter (fun i => Nat.eqb (count_occ Nat.eq_dec ids i) 1) ids.

(* two valid hashers used as witnesses *)
Definition place_front {A} (x : A) (s : list A) : list A := x :: s.
Definition place_back {A} (x : A) (s : list A) : list A := s ++ [x].

(* ------------------------------------------------------------------ *)
(* sorted maps (BTreeMap)                                              *)
(* ------------------------------------------------------------------ *)
Section SMap.
  Variable K : Type.
  Variable cmp : K -> K -> comparison.
  Variable V : Type.

  (* entry(k): None -> insert f None ; Some old -> replace by f (Some old) *)
  Fixpoint sm_upsert (k : K) (f : option V -> V) (m : list (K * V)) : list (K * V) :=
    match m with
    | [] => [(k, f None)]
    | (k', v') :: r =>
        match cmp k k' with
        | Lt => (k, f None) :: m
        | Eq => (k', f (Some v')) :: r
        | Gt => (k', v') :: sm_upsert k f r
        end
    end.
  Fixpoint sm_get (k : K) (m : list (K * V)) : option V :=
    match m with
    | [] => None
    | (k', v') :: r => match cmp k k' with Eq => Some v' | _ => sm_get k r end
    end.
  (* BTreeMap::insert *)
  Definition sm_insert (k : K) (v : V) (m : list (K * V)) : list (K * V) := sm_upsert k (fun _ => v) m.
  (* a sequence of inserts in the given order, as serde's map visitor / a for_each does *)
  Definition sm_of_list (l : list (K * V)) : list (K * V) :=
    fold_left (fun m kv => sm_insert (fst kv) (snd kv) m) l [].
End SMap.

(* JSON object parsing: serde_json::Map / schemars::Map are BTreeMap<String, _>
   (features preserve_order OFF, checked on every run); the visitor inserts the
   members in document order, a later duplicate key replaces the earlier one. *)
Definition parse_obj {V : Type} (kvs : list (string * V)) : list (string * V) :=
  sm_of_list string String.compare V kvs.

(* macro lib.rs:201-222: a HashMap enumerated into TypeSpaceSettings' BTreeMaps *)
Definition settings_patch {P : Type} (enum : list (string * P)) : list (string * P) :=
  sm_of_list string String.compare P enum.
(* crates: key = original name if `orig@ver`, else the macro key; value = (version, rename) *)
Definition crate_entry (e : string * (option string * string)) : string * (string * option string) :=
  match fst (snd e) with
  | Some orig => (orig, (snd (snd e), Some (fst e)))
  | None => (fst e, (snd (snd e), None))
  end.
Definition settings_crates (enum : list (string * (option string * string))) : list (string * (string * option string)) :=
  sm_of_list string String.compare _ (map crate_entry enum).

(* ------------------------------------------------------------------ *)
(* OutputSpace (output.rs:9-73)                                        *)
(* ------------------------------------------------------------------ *)
(* OutputSpaceMod derives Ord in declaration order: Error < Crate < Builder < Defaults *)
Inductive omod := MError | MCrate | MBuilder | MDefaults.
Definition omod_rank (m : omod) : nat :=
  match m with MError => 0 | MCrate => 1 | MBuilder => 2 | MDefaults => 3 end.
Definition omod_cmp (a b : omod) : comparison := Nat.compare (omod_rank a) (omod_rank b).
Definition okey := (omod * string)%type.
Definition okey_cmp (a b : okey) : comparison :=
  match omod_cmp (fst a) (fst b) with
  | Eq => String.compare (snd a) (snd b)
  | c => c
  end.

Section Output.
  Variable T : Type.                       (* token *)
  Variable wrap : omod -> list T -> list T. (* `pub mod error { .. }` etc. *)

  (* entry(key).or_insert_with(TokenStream::new).extend(stream) *)
  Definition extend_with (s : list T) (o : option (list T)) : list T :=
    match o with None => s | Some old => old ++ s end.
  Definition add_item (sp : list (okey * list T)) (it : okey * list T) : list (okey * list T) :=
    sm_upsert okey okey_cmp (list T) (fst it) (extend_with (snd it)) sp.
  Definition add_items (its : list (okey * list T)) : list (okey * list T) := fold_left add_item its [].

  Definition into_stream (sp : list (okey * list T)) : list T :=
    let mods := fold_left (fun m it => sm_upsert omod omod_cmp (list T) (fst (fst it)) (extend_with (snd it)) m) sp [] in
    flat_map (fun lm => wrap (fst lm) (snd lm)) mods.

  Definition render (its : list (okey * list T)) : list T := into_stream (add_items its).
End Output.


(* ------------------------------------------------------------------ *)
(* lib.rs:930-982 to_stream: which add_item calls arrive in which order *)
(* ------------------------------------------------------------------ *)
Section ToStream.
  Variable T : Type.
  Variable wrap : omod -> list T -> list T.
  (* id_to_entry : BTreeMap<TypeId, TypeEntry>; an entry is abstracted to the add_item calls its
     `output` makes (type item, impls, builder, default fns: under keys derived from NAMES) *)
  Definition id_entry := (nat * list (okey * list T))%type.
  (* the table after any history of `id_to_entry.insert(id, entry)` *)
  Definition id_table_of (hist : list id_entry) : list id_entry :=
    sm_of_list nat Nat.compare (list (okey * list T)) hist.
  (* to_stream: the error item, then every entry in TABLE ITERATION order, then the shared defaults *)
  Definition to_stream_items (pre post : list (okey * list T)) (tbl : list id_entry) : list (okey * list T) :=
    pre ++ flat_map snd tbl ++ post.
  Definition to_stream (pre post : list (okey * list T)) (hist : list id_entry) : list T :=
    render T wrap (to_stream_items pre post (id_table_of hist)).
  (* what a HASH-ordered id table would do: iterate some enumeration of the same entries *)
  Definition to_stream_enumerated (pre post : list (okey * list T)) (enum : list id_entry) : list T :=
    render T wrap (to_stream_items pre post enum).
End ToStream.

(* ------------------------------------------------------------------ *)
(* printing for the correspondence check                               *)
(* ------------------------------------------------------------------ *)
Definition show_bool (b : bool) : string := if b then "true"%string else "false"%string.
Definition show_keys {V} (m : list (string * V)) : string := String.concat ","%string (map fst m).

(* ------------------------------------------------------------------ *)
(* value.rs:402-462 (fix fd85c79 + 4ed7b48): the thread-local FILLING stack *)
(* ------------------------------------------------------------------ *)
(* `output_value` at one value position, abstracted to the shape of its calls.  A key is
   (type id, address of the member's default value inside the type space); [body_of] is the
   immutable type space (`&TypeSpace` for the whole rendering): what rendering that default does. *)
Section Filling.
  Variable T : Type.                 (* token *)
  Variable key : Type.
  Variable key_eqb : key -> key -> bool.

  Inductive job :=
  | JLeaf (t : list T)                      (* scalar / native: tokens, no stack access *)
  | JNone                                   (* the value does not fit: output_value returns None, `?` drops the guards *)
  | JPanic                                  (* a panic below: unwinding drops the guards (FillingGuard::drop) *)
  | JNode (t : list T) (kids : list job)    (* nested output_value calls (present members, items), in order *)
  | JFill (k : key) (fallback : list T).    (* absent member with its own schema default: value.rs:441-462 *)

  Inductive outcome := ROk (t : list T) | RNone | RPanic.

  Variable body_of : key -> job.

  Definition fmem (k : key) (st : list key) : bool := existsb (key_eqb k) st.

  (* returns the outcome AND the stack as left behind; None = out of fuel (artefact of the model) *)
  Fixpoint frender (fuel : nat) (st : list key) (j : job) {struct fuel} : option (outcome * list key) :=
    match fuel with
    | O => None
    | Datatypes.S f =>
        match j with
        | JLeaf t => Some (ROk t, st)
        | JNone => Some (RNone, st)
        | JPanic => Some (RPanic, st)
        | JNode t kids =>
            (fix go (ks : list job) (st : list key) (acc : list T) {struct ks} : option (outcome * list key) :=
               match ks with
               | [] => Some (ROk acc, st)
               | k :: r =>
                   match frender f st k with
                   | Some (ROk o, st1) => go r st1 (acc ++ o)
                   | other => other
                   end
               end) kids st t
        | JFill k fb =>
            if fmem k st then Some (ROk fb, st)              (* already being rendered: `Default::default()` *)
            else match frender f (k :: st) (body_of k) with    (* push; FillingGuard *)
                 | Some (r, st1) => Some (r, tl st1)          (* guard dropped: pop (normal return, `?`, unwinding) *)
                 | None => None
                 end
        end
    end.

  (* consecutive top-level renderings on one thread: each starts with the stack the previous one left *)
  Fixpoint frender_seq (fuel : nat) (st : list key) (js : list job) : list (option outcome) * list key :=
    match js with
    | [] => ([], st)
    | j :: r =>
        match frender fuel st j with
        | Some (o, st1) => let '(os, st2) := frender_seq fuel st1 r in (Some o :: os, st2)
        | None => let '(os, st2) := frender_seq fuel st r in (None :: os, st2)
        end
    end.
End Filling.

(* the same job with every key renamed (another process / another TypeSpace: other addresses) *)
Fixpoint rename_job {T key key' : Type} (ren : key -> key') (j : job T key) : job T key' :=
  match j with
  | JLeaf _ _ t => JLeaf T key' t
  | JNone _ _ => JNone T key'
  | JPanic _ _ => JPanic T key'
  | JNode _ _ t kids => JNode T key' t (map (rename_job ren) kids)
  | JFill _ _ k fb => JFill T key' (ren k) fb
  end.
Definition rename_result {T key key' : Type} (ren : key -> key') (r : option (outcome T * list key))
  : option (outcome T * list key') :=
  match r with Some (o, st) => Some (o, map ren st) | None => None end.
