(* Algo/SettingsModel.v — the places where typify reads TypeSpaceSettings (definitions
   ONLY; proofs in Proofs/SettingsProofs.v).

     type_patch            util.rs:803-814        rename + per-type derives by type name
     named constructors    type_entry.rs:293,379,410,440,472,510  store type_patch's result
     replace_def           lib.rs:646-675         replacement by SANITISED definition name
                                                  (Algo/Sanitize.replace_lookup, C08)
     cache_insert/lookup   conversions.rs:14-48   schema cache keyed without metadata AT ANY DEPTH
                                                  (StripMetadata visitor, fix a0b7480);
                           convert.rs:35-40       consulted at convert_schema
     type_ident            type_entry.rs:1676-1806  how a type id is spelled at a use site
                                                  (map type: 1720-1742)
     skip_path             structs.rs:376-416     skip_serializing_if of Optional members
     derives               Algo/Emit.derives_of   (strings_to_derives, C19)
     with_settings         lib.rs:575-593         TypeSpace::new stores the settings record

   Strings are rendered WITHOUT white space (token streams are compared after removing
   it on both sides). *)
From Coq Require Import String Ascii NArith List Bool.
From Typify Require Import Base.Json Spec.Schema IR.TypeIR Algo.Emit.
Import ListNotations.
Close Scope string_scope.
Open Scope list_scope.

(* ---------------------------------------------------------------- type_patch *)
Record patch := mkPatch { pa_rename : option ustring; pa_derives : list ustring }.

(* settings.patch is a BTreeMap<String, TypeSpacePatch>: an association list with
   distinct keys; `with_patch` on an existing key overwrites (last one honoured) *)
Definition with_patch (m : list (ustring * patch)) (k : ustring) (p : patch) : list (ustring * patch) :=
  (k, p) :: remove_key k m.

(* util.rs type_patch: (name, derives.iter().cloned().collect::<BTreeSet>()) *)
Definition type_patch (m : list (ustring * patch)) (type_name : ustring) : ustring * list ustring :=
  match assoc type_name m with
  | None => (type_name, [])
  | Some p =>
      (match pa_rename p with Some r => r | None => type_name end,
       set_extend [] (pa_derives p))
  end.

(* the six named constructors: `let (name, extra_derives) = type_patch(type_space, name);`
   then TypeEntry { details: ..{ name, .. }, extra_derives } *)
Inductive named_shape :=
| NEnum (default : option json) (tag : tagty) (vs : list variant) (deny : bool) (bes : list bespoke)
| NStruct (default : option json) (props : list prop) (deny : bool)
| NNewtype (default : option json) (inner : id) (c : constraints).

Definition new_named (m : list (ustring * patch)) (type_name : ustring) (sh : named_shape) : entry :=
  let '(name, ds) := type_patch m type_name in
  mkEntry (match sh with
           | NEnum df tag vs deny bes => DEnum name df tag vs deny bes
           | NStruct df ps deny => DStruct name df ps deny
           | NNewtype df inner c => DNewtype name df inner c
           end) ds.

(* convert_ref_type (lib.rs:741-754) and id_for_schema (lib.rs:1014-1028): the schema's `default`
   annotation is recorded IN PLACE on an Enum / Struct / Newtype entry (`details.default = default`);
   the entry, hence the extra_derives that type_patch attached at construction, is kept *)
Definition record_default (e : entry) (df : option json) : entry :=
  mkEntry (match e_det e with
           | DEnum n _ tag vs deny bes => DEnum n df tag vs deny bes
           | DStruct n _ ps deny => DStruct n df ps deny
           | DNewtype n _ inner c => DNewtype n df inner c
           | d => d
           end) (e_derives e).

(* ---------------------------------------------------------------- replacement *)
Record replacement := mkRepl { rp_type : ustring; rp_impls : list trait }.

(* TypeEntry::new_native(replace_type, impls) *)
Definition native_entry (r : replacement) : entry := mkEntry (DNative (rp_type r) (rp_impls r) []) [].

(* lib.rs:650-675: `sanitize` is the sanitiser (Algo/Sanitize.sanitize cls _ Pascal), `convert`
   whatever convert_ref_type produces for a definition that is NOT replaced *)
Definition replace_def (sanitize : ustring -> ustring) (repl : list (ustring * replacement))
           (convert : ustring -> entry) (def_name : ustring) : entry :=
  match assoc (sanitize def_name) repl with
  | Some r => native_entry r
  | None => convert def_name
  end.

(* The same step with the definition's schema metadata made explicit.  add_ref_types_impl
   (lib.rs:629-675) has the definition NAME and its SCHEMA (with an optional `title`) in hand;
   the replacement key is `sanitize(def_name, Case::Pascal)`: the schema is not consulted.
   This coincides with how the definition's own type is named, get_type_name(Name::Required(def_name), md)
   (util.rs:790-799: for Required the name wins over the title), and NOT with Name::Suggested,
   where a title takes precedence. *)
Record definition := mkDef { d_name : ustring; d_title : option ustring }.

Inductive name_hint := NRequired (n : ustring) | NSuggested (n : ustring) | NUnknown.

(* util.rs get_type_name *)
Definition get_type_name (sanitize : ustring -> ustring) (h : name_hint) (title : option ustring) : option ustring :=
  match h, title with
  | NRequired n, _ => Some (sanitize n)
  | NSuggested n, None => Some (sanitize n)
  | _, Some t => Some (sanitize t)
  | NUnknown, None => None
  end.

Definition replace_key (sanitize : ustring -> ustring) (d : definition) : ustring := sanitize (d_name d).

Definition replace_definition (sanitize : ustring -> ustring) (repl : list (ustring * replacement))
           (convert : definition -> entry) (d : definition) : entry :=
  match assoc (replace_key sanitize d) repl with
  | Some r => native_entry r
  | None => convert d
  end.

(* ---------------------------------------------------------------- conversion cache *)
Section Cache.
  Variable Sch : Type.                       (* schemars SchemaObject *)
  Variable strip : Sch -> Sch.                 (* without_metadata: metadata := None in the schema and,
                                                  by the schemars Visitor, in every subschema *)
  Variable seqb : Sch -> Sch -> bool.          (* derived PartialEq *)

  Definition cache := list (Sch * entry).

  (* SchemaCache::insert: push((without_metadata(schema), native entry)) *)
  Definition cache_insert (c : cache) (s : Sch) (r : replacement) : cache := c ++ [(strip s, native_entry r)].

  (* SchemaCache::lookup: first entry whose key equals the stripped search schema *)
  Fixpoint cache_lookup (c : cache) (s : Sch) : option entry :=
    match c with
    | [] => None
    | (k, e) :: r => if seqb (strip s) k then Some e else cache_lookup r s
    end.

  (* TypeSpace::new: settings.convert.iter().for_each(insert) *)
  Definition cache_of (conv : list (Sch * replacement)) : cache :=
    fold_left (fun c sr => cache_insert c (fst sr) (snd sr)) conv [].

  (* convert_schema (convert.rs:35-40) for a Schema::Object *)
  Definition convert_schema (c : cache) (convert_object : Sch -> entry) (s : Sch) : entry :=
    match cache_lookup c s with
    | Some e => e
    | None => convert_object s
    end.
End Cache.

(* [strip] made concrete on the schema AST of Spec/Schema.v: the StripMetadata visitor of
   conversions.rs (metadata := None at the node, then schemars' visit_schema_object, which descends
   into EVERY subschema position: items (single and tuple), additionalItems, properties.*,
   additionalProperties, allOf / anyOf / oneOf members, not).  The metadata this AST represents are
   `default` and `title`; description, examples, readOnly ... are already erased by the translator;
   propertyNames, patternProperties, contains, if/then/else are not represented in Spec/Schema.v (the
   per-run position-complete occurrences of py/props/c14.py cover them on the real code). *)
Fixpoint strip_annotations (s : schema) : schema :=
  match s with
  | SBool b => SBool b
  | SObj ty fmt enum cst nv sv ik items ai mni mxi uq props req ap mnp mxp allo anyo oneo no ref _ _ =>
      let smap := map strip_annotations in
      SObj ty fmt enum cst nv sv ik (smap items) (option_map strip_annotations ai) mni mxi uq
           (map (fun kv => (fst kv, strip_annotations (snd kv))) props) req
           (option_map strip_annotations ap) mnp mxp
           (option_map smap allo) (option_map smap anyo) (option_map smap oneo)
           (option_map strip_annotations no) ref None None
  end.

(* no annotation left at ANY position of the AST *)
Fixpoint annotation_free (s : schema) : bool :=
  match s with
  | SBool _ => true
  | SObj _ _ _ _ _ _ _ items ai _ _ _ props _ ap _ _ allo anyo oneo no _ dflt title =>
      let all := forallb annotation_free in
      let oall := fun o => match o with Some l => all l | None => true end in
      let o1 := fun o => match o with Some x => annotation_free x | None => true end in
      match dflt, title with
      | None, None =>
          all items && o1 ai && forallb (fun kv => annotation_free (snd kv)) props && o1 ap &&
          oall allo && oall anyo && oall oneo && o1 no
      | _, _ => false
      end
  end.

(* ---------------------------------------------------------------- rendering of types *)
Definition strip_ws (s : ustring) : ustring := filter (fun c => negb (N.eqb c 32)) s.

Definition app3 (a b c : ustring) : ustring := a ++ b ++ c.

Fixpoint ujoin (sep : ustring) (l : list ustring) : ustring :=
  match l with
  | [] => []
  | [x] => x
  | x :: r => x ++ sep ++ ujoin sep r
  end.

Fixpoint omap {A B} (f : A -> option B) (l : list A) : option (list B) :=
  match l with
  | [] => Some []
  | x :: r => match f x, omap f r with Some y, Some ys => Some (y :: ys) | _, _ => None end
  end.

Definition show_N_u (n : N) : ustring := ustr_of_string (show_N n).

Definition is_json_map (T : space) (k v : id) : bool :=
  match get_det T k, get_det T v with
  | Some DString, Some DJsonValue => true
  | _, _ => false
  end.

Definition json_map_ty : ustring := u "::serde_json::Map<::std::string::String,::serde_json::Value>".

Definition map_path (T : space) : ustring := strip_ws (s_map_type (sp_settings T)).

(* TypeEntry::type_ident; None = a panic (`expect("unresolved type id")`, Reference) or out of fuel *)
Fixpoint type_ident (T : space) (fuel : nat) (i : id) : option ustring :=
  match fuel with
  | O => None
  | S f =>
      match get_det T i with
      | None => None
      | Some d =>
          match d with
          | DEnum n _ _ _ _ _ | DStruct n _ _ _ | DNewtype n _ _ _ =>
              Some (match s_type_mod (sp_settings T) with
                    | Some m => m ++ u "::" ++ n
                    | None => n
                    end)
          | DOption t =>
              match type_ident T f t with
              | None => None
              | Some x => match get_det T t with
                          | Some (DOption _) => Some x
                          | _ => Some (app3 (u "::std::option::Option<") x (u ">"))
                          end
              end
          | DBox t => option_map (fun x => app3 (u "::std::boxed::Box<") x (u ">")) (type_ident T f t)
          | DVec t => option_map (fun x => app3 (u "::std::vec::Vec<") x (u ">")) (type_ident T f t)
          | DSet t => option_map (fun x => app3 (u "Vec<") x (u ">")) (type_ident T f t)
          | DMap k v =>
              match get_det T k, get_det T v with
              | None, _ | _, None => None
              | _, _ =>
                  if is_json_map T k v then Some json_map_ty
                  else match type_ident T f k, type_ident T f v with
                       | Some a, Some b => Some (map_path T ++ u "<" ++ a ++ u "," ++ b ++ u ">")
                       | _, _ => None
                       end
              end
          | DArray t n =>
              option_map (fun x => u "[" ++ x ++ u ";" ++ show_N_u n ++ u "usize]") (type_ident T f t)
          | DTuple ts =>
              match omap (type_ident T f) ts with
              | None => None
              | Some [x] => Some (u "(" ++ x ++ u ",)")
              | Some xs => Some (u "(" ++ ujoin (u ",") xs ++ u ")")
              end
          | DNative n _ ps =>
              match ps with
              | [] => Some (strip_ws n)
              | _ => option_map (fun xs => strip_ws n ++ u "<" ++ concat (map (fun x => x ++ u ",") xs) ++ u ">")
                                (omap (type_ident T f) ps)
              end
          | DUnit => Some (u "()")
          | DString => Some (u "::std::string::String")
          | DBoolean => Some (u "bool")
          | DJsonValue => Some (u "::serde_json::Value")
          | DInteger n | DFloat n => Some (strip_ws n)
          | DReference _ => None
          end
      end
  end.

(* structs.rs generate_serde_attr (after fix b9da3ef): the attributes are chosen by what is
   inside ONE Box *)
Definition unbox (T : space) (i : id) : option details :=
  match get_det T i with
  | Some (DBox t) => match get_det T t with Some d => Some d | None => Some (DBox t) end
  | d => d
  end.

(* the skip_serializing_if path ("" = none) *)
Definition skip_path (T : space) (p : prop) : ustring :=
  match p_state p, unbox T (p_ty p) with
  | POptional, Some (DOption _) => u "::std::option::Option::is_none"
  | POptional, Some (DVec _) => u "::std::vec::Vec::is_empty"
  | POptional, Some (DMap k v) =>
      if is_json_map T k v then u "::serde_json::Map::is_empty"
      else map_path T ++ u "::is_empty"
  | _, _ => []
  end.

(* TypeSpace::new: the settings record is stored; nothing else of the space depends on it *)
Definition with_settings (T : space) (s : settings) : space :=
  mkSpace (sp_entries T) (sp_next T) s (sp_uses_chrono T) (sp_uses_uuid T) (sp_uses_serde_json T)
          (sp_uses_regress T) (sp_defaults T).

Definition set_builder (T : space) (b : bool) : space :=
  let s := sp_settings T in
  with_settings T (mkSettings (s_type_mod s) (s_derives s) b (s_map_type s)).

(* ---------------------------------------------------------------- printing (K4) *)
Open Scope string_scope.

Definition show_oustr (o : option ustring) : string :=
  match o with Some s => show_ustr s | None => """<panic>""" end.

Definition member_views (T : space) (fuel : nat) (d : details) : list string :=
  let prop_view := fun (p : prop) =>
    "[" ++ show_oustr (type_ident T fuel (p_ty p)) ++ "," ++ show_ustr (skip_path T p) ++ "]" in
  let id_view := fun (t : id) => "[" ++ show_oustr (type_ident T fuel t) ++ ",""""]" in
  match d with
  | DStruct _ _ ps _ => map prop_view ps
  | DNewtype _ _ t _ => [id_view t]
  | DEnum _ _ _ vs _ _ =>
      flat_map (fun v => match v_det v with
                         | VSimple => []
                         | VItem t => [id_view t]
                         | VTuple ts => map id_view ts
                         | VStruct ps => map prop_view ps
                         end) vs
  | _ => []
  end.

Definition show_view_entry (T : space) (fuel : nat) (e : entry) : string :=
  match det_name (e_det e) with
  | None => ""
  | Some n =>
      "{""name"":" ++ show_ustr n ++
      ",""derives"":[" ++ join "," (map show_ustr (derives_of T e)) ++
      "],""members"":[" ++ join "," (member_views T fuel (e_det e)) ++ "]}"
  end.

Definition show_settings_view (T : space) : string :=
  "[" ++ join "," (map (show_view_entry T (S (length (sp_entries T)))) (named_entries T)) ++ "]".
