(* Algo/Schemars.v -- a model of schemars 0.8.22's `#[derive(JsonSchema)]` on a
   fragment of the Rust universes of Algo/RustDefs.v: the `definitions` map
   [schema_of_rust U] holding the schema of EVERY named type of U (what
   `schema_for!` puts under `definitions`, resp. at the root without `title` /
   `$schema`), and the fragment predicate [rust_frag].  DEFINITIONS ONLY.

   Mirrors (schemars-0.8.22):
     json_schema_impls/primitives.rs   bool, String, (), integer formats
                                       (`uint8`..`uint64` with `minimum: 0.0`,
                                       `int8`..`int64` without bounds)
     json_schema_impls/core.rs         Option<T>: `type: [T, "null"]` for a T
                                       whose schema has a single `type` and no
                                       `$ref` (add_null_type); Option<$ref> is
                                       an `anyOf` (outside the fragment)
     json_schema_impls/sequences.rs    Vec<T>: `type: array, items: T`
     json_schema_impls/maps.rs         HashMap/BTreeMap<String,T>:
                                       `type: object, additionalProperties: T`
     schemars_derive schema_exprs.rs   struct with named fields: `type: object`,
                                       `properties` by wire name, `required` =
                                       members that are not Option (and have no
                                       default), `additionalProperties: false`
                                       with deny_unknown_fields; newtype struct
                                       = the inner schema; unit struct = `null`;
                                       unit-only externally tagged enum =
                                       `type: string, enum: [wire names]`;
                                       a named type used as a member / item is
                                       `$ref: #/definitions/<Name>`
   Tied to the REAL schemars on every run (py/props/c04.py, "schemars model"):
   [schema_of_rust U] = the JSON `schema_for!` produced for the compiled ORIGIN
   crate, by kernel conversion, for every generated universe of the fragment. *)
From Coq Require Import String ZArith NArith QArith List Bool.
From Typify Require Import Base.Json Spec.Schema Spec.Valid IR.TypeIR.
From Typify Require Algo.Heck Algo.Sanitize.
From Typify Require Import Algo.Convert Algo.RustDefs.
Import ListNotations.
Close Scope Q_scope.
Close Scope string_scope.
Open Scope list_scope.
Open Scope N_scope.

(* ------------------------------------------------------------------ schema builders *)
Definition sch_typed (tys : list itype) (fmt : option ustring) (nv : numv) (ik : items_kind)
           (items : list schema) (ap : option schema) : schema :=
  SObj (Some tys) fmt None None nv strv_none ik items None None None false
       [] [] ap None None None None None None None None None.

Definition sch_ref (n : ustring) : schema :=
  SObj None None None None numv_none strv_none ItemsAbsent [] None None None false
       [] [] None None None None None None None (Some n) None None.

Definition sch_struct (props : list (ustring * schema)) (req : list ustring) (deny : bool) : schema :=
  SObj (Some [TObject]) None None None numv_none strv_none ItemsAbsent [] None None None false
       props req (if deny then Some (SBool false) else None) None None None None None None None None None.

Definition sch_enum (raws : list ustring) : schema :=
  SObj (Some [TString]) None (Some (map JStr raws)) None numv_none strv_none ItemsAbsent [] None None None false
       [] [] None None None None None None None None None None.

Definition nv_min0 : numv := mkNumv None None None (Some (Qmake 0 1)) None.

(* integer types: Rust name -> (format, unsigned) *)
Open Scope string_scope.
Definition int_table : list (ustring * (ustring * bool)) :=
  [ (ulit "u8", (ulit "uint8", true)); (ulit "u16", (ulit "uint16", true));
    (ulit "u32", (ulit "uint32", true)); (ulit "u64", (ulit "uint64", true));
    (ulit "i8", (ulit "int8", false)); (ulit "i16", (ulit "int16", false));
    (ulit "i32", (ulit "int32", false)); (ulit "i64", (ulit "int64", false)) ].
Close Scope string_scope.

Definition int_info (n : ustring) : option (ustring * bool) := assoc n int_table.

(* the schema of a type expression; [SBool false] stands for "outside the fragment" *)
Fixpoint sch_ty (t : rty) {struct t} : schema :=
  match t with
  | RtRef n => sch_ref n
  | RtOption a =>
      match a with
      | RtBool => sch_typed [TBoolean; TNull] None numv_none ItemsAbsent [] None
      | RtString => sch_typed [TString; TNull] None numv_none ItemsAbsent [] None
      | RtInt n =>
          match int_info n with
          | Some (f, uns) => sch_typed [TInteger; TNull] (Some f) (if uns then nv_min0 else numv_none) ItemsAbsent [] None
          | None => SBool false
          end
      | RtVec b => sch_typed [TArray; TNull] None numv_none ItemsSingle [sch_ty b] None
      | RtMap b => sch_typed [TObject; TNull] None numv_none ItemsAbsent [] (Some (sch_ty b))
      | _ => SBool false
      end
  | RtBool => sch_typed [TBoolean] None numv_none ItemsAbsent [] None
  | RtString => sch_typed [TString] None numv_none ItemsAbsent [] None
  | RtInt n =>
      match int_info n with
      | Some (f, uns) => sch_typed [TInteger] (Some f) (if uns then nv_min0 else numv_none) ItemsAbsent [] None
      | None => SBool false
      end
  | RtVec a => sch_typed [TArray] None numv_none ItemsSingle [sch_ty a] None
  | RtMap a => sch_typed [TObject] None numv_none ItemsAbsent [] (Some (sch_ty a))
  | _ => SBool false
  end.

Definition is_opt (t : rty) : bool := match t with RtOption _ => true | _ => false end.

Definition sch_fields (rule : rename_rule) (fs : list rfield) : list (ustring * schema) :=
  map (fun f => (field_wire rule f, sch_ty (rf_ty f))) fs.

Definition req_fields (rule : rename_rule) (fs : list rfield) : list ustring :=
  map (field_wire rule) (filter (fun f => negb (is_opt (rf_ty f))) fs).

Definition all_unit (vs : list rvariant) : bool :=
  forallb (fun v => match rv_shape v with RvUnit => true | _ => false end) vs.

Definition sch_def (d : rust_def) : schema :=
  match d with
  | RdStruct _ rule deny _ fs => sch_struct (sch_fields rule fs) (req_fields rule fs) deny
  | RdNewtype _ t => sch_ty t
  | RdEnum _ TagExternal rule _ vs =>
      if all_unit vs then sch_enum (map (variant_wire rule) vs) else SBool false
  | _ => SBool false
  end.

(* the `definitions` map, in the order of U (BTreeMap order when U is sorted by name: [rust_frag]) *)
Definition schema_of_rust (U : universe) : defs := map (fun d => (rd_name d, sch_def d)) U.

(* ------------------------------------------------------------------ the fragment *)
Section RustFrag.
  Variable cls : Heck.CharClasses.
  Variable names : list ustring.        (* names of the universe's types *)
  Variable nt : bool.                   (* newtype structs allowed *)

  (* member / item / value types *)
  Fixpoint ty_ok (t : rty) {struct t} : bool :=
    match t with
    | RtBool | RtString => true
    | RtInt n => match int_info n with Some _ => true | None => false end
    | RtVec a | RtMap a => ty_ok a
    | RtRef n => mem_ustr n names
    | RtOption a =>
        match a with
        | RtBool | RtString => true
        | RtInt n => match int_info n with Some _ => true | None => false end
        | RtVec b | RtMap b => ty_ok b
        | _ => false
        end
    | _ => false
    end.

  (* a member: no `default`, an Option member carries skip_serializing_if = "Option::is_none" (typify
     emits it for every non-required Option member, so only then are the WIRE OUTPUTS equal), and the
     identifier typify derives from the wire name is the Rust identifier *)
  Definition field_ok (rule : rename_rule) (f : rfield) : bool :=
    ty_ok (rf_ty f)
    && negb (rf_default f)
    && match rf_default_fn f with None => true | Some _ => false end
    && Bool.eqb (is_opt (rf_ty f)) (rf_skip_none f)
    && ustr_eqb (Sanitize.sanitize cls (field_wire rule f) Sanitize.Snake) (rf_name f).

  Definition def_ok (d : rust_def) : bool :=
    match d with
    | RdStruct _ rule _ cdef fs =>
        negb cdef
        && negb (is_nil fs)
        && forallb (field_ok rule) fs
        && keys_sorted (map rf_name fs)                       (* declared in identifier order (typify sorts) *)
        && keys_sorted (map (field_wire rule) fs)             (* = BTreeMap order of `properties` *)
    | RdNewtype _ t => nt && ty_ok t
    | RdEnum _ TagExternal rule deny vs =>
        negb deny && negb (is_nil vs) && all_unit vs
        && match Sanitize.variant_idents cls (map (variant_wire rule) vs) with Sanitize.Ok _ => true | _ => false end
    | _ => false
    end.
End RustFrag.

(* THE fragments of universes.  The last two conjuncts are conditions on NAMES and on the
   reference GRAPH, stated with the converter's own functions: the Pascal-cased names of the
   types are pairwise distinct (typify rejects a batch otherwise), and no type contains itself
   by value (rustc rejects such a type: infinite size).
   [rust_frag_s] (structs, unit-only enums, newtype structs): the domain of the schemars model and of
   C04F_schemars_in_frag; [rust_frag] (without newtype structs): the domain of the wire-compatibility
   theorem C04F_fragment_wire_compat. *)
Definition rust_frag_gen (nt : bool) (cls : Heck.CharClasses) (U : universe) : bool :=
  let names := map rd_name U in
  keys_sorted names
  && forallb def_key_ok names
  && forallb (def_ok cls names nt) U
  && Sanitize.unique (all_names cls (schema_of_rust U))
  && byval_acyclic (schema_of_rust U).

Definition rust_frag_s := rust_frag_gen true.
Definition rust_frag := rust_frag_gen false.
