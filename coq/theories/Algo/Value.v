(* Algo/Value.v -- executable model of typify's default RENDERING
   (typify-impl/src/value.rs:25-447): a JSON value becomes a Rust expression of the
   target type.  DEFINITIONS ONLY.

   Rust                                   model
     TypeEntry::output_value   25-190     output_value / output_det
     value_for_external_enum   192-236    o_external
     value_for_internal_enum   238-271    o_internal
     value_for_adjacent_enum   273-311    o_adjacent
     value_for_untagged_enum   313-342    o_untagged
     value_for_item            344-355    the [rec] argument
     value_for_tuple           357-378    o_tuple
     value_for_struct_props    380-447    o_struct_props

   The expression AST [expr] is the token structure the quote! templates produce;
   [show_expr] prints it as the flattened token sequence (compared with the real
   TokenStream on every run).  Places where the Rust code interpolates an
   Option<TokenStream> WITHOUT `?` (newtype inner 58-66, external Item variant 222-225)
   produce an empty argument list; places where a `?` sits inside a filter_map closure
   (struct members, flattened members) silently DROP the member.  Mirrors the tree after
   dc9ac49 (one-element tuple `( e , )`) and 31ec69c (flattened member named by an identifier;
   [FLit] is no longer produced and only kept so that a regression would be expressible).

   [expr_typed] is the Rust typing of such an expression at a type id (what rustc
   accepts: `(3_i64)` is not a `(i64,)`, integer literals must fit their suffix, a
   struct literal must name exactly the fields, a string literal is not a field name);
   [eval_expr] is the JSON the denoted value serialises to under the serde attributes
   typify emits for the IR (transparent newtypes, renames, flatten, skip_serializing_if
   for Optional members, the four enum representations).  Members rendered as
   `Default::default()` are left out of [eval_expr]'s objects: [approx] is equality up to
   those holes ("up to filling of nested defaults"). *)
From Coq Require Import String Ascii ZArith NArith QArith List Bool.
From Typify Require Import Base.Json IR.TypeIR Algo.Defaults.
Import ListNotations.
Close Scope Q_scope.
Open Scope N_scope.

Inductive fname := FId (s : ustring) | FLit (s : ustring).

Inductive expr :=
| EBool (b : bool)
| ENum (v : json) (suffix : ustring)         (* literal  <number>_<suffix> *)
| ENonZero (ty : ustring) (v : json)         (* <ty>::new(<number>).unwrap() *)
| EStr (s : ustring)                         (* "s".to_string() *)
| ENone
| ESome (e : expr)
| EBox (e : expr)
| EVec (es : list expr)                      (* vec![..] *)
| ETuple (es : list expr)                    (* ( e , e ); one element: ( e , )  (fix dc9ac49) *)
| EArray (es : list expr)                    (* [ e , e ] *)
| EMap (kvs : list (expr * expr))            (* [(k, v), ..].into_iter().collect() *)
| EUnit
| EDefault                                   (* Default::default() *)
| EStruct (name : ustring) (fs : list (fname * expr))
| EVarUnit (ty var : ustring)
| EVarTuple (ty var : ustring) (es : list expr)
| EVarStruct (ty var : ustring) (fs : list (fname * expr))
| ECtor (name : ustring) (es : list expr)    (* newtype:  Name ( inner? ) *)
| EParse (ty : option ustring) (v : json).   (* ::serde_json::from_str::<ty>(text).unwrap() *)

(* `.map(f).collect::<Option<Vec<_>>>()` *)
Fixpoint map_r {A B} (f : A -> res B) (l : list A) : res (list B) :=
  match l with
  | [] => ROk []
  | x :: r => do a <- f x; do b <- map_r f r; ROk (a :: b)
  end.
(* `.filter_map(f)` where f's None drops the element *)
Fixpoint filter_map_r {A B} (f : A -> res (option B)) (l : list A) : res (list B) :=
  match l with
  | [] => ROk []
  | x :: r => do a <- f x; do b <- filter_map_r f r;
              ROk (match a with Some y => y :: b | None => b end)
  end.
(* Some(x) / None of an Option-returning call used inside filter_map or interpolated raw *)
Definition optional {A} (r : res A) : res (option A) :=
  match r with
  | ROk a => ROk (Some a)
  | RErr => ROk None
  | RFuel => RFuel
  | RPanic => RPanic
  end.

(* fix fd85c79: the member defaults whose rendering is in progress.  Rust keys them by (member type id, ADDRESS of the
   default value), i.e. by the StructProperty instance; the model names the instance by (owner entry id, variant
   identifier or [] for a struct, member identifier). *)
Definition fkey := (id * ustring * ustring)%type.
Definition fkey_eqb (a b : fkey) : bool :=
  let '(i1, v1, n1) := a in let '(i2, v2, n2) := b in N.eqb i1 i2 && ustr_eqb v1 v2 && ustr_eqb n1 n2.
Definition in_filling (k : fkey) (l : list fkey) : bool := existsb (fkey_eqb k) l.

(* value_for_struct_props: what is handed to the FLATTENED members -- the entries of the value whose key is not the
   SERIALIZED (wire) name of a direct member (`prop_map` is keyed by the rename when there is one, value.rs) *)
Definition direct_wire_names (props : list prop) : list ustring :=
  flat_map (fun p => match wire_name p with Some n => [n] | None => [] end) props.
Definition flatten_remainder (props : list prop) (m : list (ustring * json)) : list (ustring * json) :=
  filter (fun '(k, _) => negb (mem_ustr k (direct_wire_names props))) m.

Section Det.
  Variable T : space.
  Variable rec : id -> json -> res expr.            (* output_value with the same FILLING stack *)
  Variable filling : list fkey.                      (* the FILLING stack *)
  Variable recfill : fkey -> id -> json -> res expr. (* output_value with that key pushed *)
  Variable self : id.                                (* id of the entry being rendered *)

  Definition o_tuple (ts : list id) (v : json) : res (list expr) :=
    do arr <- of_opt (as_array v);
    if negb (Nat.eqb (length arr) (length ts)) then RErr else
    map_r (fun '(t, x) => rec t x) (combine ts arr).

  Definition o_struct_props (vid : ustring) (props : list prop) (v : json) : res (list (fname * expr)) :=
    do m <- of_opt (as_object v);
    do direct <- filter_map_r (fun p =>
        match wire_name p with
        | None => ROk None
        | Some name =>
            match assoc name m with
            | Some x => do oe <- optional (rec (p_ty p) x);
                        ROk (option_map (fun e => (FId (p_name p), e)) oe)
            | None =>
                (* fix a08c818: an absent member takes its OWN schema default (as serde does) *)
                match p_state p with
                | PDefault dv =>
                    (* fix fd85c79: a member default that is already being rendered is left to `Default::default()` *)
                    let key := (self, vid, p_name p) in
                    if in_filling key filling then ROk (Some (FId (p_name p), EDefault)) else
                    do oe <- optional (recfill key (p_ty p) dv);
                    ROk (option_map (fun e => (FId (p_name p), e)) oe)
                | _ => ROk (Some (FId (p_name p), EDefault))
                end
            end
        end) props;
    let extra := JObj (flatten_remainder props m) in
    do flat <- filter_map_r (fun p =>
        match p_rename p with
        | RFlatten =>
            match get_det T (p_ty p) with
            | None => RPanic
            | Some (DStruct _ _ _ _) | Some (DOption _) | Some (DMap _ _) =>
                do oe <- optional (rec (p_ty p) extra);
                ROk (option_map (fun e => (FId (p_name p), e)) oe)
            | Some _ => RPanic
            end
        | _ => ROk None
        end) props;
    ROk (direct ++ flat)%list.

  (* variant_tuple (value.rs, fix 15ce314): a one-element tuple payload is the tuple itself, `V((x,))` *)
  Definition variant_tuple (es : list expr) : list expr :=
    match es with [x] => [ETuple [x]] | _ => es end.

  (* variant.ident_name.as_ref().unwrap() *)
  Definition var_ident (var : variant) : res ustring :=
    match v_ident var with [] => RPanic | i => ROk i end.

  Definition o_external (name : ustring) (vs : list variant) (v : json) : res expr :=
    match v with
    | JStr s =>
        do var <- of_opt (find_variant s vs);
        match v_det var with
        | VSimple => do i <- var_ident var; ROk (EVarUnit name i)
        | _ => RErr
        end
    | _ =>
        do m <- of_opt (as_object v);
        match m with
        | [(n, x)] =>
            do var <- of_opt (find_variant n vs);
            do i <- var_ident var;
            match v_det var with
            | VSimple => RErr
            | VItem t => do oe <- optional (rec t x);
                         ROk (EVarTuple name i (match oe with Some e => [e] | None => [] end))
            | VTuple ts => do es <- o_tuple ts x; ROk (EVarTuple name i (variant_tuple es))
            | VStruct ps => do fs <- o_struct_props i ps x; ROk (EVarStruct name i fs)
            end
        | _ => RErr
        end
    end.

  Definition o_internal (name : ustring) (vs : list variant) (tag : ustring) (v : json) : res expr :=
    do m <- of_opt (as_object v);
    do tv <- of_opt (assoc tag m);
    do sn <- of_opt (as_str tv);
    do var <- of_opt (find_variant sn vs);
    do i <- var_ident var;
    match v_det var with
    | VSimple => ROk (EVarUnit name i)
    | VStruct ps => do fs <- o_struct_props i ps (JObj (remove_key tag m)); ROk (EVarStruct name i fs)
    | VItem _ | VTuple _ => RPanic
    end.

  Definition o_adjacent (name : ustring) (vs : list variant) (tag content : ustring) (v : json) : res expr :=
    do m <- of_opt (as_object v);
    do tc <- of_opt (adj_split m tag content);
    let '(tv, cv) := tc in
    do var <- of_opt (find_variant tv vs);
    do i <- var_ident var;
    match v_det var, cv with
    | VSimple, None => ROk (EVarUnit name i)
    | VTuple ts, Some c => do es <- o_tuple ts c; ROk (EVarTuple name i (variant_tuple es))
    | VStruct ps, Some c => do fs <- o_struct_props i ps c; ROk (EVarStruct name i fs)
    | _, _ => RErr
    end.

  Definition o_untagged (name : ustring) (vs : list variant) (v : json) : res expr :=
    find_map_r (fun var =>
        do i <- var_ident var;
        match v_det var with
        | VSimple => match v with JNull => ROk (EVarUnit name i) | _ => RErr end
        | VItem t => do e <- rec t v; ROk (EVarTuple name i [e])
        | VTuple ts => do es <- o_tuple ts v; ROk (EVarTuple name i (variant_tuple es))
        | VStruct ps => do fs <- o_struct_props i ps v; ROk (EVarStruct name i fs)
        end) vs.

  Definition output_det (d : details) (v : json) : res expr :=
    match d with
    | DEnum name _ tag vs _ _ =>
        match tag with
        | TagExternal => o_external name vs v
        | TagInternal tg => o_internal name vs tg v
        | TagAdjacent tg c => o_adjacent name vs tg c v
        | TagUntagged => o_untagged name vs v
        end
    | DStruct name _ props _ => do fs <- o_struct_props [] props v; ROk (EStruct name fs)
    | DNewtype name _ t _ =>
        do oe <- optional (rec t v);
        ROk (ECtor name (match oe with Some e => [e] | None => [] end))
    | DOption t =>
        match v with
        | JNull => ROk ENone
        | _ => do e <- rec t v; ROk (ESome e)
        end
    | DBox t => do e <- rec t v; ROk (EBox e)
    | DSet t | DVec t =>
        do arr <- of_opt (as_array v);
        match get_det T t with
        | None => RPanic
        | Some _ => do es <- map_r (rec t) arr; ROk (EVec es)
        end
    | DMap k vt =>
        do m <- of_opt (as_object v);
        match get_det T k, get_det T vt with
        | Some _, Some _ =>
            do kvs <- map_r (fun '(key, x) => do a <- rec k (JStr key); do b <- rec vt x; ROk (a, b)) m;
            ROk (EMap kvs)
        | _, _ => RPanic
        end
    | DTuple ts => do es <- o_tuple ts v; ROk (ETuple es)
    | DArray t _ =>
        do arr <- of_opt (as_array v);
        match get_det T t with
        | None => RPanic
        | Some _ => do es <- map_r (rec t) arr; ROk (EArray es)
        end
    | DUnit => match v with JNull => ROk EUnit | _ => RErr end
    | DNative ty _ _ => ROk (EParse (Some ty) v)
    | DJsonValue => ROk (EParse None v)
    | DBoolean => match v with JBool b => ROk (EBool b) | _ => RErr end
    | DInteger n | DFloat n =>
        if negb (is_number v) then RErr else
        if is_nonzero_name n then ROk (ENonZero n v) else ROk (ENum v n)
    | DString => match v with JStr s => ROk (EStr s) | _ => RErr end
    | DReference _ => RPanic
    end.
End Det.

Fixpoint output_fill (T : space) (fuel : nat) (filling : list fkey) (t : id) (v : json) {struct fuel} : res expr :=
  match fuel with
  | O => RFuel
  | S n =>
      match get_det T t with
      | None => RPanic
      | Some d => output_det T (output_fill T n filling) filling (fun key => output_fill T n (key :: filling)) t d v
      end
  end.

(* TypeEntry::output_value as called from outside: the FILLING stack is empty *)
Definition output_value (T : space) (fuel : nat) (t : id) (v : json) : res expr := output_fill T fuel [] t v.

(* ---------------------------------------------------------------- typing *)
Fixpoint find_prop (n : ustring) (ps : list prop) : option prop :=
  match ps with
  | [] => None
  | p :: r => if ustr_eqb n (p_name p) then Some p else find_prop n r
  end.

Fixpoint find_variant_ident (i : ustring) (vs : list variant) : option variant :=
  match vs with
  | [] => None
  | v :: r => if ustr_eqb i (v_ident v) then Some v else find_variant_ident i r
  end.

Definition has_trait (t : trait) (l : list trait) : bool := existsb (trait_eqb t) l.

(* does the generated type implement Default (what `Default::default()` needs) *)
Fixpoint defaultable (T : space) (fuel : nat) (t : id) {struct fuel} : bool :=
  match fuel with
  | O => false
  | S n =>
      match get_det T t with
      | Some DBoolean | Some DString | Some DUnit | Some (DOption _) | Some (DVec _) | Some (DSet _)
      | Some (DMap _ _) | Some DJsonValue | Some (DFloat _) => true
      | Some (DInteger nm) => negb (is_nonzero_name nm)
      | Some (DBox t') => defaultable T n t'
      | Some (DTuple ts) => (N.of_nat (length ts) <=? 12) && forallb (defaultable T n) ts
      | Some (DArray t' k) => (k <=? 32) && defaultable T n t'
      | Some (DNative _ impls _) => has_trait TDefault impls
      | Some (DStruct _ (Some _) _ _) | Some (DEnum _ (Some _) _ _ _ _) | Some (DNewtype _ (Some _) _ _) => true
      | Some (DStruct _ None ps _) => forallb (fun p => negb (is_required p)) ps
      | _ => false
      end
  end.

Definition lit_in_range (name : ustring) (v : json) : bool :=
  match v, int_range_u name with
  | JInt z, Some (lo, hi, _) => ((lo <=? z) && (z <=? hi))%Z
  | _, _ => false
  end.

(* literal accepted as the argument of NonZeroXX::new: an integer of the primitive's range *)
Definition nz_arg_ok (name : ustring) (v : json) : bool :=
  match v, int_range_u name with
  | JInt z, Some (_, hi, _) => ((0 <=? z) && (z <=? hi))%Z
  | _, _ => false
  end.

Definition fields_typed (typed : expr -> id -> bool) (ps : list prop) (fs : list (fname * expr)) : bool :=
  Nat.eqb (length fs) (length ps) &&
  forallb (fun p => existsb (fun '(fn, _) => match fn with FId n => ustr_eqb n (p_name p) | FLit _ => false end) fs) ps &&
  (fix go (fs : list (fname * expr)) : bool :=
     match fs with
     | [] => true
     | (FId n, e) :: r =>
         match find_prop n ps with
         | Some p => typed e (p_ty p) && go r
         | None => false
         end
     | (FLit _, _) :: _ => false
     end) fs.

Fixpoint expr_typed (T : space) (fuel : nat) (e : expr) (t : id) {struct e} : bool :=
  let typed_list := fix go (es : list expr) (ts : list id) : bool :=
      match es, ts with
      | [], [] => true
      | x :: es', u :: ts' => expr_typed T fuel x u && go es' ts'
      | _, _ => false
      end in
  let typed_all := fix go (es : list expr) (u : id) : bool :=
      match es with
      | [] => true
      | x :: es' => expr_typed T fuel x u && go es' u
      end in
  let typed_fields := fix go (ps : list prop) (fs : list (fname * expr)) : bool :=
      match fs with
      | [] => true
      | (FId n, x) :: r =>
          match find_prop n ps with
          | Some p => expr_typed T fuel x (p_ty p) && go ps r
          | None => false
          end
      | (FLit _, _) :: _ => false
      end in
  let fields_ok := fun (ps : list prop) (fs : list (fname * expr)) =>
      Nat.eqb (length fs) (length ps) &&
      forallb (fun p => existsb (fun '(fn, _) => match fn with FId n => ustr_eqb n (p_name p) | FLit _ => false end) fs) ps &&
      typed_fields ps fs in
  match e, get_det T t with
  | EDefault, Some _ => defaultable T fuel t
  | EBool _, Some DBoolean => true
  | ENum v suf, Some (DInteger n) => ustr_eqb suf n && negb (is_nonzero_name n) && lit_in_range n v
  | ENum v suf, Some (DFloat n) => ustr_eqb suf n && is_number v
  | ENonZero ty v, Some (DInteger n) => ustr_eqb ty n && is_nonzero_name n && nz_arg_ok n v
  | EStr _, Some DString => true
  | ENone, Some (DOption _) => true
  | ESome x, Some (DOption u) => expr_typed T fuel x u
  | EBox x, Some (DBox u) => expr_typed T fuel x u
  | EVec es, Some (DVec u) | EVec es, Some (DSet u) => typed_all es u
  | ETuple es, Some (DTuple ts) => typed_list es ts
  | EArray es, Some (DArray u n) => N.eqb (N.of_nat (length es)) n && typed_all es u
  | EMap kvs, Some (DMap k u) =>
      (fix go (kvs : list (expr * expr)) : bool :=
         match kvs with
         | [] => true
         | (a, b) :: r => expr_typed T fuel a k && expr_typed T fuel b u && go r
         end) kvs
  | EUnit, Some DUnit => true
  | EStruct name fs, Some (DStruct n _ ps _) => ustr_eqb name n && fields_ok ps fs
  | EVarUnit ty var, Some (DEnum n _ _ vs _ _) =>
      ustr_eqb ty n &&
      match find_variant_ident var vs with
      | Some vr => match v_det vr with VSimple => true | _ => false end
      | None => false
      end
  | EVarTuple ty var es, Some (DEnum n _ _ vs _ _) =>
      ustr_eqb ty n &&
      match find_variant_ident var vs with
      | Some vr => match v_det vr with
                   | VItem u => typed_list es [u]
                   | VTuple [x] =>
                       (* output_variant declares a one-element tuple variant as `V((T,))`: its single field is
                          the tuple itself, so `E::V(e)` is ill-typed and only `E::V((e,))` is accepted *)
                       match es with
                       | [ETuple [y]] => expr_typed T fuel y x
                       | _ => false
                       end
                   | VTuple ts => typed_list es ts
                   | _ => false
                   end
      | None => false
      end
  | EVarStruct ty var fs, Some (DEnum n _ _ vs _ _) =>
      ustr_eqb ty n &&
      match find_variant_ident var vs with
      | Some vr => match v_det vr with VStruct ps => fields_ok ps fs | _ => false end
      | None => false
      end
  | ECtor name es, Some (DNewtype n _ u _) => ustr_eqb name n && typed_list es [u]
  | EParse (Some ty) _, Some (DNative n _ _) => ustr_eqb ty n
  | EParse None _, Some DJsonValue => true
  | _, _ => false
  end.

(* ---------------------------------------------------------------- meaning *)
Definition find_named (T : space) (name : ustring) : option details :=
  (fix go (l : list (id * entry)) : option details :=
     match l with
     | [] => None
     | (_, e) :: r =>
         match det_name (e_det e) with
         | Some n => if ustr_eqb n name then Some (e_det e) else go r
         | None => go r
         end
     end) (sp_entries T).

Definition is_empty_json (v : json) : bool :=
  match v with JNull | JArr [] | JObj [] => true | _ => false end.

(* `skip_serializing_if` emitted for this member (structs.rs:352-393) and it fires *)
Definition skipped (T : space) (p : prop) (v : json) : bool :=
  match p_state p, get_det T (p_ty p) with
  | POptional, Some (DOption _) => match v with JNull => true | _ => false end
  | POptional, Some (DVec _) => match v with JArr [] => true | _ => false end
  | POptional, Some (DMap _ _) => match v with JObj [] => true | _ => false end
  | _, _ => false
  end.

Definition wrap_variant (tag : tagty) (raw : ustring) (payload : option json) : option json :=
  match tag, payload with
  | TagExternal, None => Some (JStr raw)
  | TagExternal, Some p => Some (JObj [(raw, p)])
  | TagInternal tg, None => Some (JObj [(tg, JStr raw)])
  | TagInternal tg, Some (JObj m) => Some (JObj ((tg, JStr raw) :: m))
  | TagInternal _, Some _ => None
  | TagAdjacent tg _, None => Some (JObj [(tg, JStr raw)])
  | TagAdjacent tg c, Some p => Some (JObj [(tg, JStr raw); (c, p)])
  | TagUntagged, None => Some JNull
  | TagUntagged, Some p => Some p
  end.

Fixpoint eval_expr (T : space) (e : expr) {struct e} : option json :=
  let eval_list := fix go (es : list expr) : option (list json) :=
      match es with
      | [] => Some []
      | x :: r => match eval_expr T x, go r with Some a, Some b => Some (a :: b) | _, _ => None end
      end in
  let eval_fields := fix go (ps : list prop) (fs : list (fname * expr)) : option (list (ustring * json)) :=
      match fs with
      | [] => Some []
      | (FLit _, _) :: _ => None
      | (FId n, EDefault) :: r => go ps r
      | (FId n, x) :: r =>
          match find_prop n ps, eval_expr T x, go ps r with
          | Some p, Some a, Some b =>
              if skipped T p a then Some b else
              match p_rename p with
              | TypeIR.RNone => Some ((p_name p, a) :: b)
              | RRename s => Some ((s, a) :: b)
              | RFlatten => match a with
                            | JObj m => Some (m ++ b)%list
                            | JNull => Some b
                            | _ => None
                            end
              end
          | _, _, _ => None
          end
      end in
  match e with
  | EBool b => Some (JBool b)
  | ENum v _ => Some v
  | ENonZero _ v => if is_zero_number v then None else Some v
  | EStr s => Some (JStr s)
  | ENone => Some JNull
  | ESome x => eval_expr T x
  | EBox x => eval_expr T x
  | EVec es | ETuple es | EArray es => option_map JArr (eval_list es)
  | EMap kvs =>
      option_map JObj
        ((fix go (kvs : list (expr * expr)) : option (list (ustring * json)) :=
            match kvs with
            | [] => Some []
            | (a, b) :: r =>
                match eval_expr T a, eval_expr T b, go r with
                | Some (JStr k), Some x, Some m => Some ((k, x) :: m)
                | _, _, _ => None
                end
            end) kvs)
  | EUnit => Some JNull
  | EDefault => None
  | EStruct name fs =>
      match find_named T name with
      | Some (DStruct _ _ ps _) => option_map JObj (eval_fields ps fs)
      | _ => None
      end
  | EVarUnit ty var =>
      match find_named T ty with
      | Some (DEnum _ _ tag vs _ _) =>
          match find_variant_ident var vs with
          | Some vr => wrap_variant tag (v_raw vr) None
          | None => None
          end
      | _ => None
      end
  | EVarTuple ty var es =>
      match find_named T ty with
      | Some (DEnum _ _ tag vs _ _) =>
          match find_variant_ident var vs, eval_list es with
          | Some vr, Some l =>
              match v_det vr, l with
              | VItem _, [x] => wrap_variant tag (v_raw vr) (Some x)
              | VTuple [_], [x] => wrap_variant tag (v_raw vr) (Some x)   (* the single field IS the tuple *)
              | VTuple _, _ => wrap_variant tag (v_raw vr) (Some (JArr l))
              | _, _ => None
              end
          | _, _ => None
          end
      | _ => None
      end
  | EVarStruct ty var fs =>
      match find_named T ty with
      | Some (DEnum _ _ tag vs _ _) =>
          match find_variant_ident var vs with
          | Some vr =>
              match v_det vr with
              | VStruct ps =>
                  match eval_fields ps fs with
                  | Some m => wrap_variant tag (v_raw vr) (Some (JObj m))
                  | None => None
                  end
              | _ => None
              end
          | None => None
          end
      | _ => None
      end
  | ECtor _ [x] => eval_expr T x
  | ECtor _ _ => None
  | EParse _ v => Some v
  end.

(* equality of JSON numbers across the integer / float literal forms *)
Definition num_eqb (a b : json) : bool :=
  match a, b with
  | JInt x, JInt y => Z.eqb x y
  | JFlt x, JFlt y => Qeq_bool x y
  | JInt x, JFlt y | JFlt y, JInt x => Qeq_bool (inject_Z x) y
  | _, _ => false
  end.

(* [approx d r]: the realised value r equals the schema default d up to filling of nested defaults: every member
   of d is in r with an [approx]-equal value, or was skipped because empty; r may have additional members (members
   absent from d that took their own schema default, fix a08c818) and lacks those left to `Default::default()`. *)
Fixpoint approx (d r : json) {struct d} : bool :=
  match d, r with
  | JArr x, JArr y =>
      (fix go (x y : list json) : bool :=
         match x, y with
         | [], [] => true
         | u :: x', v :: y' => approx u v && go x' y'
         | _, _ => false
         end) x y
  | JObj x, JObj y =>
      (* y may contain additional members: the nested defaults that were filled in *)
      (fix go (x : list (ustring * json)) : bool :=
         match x with
         | [] => true
         | (k, u) :: x' =>
             match assoc k y with
             | Some v => approx u v && go x'
             | None => is_empty_json u && go x'
             end
         end) x
  | JInt _, _ | JFlt _, _ => num_eqb d r
  | _, _ => json_eqb d r
  end.

(* ---------------------------------------------------------------- printing *)
Open Scope string_scope.
Infix "^^" := String.append (at level 60, right associativity).
Open Scope list_scope.
(* identifiers: ASCII as is, other scalars as \\uXXXX (Coq strings are byte strings) *)
Definition show_ident (s : ustring) : string :=
  fold_right (fun c a => (if (c <? 128)%N then String (ascii_of_N c) EmptyString else show_scalar c) ^^ a) "" s.
Definition sp_join (l : list string) : string := String.concat " " l.
Definition path (segs : list string) : list string :=
  flat_map (fun s => [":"; ":"; s]) segs.
Definition show_num (v : json) : string :=
  match v with
  | JInt z => "#" ^^ show_Z z
  | JFlt q => "#" ^^ show_Z (Qnum q) ^^ "/" ^^ show_Z (Zpos (Qden q))
  | _ => "#?"
  end.
Definition ty_tok (s : ustring) : string := "@T{" ^^ show_ident s ^^ "}".
Definition fname_tok (f : fname) : string :=
  match f with FId s => show_ident s | FLit s => "S" ^^ show_ustr s end.

Fixpoint toks (e : expr) {struct e} : list string :=
  let commas := fix go (es : list expr) : list string :=
      match es with
      | [] => []
      | x :: r => match r with [] => toks x | _ => toks x ++ [","] ++ go r end
      end in
  let fields := fix go (fs : list (fname * expr)) : list string :=
      match fs with
      | [] => []
      | (f, x) :: r =>
          match r with
          | [] => [fname_tok f; ":"] ++ toks x
          | _ => [fname_tok f; ":"] ++ toks x ++ [","] ++ go r
          end
      end in
  match e with
   | EBool true => ["true"]
   | EBool false => ["false"]
   | ENum v suf => [show_num v ^^ "_" ^^ show_ident suf]
   | ENonZero ty v => [ty_tok ty; ":"; ":"; "new"; "("; show_num v; ")"; "."; "unwrap"; "("; ")"]
   | EStr s => ["S" ^^ show_ustr s; "."; "to_string"; "("; ")"]
   | ENone => path ["std"; "option"; "Option"; "None"]
   | ESome x => path ["std"; "option"; "Option"; "Some"] ++ ["("] ++ toks x ++ [")"]
   | EBox x => path ["std"; "boxed"; "Box"; "new"] ++ ["("] ++ toks x ++ [")"]
   | EVec es => ["vec"; "!"; "["] ++ commas es ++ ["]"]
   | ETuple [x] => ["("] ++ toks x ++ [","; ")"]
   | ETuple es => ["("] ++ commas es ++ [")"]
   | EArray es => ["["] ++ commas es ++ ["]"]
   | EMap kvs =>
       ["["] ++
       (fix go (kvs : list (expr * expr)) : list string :=
          match kvs with
          | [] => []
          | (a, b) :: r =>
              match r with
              | [] => ["("] ++ toks a ++ [","] ++ toks b ++ [")"]
              | _ => ["("] ++ toks a ++ [","] ++ toks b ++ [")"; ","] ++ go r
              end
          end) kvs ++
       ["]"; "."; "into_iter"; "("; ")"; "."; "collect"; "("; ")"]
   | EUnit => ["("; ")"]
   | EDefault => ["Default"; ":"; ":"; "default"; "("; ")"]
   | EStruct name fs => [show_ident name; "{"] ++ fields fs ++ ["}"]
   | EVarUnit ty var => [show_ident ty; ":"; ":"; show_ident var]
   | EVarTuple ty var es => [show_ident ty; ":"; ":"; show_ident var; "("] ++ commas es ++ [")"]
   | EVarStruct ty var fs => [show_ident ty; ":"; ":"; show_ident var; "{"] ++ fields fs ++ ["}"]
   | ECtor name es => [show_ident name; "("] ++ commas es ++ [")"]
   | EParse (Some ty) v =>
       path ["serde_json"; "from_str"] ++ [":"; ":"; "<"; ty_tok ty; ">"; "("; "J" ^^ show_json v; ")";
                                           "."; "unwrap"; "("; ")"]
   | EParse None v =>
       path ["serde_json"; "from_str"] ++ [":"; ":"; "<"] ++ path ["serde_json"; "Value"] ++
       [">"; "("; "J" ^^ show_json v; ")"; "."; "unwrap"; "("; ")"]
   end.

Definition show_expr (e : expr) : string := sp_join (toks e).
Definition show_ores (r : res expr) : string :=
  match r with
  | ROk e => "ok:" ^^ show_expr e
  | RErr => "none"
  | RFuel => "fuel"
  | RPanic => "panic"
  end.

Definition show_bool (b : bool) : string := if b then "T" else "F".

(* ---------------------------------------------------------------- default_fn (defaults.rs:327-377) *)
(* What generate_serde_attr does with a property in state Default(v): a shared generic function for
   booleans and integers, otherwise a bespoke function whose body is `output_value(..).unwrap_or_else(panic)`.
   ROk None = generic function, ROk (Some e) = bespoke body e. *)
Definition render_prop_default (T : space) (fuel : nat) (t : id) (v : json) : res (option expr) :=
  match get_det T t with
  | None => RPanic
  | Some DUnit => RPanic                       (* unreachable!() *)
  | Some DBoolean => ROk None
  | Some (DInteger _) =>
      match as_u64 v, as_i64 v with
      | None, None => RPanic                   (* panic!() *)
      | _, _ => ROk None
      end
  | Some _ =>
      match output_value T fuel t v with
      | ROk e => ROk (Some e)
      | RErr => RPanic                         (* "The default value could not be rendered for this type" *)
      | RFuel => RFuel
      | RPanic => RPanic
      end
  end.

(* ---------------------------------------------------------------- classes of the recorded findings *)
Fixpoint expr_any (p : expr -> bool) (e : expr) {struct e} : bool :=
  let anyl := fix go (es : list expr) : bool :=
      match es with [] => false | x :: r => expr_any p x || go r end in
  let anyf := fix go (fs : list (fname * expr)) : bool :=
      match fs with [] => false | (_, x) :: r => expr_any p x || go r end in
  p e ||
  match e with
  | ESome x | EBox x => expr_any p x
  | EVec es | ETuple es | EArray es | EVarTuple _ _ es | ECtor _ es => anyl es
  | EMap kvs =>
      (fix go (kvs : list (expr * expr)) : bool :=
         match kvs with [] => false | (a, b) :: r => expr_any p a || expr_any p b || go r end) kvs
  | EStruct _ fs | EVarStruct _ _ fs => anyf fs
  | _ => false
  end.

Definition is_tuple1 (e : expr) : bool := match e with ETuple [_] => true | _ => false end.
Definition is_int_oob (e : expr) : bool :=
  match e with
  | ENum (JInt z) suf => match int_range_u suf with
                         | Some (lo, hi, _) => negb ((lo <=? z) && (z <=? hi))%Z
                         | None => false
                         end
  | ENonZero ty (JInt z) => match int_range_u ty with
                            | Some (_, hi, _) => negb ((0 <=? z) && (z <=? hi))%Z
                            | None => false
                            end
  | _ => false
  end.
Definition is_nz_zero (e : expr) : bool :=
  match e with ENonZero _ v => is_zero_number v | _ => false end.
Definition has_flit (e : expr) : bool :=
  match e with
  | EStruct _ fs | EVarStruct _ _ fs => existsb (fun '(f, _) => match f with FLit _ => true | FId _ => false end) fs
  | _ => false
  end.
(* E::V(e) where V is declared with a one-element tuple payload (finding C06-F13) *)
Definition is_tuple1_variant (T : space) (e : expr) : bool :=
  match e with
  | EVarTuple ty var [_] =>
      match find_named T ty with
      | Some (DEnum _ _ _ vs _ _) =>
          match find_variant_ident var vs with
          | Some vr => match v_det vr with VTuple [_] => true | _ => false end
          | None => false
          end
      | _ => false
      end
  | _ => false
  end.
(* a member that has its OWN schema default (state PDefault) is absent from the value and rendered
   `Default::default()` (value.rs, value_for_struct_props): finding C06-F12 *)
Definition fields_f12 (ps : list prop) (fs : list (fname * expr)) : bool :=
  existsb (fun '(f, x) =>
             match f, x with
             | FId n, EDefault => match find_prop n ps with
                                  | Some p => match p_state p with PDefault _ => true | _ => false end
                                  | None => false
                                  end
             | _, _ => false
             end) fs.
Definition is_f12 (T : space) (e : expr) : bool :=
  match e with
  | EStruct name fs =>
      match find_named T name with Some (DStruct _ _ ps _) => fields_f12 ps fs | _ => false end
  | EVarStruct ty var fs =>
      match find_named T ty with
      | Some (DEnum _ _ _ vs _ _) =>
          match find_variant_ident var vs with
          | Some vr => match v_det vr with VStruct ps => fields_f12 ps fs | _ => false end
          | None => false
          end
      | _ => false
      end
  | _ => false
  end.
Definition is_native_parse (e : expr) : bool := match e with EParse (Some _) _ => true | _ => false end.
Definition is_default_fill (e : expr) : bool := match e with EDefault => true | _ => false end.
Definition is_empty_ctor (e : expr) : bool :=
  match e with ECtor _ [] | EVarTuple _ _ [] => true | _ => false end.

Definition res_eqb_kind (a b : res kind) : bool :=
  match a, b with
  | ROk _, ROk _ | RErr, RErr | RFuel, RFuel | RPanic, RPanic => true
  | _, _ => false
  end.

(* flags: unit tuple1 intoob nz0 flit native fill emptyctor tuple1var f12 *)
Definition class_flags (T : space) (fuel : nat) (t : id) (v : json) : string :=
  let unit := match get_det T t with Some DUnit => true | _ => false end in
  let fl := fun p => match output_value T fuel t v with ROk e => expr_any p e | _ => false end in
  String.concat "" (map show_bool [unit; fl is_tuple1; fl is_int_oob; fl is_nz_zero; fl has_flit;
                                   fl is_native_parse; fl is_default_fill; fl is_empty_ctor; fl (is_tuple1_variant T); fl (is_f12 T)]).

(* one line per probe for the correspondence check:
   validate | output | typed | eval | approx *)
Definition probe (re : ustring -> ustring -> bool) (T : space) (fuel : nat) (t : id) (v : json) : string :=
  let o := output_value T fuel t v in
  show_vres (validate_value re T fuel t v) ^^ " | " ^^ show_ores o ^^ " | " ^^
  match o with
  | ROk e => show_bool (expr_typed T fuel e t) ^^ " | " ^^ show_opt_json (eval_expr T e) ^^ " | " ^^
             match eval_expr T e with Some r => show_bool (approx v r) | None => "-" end
  | _ => "- | - | -"
  end ^^ " | " ^^ class_flags T fuel t v ^^ " | " ^^
  match render_prop_default T fuel t v with ROk _ => "ok" | RErr => "none" | RFuel => "fuel" | RPanic => "panic" end.
