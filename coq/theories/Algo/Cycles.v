(* C07 — executable model of typify's cycle breaking.  Definitions ONLY.

   Mirrors /repo/typify-impl/src/cycles.rs (break_cycles, get_child_ids) and
   /repo/typify-impl/src/lib.rs (assign, assign_type on a Box entry, id_to_box).

   Data representation
   * `graph` = association list id -> node (`id_to_entry`).  `set` replaces the
     first binding of a key in place, or appends a new binding at the end
     (BTreeMap::insert: overwrite or add), so "output = input" is plain `=`.
   * `bidx` = the slice of `type_to_id` whose keys are `Box(t)`: t -> id.
     Box entries have no by-value children and are never mutated, so this slice
     is only ever extended by `id_to_box`.
   * `next_id` as in TypeSpace.
   * `visited`, `active` : BTreeSet<TypeId> as duplicate-free lists
     (`insert` adds only if absent, `remove` filters).
   * `Processing id pending`: `pending` is the Rust vector `children_ids`
     REVERSED (head of the list = last element of the vector), because the Rust
     pops from the end.  `Start` stores the by-value children in vector order
     and reverses once. *)
From Coq Require Import NArith List Bool String Ascii.
From Coq Require Import DecimalString.
Import ListNotations.
Open Scope N_scope.

(* ---------------------------------------------------------------- nodes *)

(* VariantDetails::{Simple, Item, Tuple, Struct} — only the type ids *)
Inductive variant :=
| VSimple
| VItem (c : N)
| VTuple (cs : list N)
| VStruct (cs : list N).

(* TypeEntryDetails as get_child_ids distinguishes them *)
Inductive node :=
| NStruct (ps : list N)        (* properties' type ids, in order *)
| NNewtype (c : N)
| NEnum (vs : list variant)
| NOption (c : N)
| NArray (c : N)
| NTuple (cs : list N)
| NBox (c : N)
| NVec (c : N)
| NSet (c : N)
| NMap (k v : N)
| NNative (ps : list N)        (* Native with type parameters (x-rust-type): `_ => Vec::new()` *)
| NLeaf.                       (* every other kind: `_ => Vec::new()` *)

Definition variant_children (v : variant) : list N :=
  match v with
  | VSimple => []
  | VItem c => [c]
  | VTuple cs => cs
  | VStruct cs => cs
  end.

(* cycles.rs:144-175 get_child_ids: the by-value child slots, in order *)
Definition children (nd : node) : list N :=
  match nd with
  | NEnum vs => flat_map variant_children vs
  | NStruct ps => ps
  | NNewtype c => [c]
  | NOption c => [c]
  | NArray c => [c]
  | NTuple cs => cs
  | _ => []
  end.

(* SPECIFICATION side (independent of the code): by-value containment of the
   GENERATED Rust types.  Same as `children`, plus: a native generic type
   instantiated with type parameters (`::path::Ty<P1,..>` from x-rust-type) may
   embed its parameters by value (e.g. ::std::option::Option<T>); typify cannot
   tell, so the specification is conservative. *)
Definition spec_children (nd : node) : list N :=
  match nd with
  | NNative ps => ps
  | _ => children nd
  end.

Definition map_variant (f : N -> N) (v : variant) : variant :=
  match v with
  | VSimple => VSimple
  | VItem c => VItem (f c)
  | VTuple cs => VTuple (map f cs)
  | VStruct cs => VStruct (map f cs)
  end.

(* assignment through every `&mut TypeId` get_child_ids returns *)
Definition map_children (f : N -> N) (nd : node) : node :=
  match nd with
  | NEnum vs => NEnum (map (map_variant f) vs)
  | NStruct ps => NStruct (map f ps)
  | NNewtype c => NNewtype (f c)
  | NOption c => NOption (f c)
  | NArray c => NArray (f c)
  | NTuple cs => NTuple (map f cs)
  | other => other
  end.

(* ----------------------------------------------------------- finite maps *)

Fixpoint lookup {A} (m : list (N * A)) (k : N) : option A :=
  match m with
  | [] => None
  | (k', v) :: r => if N.eqb k k' then Some v else lookup r k
  end.

Fixpoint set {A} (m : list (N * A)) (k : N) (v : A) : list (N * A) :=
  match m with
  | [] => [(k, v)]
  | (k', v') :: r => if N.eqb k k' then (k, v) :: r else (k', v') :: set r k v
  end.

Fixpoint mem (x : N) (l : list N) : bool :=
  match l with
  | [] => false
  | y :: r => if N.eqb x y then true else mem x r
  end.

Definition insert (x : N) (l : list N) : list N := if mem x l then l else x :: l.
Definition remove (x : N) (l : list N) : list N := filter (fun y => negb (N.eqb y x)) l.

Definition graph := list (N * node).

Definition children_of (g : graph) (n : N) : list N :=
  match lookup g n with Some nd => children nd | None => [] end.

Definition spec_children_of (g : graph) (n : N) : list N :=
  match lookup g n with Some nd => spec_children nd | None => [] end.

(* ------------------------------------------------------------ the space *)

Record space := mkSpace { sp_g : graph; sp_bidx : list (N * N); sp_next : N }.

(* lib.rs:1005 id_to_box = assign_type(Box(id)): a Box entry has no name, so
   lib.rs:955-962 applies: reuse `type_to_id[Box(id)]`, else assign():
   next_id, next_id += 1, insert into type_to_id and id_to_entry. *)
Definition id_to_box (s : space) (t : N) : space * N :=
  match lookup (sp_bidx s) t with
  | Some b => (s, b)
  | None =>
      let b := sp_next s in
      (mkSpace (set (sp_g s) b (NBox t)) (set (sp_bidx s) t b) (b + 1), b)
  end.

(* cycles.rs:93-100: snip.into_iter().map(|t| (t, id_to_box(t))).collect::<BTreeMap>() *)
Definition make_replace (s : space) (snip : list N) : space * list (N * N) :=
  fold_left
    (fun (acc : space * list (N * N)) t =>
       let '(s1, b) := id_to_box (fst acc) t in (s1, set (snd acc) t b))
    snip (s, []).

Definition apply_replace (repl : list (N * N)) (c : N) : N :=
  match lookup repl c with Some b => b | None => c end.

(* ---------------------------------------------------------------- the DFS *)

Inductive frame :=
| Start (id : N)
| Processing (id : N) (pending : list N).   (* pending = rev children_ids *)

Definition frame_id (f : frame) : N :=
  match f with Start id => id | Processing id _ => id end.

Record dfs := mkDfs {
  d_sp : space;
  d_visited : list N;
  d_active : list N;
  d_stack : list frame      (* head = top = stack.last_mut() *)
}.

Inductive step_result :=
| Finished                  (* `while let Some(top)` fails: stack empty *)
| Next (d : dfs)
| Fail (msg : string).      (* assert! / unwrap() panics *)

Open Scope string_scope.

(* one iteration of the `while let Some(top) = stack.last_mut()` loop,
   cycles.rs:48-137 *)
Definition step (d : dfs) : step_result :=
  match d_stack d with
  | [] => Finished
  | Start id :: rest =>
      if mem id (d_visited d) then
        (* cycles.rs:51-59 *)
        if mem id (d_active d) then
          Next (mkDfs (d_sp d) (d_visited d) (d_active d) (Processing id [] :: rest))
        else Fail "assert active (visited start)"
      else
        (* cycles.rs:63-117 *)
        if negb (mem id (d_active d)) then Fail "assert active (start)" else
        let visited' := insert id (d_visited d) in
        match lookup (sp_g (d_sp d)) id with
        | None => Fail "unwrap id_to_entry (1)"
        | Some nd =>
            let cs := children nd in
            let '(snip, descend) := partition (fun c => mem c (d_active d)) cs in
            let '(sp1, repl) := make_replace (d_sp d) snip in
            match lookup (sp_g sp1) id with
            | None => Fail "unwrap id_to_entry (2)"
            | Some nd1 =>
                let nd2 := map_children (apply_replace repl) nd1 in
                let sp2 := mkSpace (set (sp_g sp1) id nd2) (sp_bidx sp1) (sp_next sp1) in
                Next (mkDfs sp2 visited' (d_active d) (Processing id (rev descend) :: rest))
            end
        end
  | Processing id pending :: rest =>
      (* cycles.rs:121-135 *)
      match pending with
      | c :: pending' =>
          Next (mkDfs (d_sp d) (d_visited d) (insert c (d_active d))
                      (Start c :: Processing id pending' :: rest))
      | [] =>
          Next (mkDfs (d_sp d) (d_visited d) (remove id (d_active d)) rest)
      end
  end.

Inductive outcome (A : Type) :=
| Done (a : A)
| Panic (msg : string)
| OutOfFuel.
Arguments Done {A} a.
Arguments Panic {A} msg.
Arguments OutOfFuel {A}.

(* the inner while loop, on fuel *)
Fixpoint run (fuel : nat) (d : dfs) : outcome dfs :=
  match fuel with
  | O => OutOfFuel
  | S f =>
      match step d with
      | Finished => Done d
      | Next d' => run f d'
      | Fail m => Panic m
      end
  end.

(* the outer `for id in range`, cycles.rs:33-46; `fuel` is per root *)
Fixpoint outer (fuel : nat) (roots : list N) (s : space) (visited : list N)
  : outcome (space * list N) :=
  match roots with
  | [] => Done (s, visited)
  | r :: rs =>
      if mem r visited then outer fuel rs s visited
      else
        match run fuel (mkDfs s visited (insert r []) [Start r]) with
        | Done d => outer fuel rs (d_sp d) (d_visited d)
        | Panic m => Panic m
        | OutOfFuel => OutOfFuel
        end
  end.

(* lo..hi *)
Definition range (lo hi : N) : list N :=
  map (fun i => lo + N.of_nat i) (seq 0 (N.to_nat (hi - lo))).

Definition break_cycles (fuel : nat) (s : space) (lo hi : N) : outcome space :=
  match outer fuel (range lo hi) s [] with
  | Done (s', _) => Done s'
  | Panic m => Panic m
  | OutOfFuel => OutOfFuel
  end.

(* total number of by-value child slots, and the fuel bound of C07_fuel *)
Definition slots (g : graph) : nat :=
  fold_right (fun (e : N * node) acc => (List.length (children (snd e)) + acc)%nat) O g.

Definition fuel_bound (s : space) : nat := (3 * slots (sp_g s) + 4)%nat.

(* ------------------------------------------------ proven checker (IR level) *)

(* Peeling: a node becomes `safe` once all its by-value children are safe.
   After |g| rounds every node of an acyclic closed graph is safe. *)
Definition peel_round (g : graph) (safe : list N) : list N :=
  fold_left
    (fun acc (e : N * node) =>
       if mem (fst e) acc then acc
       else if forallb (fun c => mem c safe) (children_of g (fst e)) then fst e :: acc else acc)
    g safe.

Fixpoint peel (rounds : nat) (g : graph) (safe : list N) : list N :=
  match rounds with
  | O => safe
  | S r => peel r g (peel_round g safe)
  end.

Definition acyclic_check (g : graph) : bool :=
  let safe := peel (List.length g) g [] in
  forallb (fun e : N * node => mem (fst e) safe) g.

(* the same checker over the SPEC relation (native parameters count) *)
Definition spec_node (nd : node) : node :=
  match nd with NNative ps => NTuple ps | _ => nd end.

Definition spec_graph (g : graph) : graph :=
  map (fun e : N * node => (fst e, spec_node (snd e))) g.

Definition spec_acyclic_check (g : graph) : bool := acyclic_check (spec_graph g).

(* well-formedness of a space as a checker (hypotheses of the theorems) *)
Definition bidx_ok_b (s : space) : bool :=
  forallb (fun tb : N * N =>
             match lookup (sp_bidx s) (fst tb) with
             | Some b =>
                 match lookup (sp_g s) b with
                 | Some (NBox t') => N.eqb t' (fst tb)
                 | _ => false
                 end
             | None => true
             end) (sp_bidx s).

Definition fresh_b (s : space) : bool :=
  forallb (fun e : N * node => N.ltb (fst e) (sp_next s)) (sp_g s).

Definition closed_b (s : space) (lo hi : N) : bool :=
  forallb (fun e : N * node =>
             forallb (fun c => match lookup (sp_g s) c with Some _ => true | None => false end)
                     (children (snd e))) (sp_g s)
  && forallb (fun r => match lookup (sp_g s) r with Some _ => true | None => false end) (range lo hi).

(* ------------------------------------------------------------- printing *)

Definition show_N (n : N) : string := NilEmpty.string_of_uint (N.to_uint n).

Definition show_ids (l : list N) : string := String.concat "," (map show_N l).

Definition show_variant (v : variant) : string :=
  match v with
  | VSimple => "s"
  | VItem c => "i:" ++ show_N c
  | VTuple cs => "t:" ++ show_ids cs
  | VStruct cs => "p:" ++ show_ids cs
  end.

Definition show_node (nd : node) : string :=
  match nd with
  | NStruct ps => "S(" ++ show_ids ps ++ ")"
  | NNewtype c => "N(" ++ show_N c ++ ")"
  | NEnum vs => "E(" ++ String.concat ";" (map show_variant vs) ++ ")"
  | NOption c => "O(" ++ show_N c ++ ")"
  | NArray c => "A(" ++ show_N c ++ ")"
  | NTuple cs => "T(" ++ show_ids cs ++ ")"
  | NBox c => "B(" ++ show_N c ++ ")"
  | NVec c => "V(" ++ show_N c ++ ")"
  | NSet c => "H(" ++ show_N c ++ ")"
  | NMap k v => "M(" ++ show_N k ++ "," ++ show_N v ++ ")"
  | NNative ps => "X(" ++ show_ids ps ++ ")"
  | NLeaf => "L"
  end.

Definition show_graph (g : graph) : string :=
  String.concat " " (map (fun e : N * node => show_N (fst e) ++ "=" ++ show_node (snd e)) g).

Definition show_bool (b : bool) : string := if b then "1" else "0".

(* one correspondence case: the result of break_cycles with the proven fuel
   bound, the checker verdict on the output, and the hypotheses' checkers *)
Definition run_case (g : graph) (bidx : list (N * N)) (next lo hi : N) : string :=
  let s := mkSpace g bidx next in
  let pre := "wf=" ++ show_bool (bidx_ok_b s && fresh_b s) ++ " closed=" ++ show_bool (closed_b s lo hi)
             ++ " pre_acyclic=" ++ show_bool (acyclic_check g) in
  match break_cycles (fuel_bound s) s lo hi with
  | Done s' =>
      "ok next=" ++ show_N (sp_next s') ++ " acyclic=" ++ show_bool (acyclic_check (sp_g s'))
      ++ " same=" ++ show_bool (Nat.eqb (List.length (sp_g s')) (List.length g))
      ++ " " ++ pre
      ++ " bidx=" ++ String.concat "," (map (fun tb : N * N => show_N (fst tb) ++ ">" ++ show_N (snd tb)) (sp_bidx s'))
      ++ " g=" ++ show_graph (sp_g s')
  | Panic m => "panic:" ++ m ++ " " ++ pre
  | OutOfFuel => "oof " ++ pre
  end.

(* checker only, for a dumped IR graph *)
Definition check_case (g : graph) : string :=
  "acyclic=" ++ show_bool (acyclic_check g) ++ " spec_acyclic=" ++ show_bool (spec_acyclic_check g).
