(* Algo/Merge.v — executable model of typify's `allOf` merge
   (typify-impl/src/merge.rs, validate.rs), definitions only.

   Mirrors, in the Rust order of evaluation (the first `?`/panic wins):
     merge_all / try_merge_all            merge.rs:18-41      [merge_all]
     try_merge_schema                     merge.rs:83-143     [merge]  (Bool cases, equal refs,
                                                               reference resolution + `roughly` preservation)
     merge_schema_object                  merge.rs:145-230    [merge_so]  (+ the validate.rs enum filter)
     merge_so_enum_values                 merge.rs:232-267    [merge_enum]
     try_merge_with_subschemas            merge.rs:272-356    [with_subs]  allOf fold, `not` via [merge_not],
                                                               anyOf/oneOf via try_merge_with_each_subschema
     try_merge_schema_not,
     try_merge_with_subschemas_not        merge.rs:423-605    [merge_not, set_false, mrg_all]
     try_merge_with_each_subschema        merge.rs:358-416    [each_sub]
     merge_so_instance_type               merge.rs:610-657    [merge_ty]
     merge_so_format                      merge.rs:671-685    [merge_fmt]
     merge_so_number / merge_so_string    merge.rs:687-711    [merge_nv/merge_sv]  (`unimplemented!` = MPanic)
     merge_so_array, merge_items_array    merge.rs:713-933    [merge_arr, items_loop, pad]  every items combination
                                                               (absent/single/tuple), padding of tuples with their
                                                               own additionalItems, max_items cut-off
     merge_so_object, filter_prop,
     merge_additional(_properties)        merge.rs:946-1096   [merge_obj, filter_prop, merge_ap]
     Roughly                              merge.rs:1098-1245  [roughly]
     schema_value_validate                validate.rs:10-97   [value_validate]

   Outcomes: MOk s | MNever (Err(()) = "unsatisfiable") | MPanic (unimplemented!/unresolved reference)
   | MUnsupp (the MODEL declines: construct outside the modelled fragment, or fuel exhausted).
   All recursion is on one fuel (a `$ref` may lead anywhere). *)
From Coq Require Import String ZArith NArith QArith List Bool.
From Typify Require Import Base.Json Spec.Schema Spec.Valid.
Import ListNotations.
Close Scope Q_scope.
Close Scope string_scope.
Open Scope list_scope.
Open Scope nat_scope.

Inductive mres (A : Type) : Type :=
| MOk (x : A)
| MNever
| MPanic
| MUnsupp.
Arguments MOk {A} x.
Arguments MNever {A}.
Arguments MPanic {A}.
Arguments MUnsupp {A}.

Definition mbind {A B} (r : mres A) (f : A -> mres B) : mres B :=
  match r with
  | MOk x => f x
  | MNever => MNever
  | MPanic => MPanic
  | MUnsupp => MUnsupp
  end.

(* `.unwrap_or(Schema::Bool(false))`: Err becomes the false schema; a panic stays a panic *)
Definition or_false (r : mres schema) : mres schema :=
  match r with
  | MNever => MOk (SBool false)
  | x => x
  end.

(* ------------------------------------------------------------------ small helpers *)
Definition mem_ty (t : itype) (l : list itype) : bool := existsb (itype_eqb t) l.

Fixpoint list_eqb {A} (eq : A -> A -> bool) (a b : list A) : bool :=
  match a, b with
  | [], [] => true
  | x :: a', y :: b' => eq x y && list_eqb eq a' b'
  | _, _ => false
  end.

Definition opt_eqb {A} (eq : A -> A -> bool) (a b : option A) : bool :=
  match a, b with
  | None, None => true
  | Some x, Some y => eq x y
  | _, _ => false
  end.

Definition numv_eqb (a b : numv) : bool :=
  opt_eqb Qeq_bool (n_multiple_of a) (n_multiple_of b)
  && opt_eqb Qeq_bool (n_maximum a) (n_maximum b)
  && opt_eqb Qeq_bool (n_exclusive_maximum a) (n_exclusive_maximum b)
  && opt_eqb Qeq_bool (n_minimum a) (n_minimum b)
  && opt_eqb Qeq_bool (n_exclusive_minimum a) (n_exclusive_minimum b).

Definition strv_eqb (a b : strv) : bool :=
  opt_eqb N.eqb (s_max_length a) (s_max_length b)
  && opt_eqb N.eqb (s_min_length a) (s_min_length b)
  && opt_eqb ustr_eqb (s_pattern a) (s_pattern b).

Definition numv_is_none (a : numv) : bool := numv_eqb a numv_none.
Definition strv_is_none (a : strv) : bool := strv_eqb a strv_none.

Definition is_none {A} (o : option A) : bool := match o with None => true | Some _ => false end.

(* schemars: `array` / `object` / `subschemas` are None iff no keyword of the group is present *)
Definition arr_absent (ik : items_kind) (ai : option schema) (mni mxi : option N) (uq : bool) : bool :=
  match ik with ItemsAbsent => true | _ => false end && is_none ai && is_none mni && is_none mxi && negb uq.

Definition obj_absent (props : list (ustring * schema)) (req : list ustring) (ap : option schema)
           (mnp mxp : option N) : bool :=
  match props with [] => true | _ => false end && match req with [] => true | _ => false end
  && is_none ap && is_none mnp && is_none mxp.

(* Schema::into_object *)
Definition into_obj (s : schema) : schema :=
  match s with
  | SBool true => SAny
  | x => x
  end.

(* ------------------------------------------------------------------ merge_so_instance_type *)
(* [ty] is None | Some [t] (Single or one-element Vec) | Some (t1::t2::..) (Vec) *)
Definition all_itypes : list itype := [TNull; TBoolean; TObject; TArray; TNumber; TString; TInteger].
Definition merge_ty (a b : option (list itype)) : option (option (list itype)) :=
  match a, b with
  | None, None => Some None
  | None, Some x | Some x, None => Some (Some x)
  | Some la, Some lb =>
      (* Vec x Vec goes through BTreeSet: the result is in InstanceType's `Ord` order (declaration order in
         schemars) without duplicates; Single cases give one element, for which the order is moot.  The order
         matters to `roughly` (Vec equality). *)
      let i := filter (fun t => mem_ty t la && mem_ty t lb) all_itypes in
      match i with
      | [] => None
      | _ => Some (Some i)
      end
  end.

(* ------------------------------------------------------------------ merge_so_format *)
Open Scope string_scope.
Definition f_ip := ulit "ip".
Definition f_ipv4 := ulit "ipv4".
Definition f_ipv6 := ulit "ipv6".
Close Scope string_scope.

Definition merge_fmt (a b : option ustring) : option (option ustring) :=
  match a, b with
  | None, o | o, None => Some o
  | Some x, Some y =>
      if ustr_eqb x f_ip && (ustr_eqb y f_ipv4 || ustr_eqb y f_ipv6) then Some (Some y)
      else if ustr_eqb y f_ip && (ustr_eqb x f_ipv4 || ustr_eqb x f_ipv6) then Some (Some x)
      else if ustr_eqb x y then Some (Some x)
      else None
  end.

(* ------------------------------------------------------------------ merge_so_number / merge_so_string *)
Definition merge_nv (a b : numv) : mres numv :=
  if numv_is_none a then MOk b
  else if numv_is_none b then MOk a
  else if numv_eqb a b then MOk a
  else MPanic.

Definition merge_sv (a b : strv) : mres strv :=
  if strv_is_none a then MOk b
  else if strv_is_none b then MOk a
  else if strv_eqb a b then MOk a
  else MPanic.

(* ------------------------------------------------------------------ merge_so_enum_values *)
Definition enum_of (e : option (list json)) (c : option json) : mres (option (list json)) :=
  match e, c with
  | None, None => MOk None
  | Some l, None => MOk (Some l)
  | None, Some v => MOk (Some [v])
  | Some _, Some _ => MPanic
  end.

Definition merge_enum (ae : option (list json)) (ac : option json)
           (be : option (list json)) (bc : option json) : mres (option (list json)) :=
  mbind (enum_of ae ac) (fun aa =>
  mbind (enum_of be bc) (fun bb =>
    match aa, bb with
    | None, None => MOk None
    | None, Some l | Some l, None => MOk (Some l)
    | Some la, Some lb =>
        match filter (fun v => existsb (json_eqb v) lb) la with
        | [] => MNever
        | l => MOk (Some l)
        end
    end)).

(* ------------------------------------------------------------------ validate.rs *)
Definition check_instance (t : itype) (v : json) : bool :=
  match t, v with
  | TNull, JNull => true
  | TBoolean, JBool _ => true
  | TObject, JObj _ => true
  | TArray, JArr _ => true
  | TNumber, JInt _ | TNumber, JFlt _ => true
  | TString, JStr _ => true
  | TInteger, JInt _ => true
  | _, _ => false
  end.

(* schema_value_validate on an object schema: const, enum, instance type *)
Definition value_validate (ty : option (list itype)) (enum : option (list json)) (cst : option json)
           (v : json) : bool :=
  opt_all (fun c => json_eqb v c) cst
  && opt_all (existsb (json_eqb v)) enum
  && opt_all (existsb (fun t => check_instance t v)) ty.

(* ------------------------------------------------------------------ choose_value *)
Definition choose {A} (f : A -> A -> A) (a b : option A) : option A :=
  match a, b with
  | None, o | o, None => o
  | Some x, Some y => Some (f x y)
  end.

Definition min_gt_max (mn mx : option N) : bool :=
  match mn, mx with
  | Some a, Some b => N.ltb b a
  | _, _ => false
  end.

(* ------------------------------------------------------------------ filter_prop / merge_additional *)
Definition filter_prop (ap_other : option schema) (prop : schema) : schema :=
  match ap_other with
  | None | Some (SBool true) => prop
  | Some (SBool false) => SBool false
  | Some s => SAllOf [s; prop]
  end.

(* ------------------------------------------------------------------ roughly *)
Definition sobj_is_empty (s : schema) : bool :=
  match s with
  | SBool _ => false
  | SObj ty fmt enum cst nv sv ik items ai mni mxi uq props req ap mnp mxp allo anyo oneo no ref _ _ =>
      is_none ty && is_none fmt && is_none enum && is_none cst && numv_is_none nv && strv_is_none sv
      && arr_absent ik ai mni mxi uq && obj_absent props req ap mnp mxp
      && is_none allo && is_none anyo && is_none oneo && is_none no && is_none ref
  end.

Definition ik_eqb (a b : items_kind) : bool :=
  match a, b with
  | ItemsAbsent, ItemsAbsent | ItemsSingle, ItemsSingle | ItemsTuple, ItemsTuple => true
  | _, _ => false
  end.

Fixpoint roughly (fuel : nat) (a b : schema) {struct fuel} : bool :=
  match fuel with
  | O => false
  | S f =>
      let ro := fun (x y : option schema) =>
                  match x, y with
                  | None, None => true
                  | Some p, Some q => roughly f p q
                  | _, _ => false
                  end in
      let rl := fix rl (x y : list schema) : bool :=
                  match x, y with
                  | [], [] => true
                  | p :: x', q :: y' => roughly f p q && rl x' y'
                  | _, _ => false
                  end in
      let rol := fun (x y : option (list schema)) =>
                   match x, y with
                   | None, None => true
                   | Some p, Some q => rl p q
                   | _, _ => false
                   end in
      (* roughly_properties zips two BTreeMaps (sorted, unique keys): same size and equal keys with roughly
         equal schemas — stated here independently of the order in which the model lists the properties *)
      let rp := fun (x y : list (ustring * schema)) =>
                  Nat.eqb (length x) (length y)
                  && (fix go (l : list (ustring * schema)) : bool :=
                        match l with
                        | [] => true
                        | (k, p) :: l' =>
                            match assoc k y with
                            | Some q => roughly f p q && go l'
                            | None => false
                            end
                        end) x in
      match a, b with
      | SBool x, SBool y => Bool.eqb x y
      | SBool false, _ | _, SBool false => false
      | SBool true, o | o, SBool true => sobj_is_empty o
      | SObj ty fmt enum cst nv sv ik items ai mni mxi uq props req ap mnp mxp allo anyo oneo no ref _ _,
        SObj ty' fmt' enum' cst' nv' sv' ik' items' ai' mni' mxi' uq' props' req' ap' mnp' mxp' allo' anyo' oneo' no' ref' _ _ =>
          opt_eqb (list_eqb itype_eqb) ty ty'
          && opt_eqb ustr_eqb fmt fmt'
          && opt_eqb (list_eqb json_eqb) enum enum'
          && opt_eqb json_eqb cst cst'
          && (* roughly_subschemas *)
             (if is_none allo && is_none anyo && is_none oneo && is_none no
              then is_none allo' && is_none anyo' && is_none oneo' && is_none no'
              else negb (is_none allo' && is_none anyo' && is_none oneo' && is_none no')
                   && rol allo allo' && rol anyo anyo' && rol oneo oneo' && ro no no')
          && numv_eqb nv nv' && strv_eqb sv sv'
          && (* roughly_array: every keyword is compared (since fix 884aa7b; before it only `items`);
                `contains` is not represented in Spec/Schema.v *)
             (if arr_absent ik ai mni mxi uq then arr_absent ik' ai' mni' mxi' uq'
              else negb (arr_absent ik' ai' mni' mxi' uq')
                   && opt_eqb N.eqb mxi mxi' && opt_eqb N.eqb mni mni' && Bool.eqb uq uq' && ro ai ai'
                   && ik_eqb ik ik' && rl items items')
          && (* roughly_object *)
             (if obj_absent props req ap mnp mxp then obj_absent props' req' ap' mnp' mxp'
              else negb (obj_absent props' req' ap' mnp' mxp')
                   && opt_eqb N.eqb mxp mxp' && opt_eqb N.eqb mnp mnp'
                   && (Nat.eqb (length req) (length req') && forallb (fun k => mem_ustr k req') req)  (* BTreeSet == *)
                   && rp props props' && ro ap ap')
          && opt_eqb ustr_eqb ref ref'
      end
  end.

(* ------------------------------------------------------------------ the merge *)
(* the fields of the array / object group, as tuples *)
Definition arrg := (items_kind * list schema * option schema * option N * option N * bool)%type.
Definition objg := (list (ustring * schema) * list ustring * option schema * option N * option N)%type.

Definition union_req (a b : list ustring) : list ustring :=
  a ++ filter (fun k => negb (mem_ustr k a)) b.

Section Merge.
  Variable D : defs.

  Section Level.
    (* [mrg] = try_merge_schema one level down *)
    Variable mrg : schema -> schema -> mres schema.
    Variable rough : schema -> schema -> bool.

    (* merge_additional_properties *)
    Definition merge_ap (a b : option schema) : mres (option schema) :=
      match a, b with
      | None, o | o, None => MOk o
      | Some x, Some y => mbind (or_false (mrg x y)) (fun s => MOk (Some s))
      end.

    (* merge_items_array (merge.rs:905-933): pairwise merge of item schemas; stops at max_items (no
       additional items allowed then), or at the first unmergeable pair (never if fewer than
       min_items.unwrap_or(1) items were merged, else the tuple ends there) *)
    Fixpoint items_loop (pairs : list (schema * schema)) (len : nat) (mn mx : option N)
      : mres (list schema * bool) :=
      match pairs with
      | [] => MOk ([], true)
      | (x, y) :: rest =>
          match mrg x y with
          | MOk s =>
              if match mx with Some m => N.eqb (N.of_nat (S len)) m | None => false end
              then MOk ([s], false)
              else mbind (items_loop rest (S len) mn mx) (fun r => MOk (s :: fst r, snd r))
          | MNever =>
              if N.ltb (N.of_nat len) (match mn with Some m => m | None => 1%N end) then MNever
              else MOk ([], false)
          | MPanic => MPanic
          | MUnsupp => MUnsupp
          end
      end.

    Definition pad (l : list schema) (d : option schema) (n : nat) : list schema :=
      l ++ repeat (match d with Some x => x | None => SBool true end) (n - length l).

    (* merge_so_array *)
    Definition merge_arr (a b : arrg) : mres arrg :=
      let '(ik, items, ai, mni, mxi, uq) := a in
      let '(ik', items', ai', mni', mxi', uq') := b in
      if arr_absent ik ai mni mxi uq then MOk b
      else if arr_absent ik' ai' mni' mxi' uq' then MOk a
      else
        let mx := choose N.min mxi mxi' in
        let mn := choose N.max mni mni' in
        let u := uq || uq' in
        if min_gt_max mn mx then MNever else
        (* items absent on one side, a tuple on the other: the tuple, cut at max_items *)
        let none_tuple := fun (its : list schema) (add : option schema) =>
          match mx with
          | Some m => if N.leb m (N.of_nat (length its))
                      then MOk (ItemsTuple, firstn (N.to_nat m) its, None, mn, mx, u)
                      else MOk (ItemsTuple, its, add, mn, mx, u)
          | None => MOk (ItemsTuple, its, add, mn, mx, u)
          end in
        (* a single schema against a tuple [its] with additionalItems [add]: (item, single) pairs *)
        let single_tuple := fun (s : schema) (its : list schema) (add : option schema) =>
          mbind (items_loop (map (fun i => (i, s)) its) 0 mn mx) (fun r =>
            if snd r then
              mbind (match add with None => MOk s | Some x => mrg x s end) (fun am =>
                MOk (ItemsTuple, fst r, Some am, mn, mx, u))
            else MOk (ItemsTuple, fst r, None, mn, Some (N.of_nat (length (fst r))), u)) in
        match ik, items, ik', items' with
        | ItemsAbsent, _, ItemsAbsent, _ => MOk (ItemsAbsent, [], None, mn, mx, u)
        | ItemsAbsent, _, ItemsSingle, [s] | ItemsSingle, [s], ItemsAbsent, _ =>
            MOk (ItemsSingle, [s], None, mn, mx, u)
        | ItemsAbsent, _, ItemsTuple, its => none_tuple its ai'
        | ItemsTuple, its, ItemsAbsent, _ => none_tuple its ai
        | ItemsSingle, [s], ItemsSingle, [s'] =>
            mbind (mrg s s') (fun m => MOk (ItemsSingle, [m], None, mn, mx, u))
        | ItemsSingle, [s], ItemsTuple, its => single_tuple s its ai'
        | ItemsTuple, its, ItemsSingle, [s] => single_tuple s its ai
        | ItemsTuple, ia, ItemsTuple, ib =>
            (* each side padded with ITS OWN additionalItems (absent = true) up to the longer length *)
            let n := Nat.max (length ia) (length ib) in
            mbind (items_loop (combine (pad ia ai n) (pad ib ai' n)) 0 mn mx) (fun r =>
              if snd r then
                mbind (match ai, ai' with
                       | None, None => MOk (Some (SBool true))      (* merge_additional_items *)
                       | _, _ => merge_ap ai ai'
                       end) (fun am => MOk (ItemsTuple, fst r, am, mn, mx, u))
              else MOk (ItemsTuple, fst r, None, mn, Some (N.of_nat (length (fst r))), u))
        | _, _, _, _ => MUnsupp
        end.

    (* the property loop of merge_so_object: [ps] = (name, resolved schema computation) in Rust's order *)
    Fixpoint props_loop (req : list ustring) (ap : option schema)
             (ps : list (ustring * mres schema)) : mres (list (ustring * schema)) :=
      match ps with
      | [] => MOk []
      | (k, r) :: rest =>
          mbind r (fun s =>
            match s with
            | SBool false =>
                if mem_ustr k req then MNever
                else match ap with
                     | Some (SBool false) => props_loop req ap rest
                     | _ => mbind (props_loop req ap rest) (fun l => MOk ((k, SBool false) :: l))
                     end
            | _ => mbind (props_loop req ap rest) (fun l => MOk ((k, s) :: l))
            end)
      end.

    Definition merge_obj (a b : objg) : mres objg :=
      let '(props, req, ap, mnp, mxp) := a in
      let '(props', req', ap', mnp', mxp') := b in
      if obj_absent props req ap mnp mxp then MOk b
      else if obj_absent props' req' ap' mnp' mxp' then MOk a
      else
        let r := union_req req req' in
        mbind (merge_ap ap ap') (fun apm =>
          let from_a := map (fun kv => (fst kv,
                              match assoc (fst kv) props' with
                              | Some sb => or_false (mrg (snd kv) sb)
                              | None => MOk (filter_prop ap' (snd kv))
                              end)) props in
          let from_b := map (fun kv => (fst kv, MOk (filter_prop ap (snd kv))))
                            (filter (fun kv => negb (has_key (fst kv) props)) props') in
          mbind (props_loop r apm (from_a ++ from_b)) (fun pm =>
            let mx := choose N.min mxp mxp' in
            let mn := choose N.max mnp mnp' in
            if min_gt_max mn mx then MNever else MOk (pm, r, apm, mn, mx))).

    (* try_merge_with_each_subschema *)
    Fixpoint each_sub (so : schema) (all : list schema) (i : nat) (subs : list schema) : mres (list schema) :=
      match subs with
      | [] => MOk []
      | other :: rest =>
          match mrg so other with
          | MPanic => MPanic
          | MUnsupp => MUnsupp
          | MNever => each_sub so all (S i) rest
          | MOk m =>
              let keep :=
                if rough m so then so
                else if rough m other then other
                else SAllOf (so :: other :: map SNot (firstn i all ++ skipn (S i) all)) in
              mbind (each_sub so all (S i) rest) (fun l => MOk (keep :: l))
          end
      end.

    Definition SOneOf (l : list schema) : schema :=
      SObj None None None None numv_none strv_none ItemsAbsent [] None None None false
           [] [] None None None None None (Some l) None None None None.
    Definition SAnyOf (l : list schema) : schema :=
      SObj None None None None numv_none strv_none ItemsAbsent [] None None None false
           [] [] None None None None (Some l) None None None None None.

    (* try_merge_all one level down (the `not: {allOf: [..]}` arm) *)
    Definition mrg_all (l : list schema) : mres schema :=
      match l with
      | [] => MPanic
      | [only] => MOk only
      | first :: second :: rest =>
          fold_left (fun acc s => mbind acc (fun o => mrg o s)) rest (mrg first second)
      end.

    (* properties.insert(name, Schema::Bool(false)) on a BTreeMap *)
    Fixpoint set_false (k : ustring) (ps : list (ustring * schema)) : list (ustring * schema) :=
      match ps with
      | [] => [(k, SBool false)]
      | (k', s) :: r => if ustr_eqb k k' then (k', SBool false) :: r else (k', s) :: set_false k r
      end.

    (* try_merge_schema_not (merge.rs:423-510) + try_merge_with_subschemas_not (512-605): "subtract" the not-schema.
       Only `required` of the negated object validation is looked at (finding C09-F3); the negated type / enum /
       number / string / array keywords are ignored.  [k]: nesting bound of the model (not: allOf: not: ..). *)
    Fixpoint merge_not (k : nat) (so n : schema) {struct k} : mres schema :=
      match k with
      | O => MUnsupp
      | S k' =>
          match n with
          | SBool true => MNever
          | SBool false => MOk so
          | SObj _ _ _ _ _ _ _ _ _ _ _ _ nprops nreq nap nmnp nmxp nallo nanyo noneo nno _ _ _ =>
              let step1 :=
                if obj_absent nprops nreq nap nmnp nmxp then MOk so else
                match so with
                | SObj ty fmt enum cst nv sv ik items ai mni mxi uq props req ap mnp mxp allo anyo oneo no ref d t =>
                    if obj_absent props req ap mnp mxp then MOk so
                    else if existsb (fun r => mem_ustr r req) nreq then MNever
                    else MOk (SObj ty fmt enum cst nv sv ik items ai mni mxi uq
                                   (fold_left (fun ps r => set_false r ps) nreq props) req ap mnp mxp
                                   allo anyo oneo no ref d t)
                | SBool _ => MOk so
                end in
              mbind step1 (fun so1 =>
                match nallo, nanyo, noneo, nno with
                | None, None, None, None => MOk so1
                | None, Some any, None, None =>
                    match sch_ref so1 with
                    | Some _ => MPanic                       (* merge_schema_object asserts reference.is_none() *)
                    | None => mrg so1 (SAllOf (map SNot any))
                    end
                | None, None, None, Some n' => mbind (mrg so1 n') (fun r => MOk (into_obj r))
                | None, None, Some _, None => MOk so1        (* "this is a kludge" *)
                | Some all, None, None, None =>
                    match mrg_all all with
                    | MOk m => merge_not k' so1 m
                    | MNever => MOk so1                      (* not(unsatisfiable) = everything *)
                    | MPanic => MPanic
                    | MUnsupp => MUnsupp
                    end
                | _, _, _, _ => MPanic                       (* todo!() *)
                end)
          end
      end.

    (* try_merge_with_subschemas (if/then/else are not represented in Spec/Schema.v) *)
    Definition with_subs (so : schema) (allo anyo oneo : option (list schema)) (no : option schema) : mres schema :=
      if is_none allo && is_none anyo && is_none oneo && is_none no then MOk so else
      mbind (match allo with
             | None => MOk so
             | Some l => mbind (fold_left (fun acc other => mbind acc (fun s => mrg s other)) l (MOk so))
                               (fun s => MOk (into_obj s))
             end) (fun so1 =>
      mbind (match no with
             | None => MOk so1
             | Some n => merge_not 6 so1 n
             end) (fun so2 =>
      match anyo, oneo with
      | Some _, Some _ => MPanic
      | _, _ =>
      mbind (match anyo with
             | None => MOk so2
             | Some l => mbind (each_sub so2 l 0 l) (fun ms =>
                           match ms with
                           | [] => MNever
                           | [x] => MOk (into_obj x)
                           | _ => MOk (SAnyOf ms)
                           end)
             end) (fun so3 =>
             match oneo with
             | None => MOk so3
             | Some l => mbind (each_sub so3 l 0 l) (fun ms =>
                           match ms with
                           | [] => MNever
                           | [x] => MOk (into_obj x)
                           | _ => MOk (SOneOf ms)
                           end)
             end)
      end)).

    (* merge_schema_object; both arguments are SObj without `$ref` *)
    Definition merge_so (a b : schema) : mres schema :=
      match a, b with
      | SObj ty fmt enum cst nv sv ik items ai mni mxi uq props req ap mnp mxp allo anyo oneo no _ _ _,
        SObj ty' fmt' enum' cst' nv' sv' ik' items' ai' mni' mxi' uq' props' req' ap' mnp' mxp' allo' anyo' oneo' no' _ _ _ =>
          match merge_ty ty ty' with
          | None => MNever
          | Some tym =>
          match merge_fmt fmt fmt' with
          | None => MNever
          | Some fm =>
          mbind (merge_nv nv nv') (fun nvm =>
          mbind (merge_sv sv sv') (fun svm =>
          mbind (merge_arr (ik, items, ai, mni, mxi, uq) (ik', items', ai', mni', mxi', uq')) (fun am =>
          mbind (merge_obj (props, req, ap, mnp, mxp) (props', req', ap', mnp', mxp')) (fun om =>
          mbind (merge_enum enum cst enum' cst') (fun em =>
            let '(ikm, itm, aim, mnim, mxim, uqm) := am in
            let '(pm, rm, apm, mnpm, mxpm) := om in
            let body := SObj tym fm em None nvm svm ikm itm aim mnim mxim uqm pm rm apm mnpm mxpm
                             None None None None None None None in
            mbind (with_subs body allo anyo oneo no) (fun m1 =>
            mbind (with_subs m1 allo' anyo' oneo' no') (fun m2 =>
              (* the enum filter of merge.rs:207-220 *)
              match m2 with
              | SObj t2 f2 (Some ev) c2 n2 s2 ik2 it2 ai2 mni2 mxi2 uq2 p2 r2 ap2 mnp2 mxp2 al2 an2 on2 no2 ref2 d2 tt2 =>
                  MOk (SObj t2 f2 (Some (filter (value_validate t2 None c2) ev)) c2 n2 s2 ik2 it2 ai2 mni2 mxi2 uq2
                            p2 r2 ap2 mnp2 mxp2 al2 an2 on2 no2 ref2 d2 tt2)
              | x => MOk x
              end)))))))
          end end
      | _, _ => MUnsupp
      end.
  End Level.

  (* try_merge_schema *)
  Fixpoint merge (fuel : nat) (a b : schema) {struct fuel} : mres schema :=
    match fuel with
    | O => MUnsupp
    | S f =>
        match a, b with
        | SBool false, _ | _, SBool false => MNever
        | SBool true, o | o, SBool true => MOk o
        | _, _ =>
            let via_ref := fun (rs : schema) (r : ustring) (other : schema) =>
                             match resolve_ref D r with
                             | None => MPanic
                             | Some res =>
                                 mbind (merge f res other) (fun m =>
                                   if roughly fuel m res then MOk rs else MOk m)
                             end in
            match sch_ref a, sch_ref b with
            | Some ra, Some rb =>
                if ustr_eqb ra rb then MOk (SRef ra) else via_ref a ra b
            | Some ra, None => via_ref a ra b
            | None, Some rb => via_ref b rb a
            | None, None => merge_so (merge f) (roughly fuel) a b
            end
        end
    end.

  (* merge_all; the empty list is a Rust panic *)
  Definition merge_all (fuel : nat) (l : list schema) : mres schema :=
    match l with
    | [] => MPanic
    | [only] => MOk only
    | first :: second :: rest =>
        fold_left (fun acc s => mbind acc (fun o => merge fuel o s)) rest (merge fuel first second)
    end.
End Merge.

(* merge_all's caller maps Err to Schema::Bool(false) *)

(* ------------------------------------------------------------------ the fragment of the theorems
   (Proofs/MergeProofs.v): no `$ref`, no format, no anyOf/oneOf/not, no `number` type, enum/const
   values are non-float scalars — hereditarily. *)
Definition simple_json (v : json) : bool :=
  match v with
  | JNull | JBool _ | JInt _ | JStr _ => true
  | _ => false
  end.

Fixpoint mfrag (s : schema) : bool :=
  match s with
  | SBool _ => true
  | SObj ty fmt enum cst nv sv ik items ai mni mxi uq props req ap mnp mxp allo anyo oneo no ref _ _ =>
      opt_all (forallb (fun t => negb (itype_eqb t TNumber))) ty
      && is_none fmt
      && opt_all (forallb simple_json) enum && opt_all simple_json cst
      && is_none anyo && is_none oneo && is_none no && is_none ref
      && forallb mfrag items && opt_all mfrag ai
      && forallb (fun kv => mfrag (snd kv)) props && opt_all mfrag ap
      && opt_all (forallb mfrag) allo
  end.

(* the scalar fragment ("enum and type restrictions"): only type / enum / const / number and string
   validation, no `number` type, non-float scalar enum values *)
Definition nonum (ty : option (list itype)) : bool :=
  opt_all (forallb (fun t => negb (itype_eqb t TNumber))) ty.
Definition simple_enum (e : option (list json)) : bool := opt_all (forallb simple_json) e.

Definition sfrag (s : schema) : bool :=
  match s with
  | SBool _ => true
  | SObj ty fmt enum cst nv sv ik items ai mni mxi uq props req ap mnp mxp allo anyo oneo no ref _ _ =>
      nonum ty && is_none fmt && simple_enum enum && opt_all simple_json cst
      && arr_absent ik ai mni mxi uq && obj_absent props req ap mnp mxp
      && is_none allo && is_none anyo && is_none oneo && is_none no && is_none ref
  end.

(* the object fragment of the theorems C09_merge_obj_*_partial: hereditarily
     - no `$ref`, format, array keyword, allOf/anyOf/oneOf/not;
     - type lists without `number` (finding C09-F1), enum/const of non-float scalars;
     - additionalProperties absent / true / false (a schema there makes merge_additional defer an allOf wrapper);
     - an object keyword group is guarded by `"type":"object"` (typify merges the group without looking at
       the type: C09_merge_never_refuted_untyped);
     - properties in the fragment again. *)
Definition ap_bool (ap : option schema) : bool :=
  match ap with
  | None | Some (SBool _) => true
  | _ => false
  end.

Definition all_object (ty : option (list itype)) : bool :=
  match ty with
  | Some (t :: l) => forallb (itype_eqb TObject) (t :: l)
  | _ => false
  end.

Fixpoint ofrag (s : schema) : bool :=
  match s with
  | SBool _ => true
  | SObj ty fmt enum cst nv sv ik items ai mni mxi uq props req ap mnp mxp allo anyo oneo no ref _ _ =>
      nonum ty && is_none fmt && simple_enum enum && opt_all simple_json cst
      && arr_absent ik ai mni mxi uq
      && is_none allo && is_none anyo && is_none oneo && is_none no && is_none ref
      && ap_bool ap && (obj_absent props req ap mnp mxp || all_object ty)
      && forallb (fun kv => ofrag (snd kv)) props
  end.

(* ------------------------------------------------------------------ [obj_frag]: the object fragment of
   C09_merge_sound_obj / C09_merge_never_obj / C09_merge_all_perm_equiv (exactness, both directions).
   Keywords IN the fragment, hereditarily:
     type (lists; see [tx]) . enum / const (non-float scalars) . properties (unique names) . required .
     additionalProperties absent | true | false | SCHEMA . minProperties / maxProperties . allOf (members in the
     fragment: this is what merge_additional's `allOf[additional, prop]` wrapper needs) . nested objects.
   Side conditions = decidable exclusion classes of the findings:
     [tx] is the ONE instance type that does not occur, TNumber or TInteger: `integer` and `number` never occur
       together in a pair (Known_F1 := both occur; C09_merge_never_refuted_int_number);
     an object keyword group is guarded by "type":"object" (C09_merge_never_refuted_untyped);
     no format (int32 /\ int64 = never), no array keyword (F5, F7: see [arr_frag] below), no number/string
     validation (`unimplemented!`), no $ref, anyOf, oneOf, not (F3, F10). *)
Definition notype (tx : itype) (ty : option (list itype)) : bool :=
  opt_all (forallb (fun t => negb (itype_eqb t tx))) ty.

Fixpoint uniq_keys {A} (l : list (ustring * A)) : bool :=
  match l with
  | [] => true
  | (k, _) :: r => negb (has_key k r) && uniq_keys r
  end.

Definition all_array (ty : option (list itype)) : bool :=
  match ty with
  | Some (t :: l) => forallb (itype_eqb TArray) (t :: l)
  | _ => false
  end.

(* the array keyword group of a fragment schema.  [wa] = "with arrays": when false no array keyword may occur.
   When true, ONE of two modes for the whole pair / list ([tm] = tuple mode):
     tm = false: `items` absent or a SINGLE schema, no additionalItems;
     tm = true:  `items` absent or a TUPLE, additionalItems absent or a schema of the fragment, and no explicit
                 zero bound (`minItems: 0` / `maxItems: 0`: with maxItems 0 a conflict at a later tuple position
                 REPLACES maxItems by that position — a widening, C09_merge_exact_refuted_maxitems0);
   in both modes minItems / maxItems / uniqueItems, and the group is guarded by "type":"array".
   A single `items` schema never meets a tuple (finding C09-F7: the tuple's additionalItems merged with the single
   schema by `?` makes the whole array never). *)
Definition nonzero (o : option N) : bool := match o with Some 0%N => false | _ => true end.

Definition arr_cond (wa tm : bool) (ty : option (list itype)) (ik : items_kind) (items : list schema)
           (ai : option schema) (mni mxi : option N) (uq : bool) : bool :=
  match ik, items with
  | ItemsAbsent, [] => is_none ai
  | ItemsSingle, [_] => wa && negb tm && is_none ai
  | ItemsTuple, _ => wa && tm
  | _, _ => false
  end
  && (negb tm || (nonzero mni && nonzero mxi))
  && (arr_absent ik ai mni mxi uq || (wa && all_array ty)).

Fixpoint obj_frag (wa tm : bool) (tx : itype) (s : schema) : bool :=
  match s with
  | SBool _ => true
  | SObj ty fmt enum cst nv sv ik items ai mni mxi uq props req ap mnp mxp allo anyo oneo no ref _ _ =>
      notype tx ty && is_none fmt && simple_enum enum && opt_all simple_json cst
      && numv_is_none nv && strv_is_none sv
      && arr_cond wa tm ty ik items ai mni mxi uq && forallb (obj_frag wa tm tx) items
      && opt_all (obj_frag wa tm tx) ai
      && is_none anyo && is_none oneo && is_none no && is_none ref
      && (obj_absent props req ap mnp mxp || all_object ty)
      && uniq_keys props
      && forallb (fun kv => obj_frag wa tm tx (snd kv)) props && opt_all (obj_frag wa tm tx) ap
      && opt_all (forallb (obj_frag wa tm tx)) allo
  end.

(* JSON instances as serde_json produces them: object keys are unique (Spec/Valid.v assumes it too) *)
Fixpoint wf_json (v : json) : bool :=
  match v with
  | JArr l => forallb wf_json l
  | JObj kvs =>
      (fix go (l : list (ustring * json)) : bool :=
         match l with
         | [] => true
         | (k, x) :: r => negb (has_key k r) && wf_json x && go r
         end) kvs
  | _ => true
  end.

(* the instances of the theorems: well formed, and — when arrays are in the fragment — without an empty array
   anywhere (finding C09-F5: two `items` schemas that do not merge make the array schema never, although the
   empty array satisfies both; [no_empty_arr] is defined below) *)

(* decidable exclusion class of finding C09-F1 for a pair: `integer` and `number` both occur *)
Fixpoint uses_type (t : itype) (s : schema) : bool :=
  match s with
  | SBool _ => false
  | SObj ty _ _ _ _ _ _ items ai _ _ _ props _ ap _ _ allo anyo oneo no _ _ _ =>
      match ty with Some l => mem_ty t l | None => false end
      || existsb (uses_type t) items || match ai with Some x => uses_type t x | None => false end
      || existsb (fun kv => uses_type t (snd kv)) props || match ap with Some x => uses_type t x | None => false end
      || match allo with Some l => existsb (uses_type t) l | None => false end
      || match anyo with Some l => existsb (uses_type t) l | None => false end
      || match oneo with Some l => existsb (uses_type t) l | None => false end
      || match no with Some x => uses_type t x | None => false end
  end.
Definition Known_F1 (a b : schema) : bool :=
  (uses_type TInteger a || uses_type TInteger b) && (uses_type TNumber a || uses_type TNumber b).

(* instances without an empty array anywhere (finding C09-F5: conflicting `items` merge to never) *)
Fixpoint no_empty_arr (v : json) : bool :=
  match v with
  | JArr [] => false
  | JArr l => forallb no_empty_arr l
  | JObj kvs => forallb (fun kv => no_empty_arr (snd kv)) kvs
  | _ => true
  end.

Definition inst_ok (wa : bool) (v : json) : bool := wf_json v && (negb wa || no_empty_arr v).

(* ------------------------------------------------------------------ printing (K1) *)
Open Scope string_scope.

Definition show_itype (t : itype) : string :=
  match t with
  | TNull => """null""" | TBoolean => """boolean""" | TInteger => """integer""" | TNumber => """number"""
  | TString => """string""" | TArray => """array""" | TObject => """object"""
  end.

Fixpoint sep (l : list string) : string :=
  match l with
  | [] => ""
  | [x] => x
  | x :: r => x ++ "," ++ sep r
  end.

Definition show_Q (q : Q) : string :=
  "{""$q"":[" ++ show_Z (Qnum q) ++ "," ++ show_Z (Zpos (Qden q)) ++ "]}".

Definition kv (k : string) (v : string) : list string := [("""" ++ k ++ """:" ++ v)%string].
Definition okv {A} (k : string) (o : option A) (f : A -> string) : list string :=
  match o with Some x => kv k (f x) | None => [] end.

Fixpoint show_schema (fuel : nat) (s : schema) {struct fuel} : string :=
  match fuel with
  | O => """fuel"""
  | S f =>
      match s with
      | SBool true => "true"
      | SBool false => "false"
      | SObj ty fmt enum cst nv sv ik items ai mni mxi uq props req ap mnp mxp allo anyo oneo no ref dflt title =>
          let sl := fun (l : list schema) => "[" ++ sep (map (show_schema f) l) ++ "]" in
          "{" ++ sep (
            okv "type" ty (fun l => "[" ++ sep (map show_itype l) ++ "]")
            ++ okv "format" fmt show_ustr
            ++ okv "enum" enum (fun l => "[" ++ sep (map show_json l) ++ "]")
            ++ okv "const" cst show_json
            ++ okv "multipleOf" (n_multiple_of nv) show_Q
            ++ okv "maximum" (n_maximum nv) show_Q
            ++ okv "exclusiveMaximum" (n_exclusive_maximum nv) show_Q
            ++ okv "minimum" (n_minimum nv) show_Q
            ++ okv "exclusiveMinimum" (n_exclusive_minimum nv) show_Q
            ++ okv "maxLength" (s_max_length sv) show_N
            ++ okv "minLength" (s_min_length sv) show_N
            ++ okv "pattern" (s_pattern sv) show_ustr
            ++ match ik, items with
               | ItemsAbsent, _ => []
               | ItemsSingle, x :: _ => kv "items" (show_schema f x)
               | ItemsSingle, [] => []
               | ItemsTuple, l => kv "items" (sl l)
               end
            ++ okv "additionalItems" ai (show_schema f)
            ++ okv "minItems" mni show_N
            ++ okv "maxItems" mxi show_N
            ++ (if uq then kv "uniqueItems" "true" else [])
            ++ match props with
               | [] => []
               | _ => kv "properties" ("{" ++ sep (map (fun p => show_ustr (fst p) ++ ":" ++ show_schema f (snd p)) props) ++ "}")
               end
            ++ match req with
               | [] => []
               | _ => kv "required" ("[" ++ sep (map show_ustr req) ++ "]")
               end
            ++ okv "additionalProperties" ap (show_schema f)
            ++ okv "minProperties" mnp show_N
            ++ okv "maxProperties" mxp show_N
            ++ okv "allOf" allo sl
            ++ okv "anyOf" anyo sl
            ++ okv "oneOf" oneo sl
            ++ okv "not" no (show_schema f)
            ++ okv "$ref" ref (fun r => show_ustr (ulit "#/definitions/" ++ r)%list)
          ) ++ "}"
      end
  end.

Definition show_mres (r : mres schema) : string :=
  match r with
  | MOk s => "ok:" ++ show_schema 60 s
  | MNever => "never"
  | MPanic => "panic"
  | MUnsupp => "unsupp"
  end.

(* ------------------------------------------------------------------ string formats (merge_so_format)
   [asserted f]: f is absent or one of the six string formats that validity asserts (uuid, date, date-time, ip,
   ipv4, ipv6); [fmt_related x y]: the pairs merge_so_format does not declare unsatisfiable. *)
Definition asserted (f : option ustring) : bool :=
  match f with None => true | Some x => is_string_format x end.
Definition fmt_related (x y : ustring) : bool :=
  (ustr_eqb x f_ip && (ustr_eqb y f_ipv4 || ustr_eqb y f_ipv6))
  || (ustr_eqb y f_ip && (ustr_eqb x f_ipv4 || ustr_eqb x f_ipv6))
  || ustr_eqb x y.
