(* Executable model of the `heck` 0.5.0 crate as used by typify
   (heck-0.5.0/src/lib.rs `transform`, `lowercase`, `capitalize`;
   snake.rs `ToSnakeCase`; upper_camel.rs `ToUpperCamelCase` = `ToPascalCase`).
   Definitions ONLY (no proofs): the model must keep evaluating when a proof
   breaks.

   Strings are lists of Unicode scalar values (`ustring = list N`).  The model
   is parametric in the character-class functions of Rust's `char`
   (`is_alphanumeric`, `is_lowercase`, `is_uppercase`, `to_uppercase`,
   `to_lowercase`) and of the `unicode-ident` crate (`is_xid_start`,
   `is_xid_continue`): record `CharClasses`, Section variable `cls`. *)
From Coq Require Import NArith List Bool.
Import ListNotations.
Open Scope N_scope.

Definition ustring := list N.

Record CharClasses := {
  xid_start : N -> bool;      (* unicode_ident::is_xid_start *)
  xid_continue : N -> bool;   (* unicode_ident::is_xid_continue *)
  is_alnum : N -> bool;       (* char::is_alphanumeric *)
  is_lower : N -> bool;       (* char::is_lowercase *)
  is_upper : N -> bool;       (* char::is_uppercase *)
  to_upper : N -> list N;     (* char::to_uppercase (1..3 scalars) *)
  to_lower : N -> list N      (* char::to_lowercase (1..2 scalars) *)
}.

Definition c_sigma : N := 931.        (* 'Σ' U+03A3 *)
Definition c_final_sigma : N := 962.  (* 'ς' U+03C2 *)
Definition c_underscore : N := 95.    (* '_' *)

Fixpoint ustring_eqb (a b : ustring) : bool :=
  match a, b with
  | [], [] => true
  | x :: a', y :: b' => (x =? y) && ustring_eqb a' b'
  | _, _ => false
  end.

(* lib.rs WordMode *)
Inductive wmode := Boundary | Lowercase | Uppercase.

Definition wmode_eqb (a b : wmode) : bool :=
  match a, b with
  | Boundary, Boundary | Lowercase, Lowercase | Uppercase, Uppercase => true
  | _, _ => false
  end.

Section Heck.
  Variable cls : CharClasses.

  (* `s.split(|c: char| !c.is_alphanumeric())`: n separators give n+1 pieces,
     empty pieces included.  `cur` is the current piece, reversed. *)
  Fixpoint split_words_aux (cur : ustring) (s : ustring) : list ustring :=
    match s with
    | [] => [rev cur]
    | c :: r =>
        if is_alnum cls c then split_words_aux (c :: cur) r
        else rev cur :: split_words_aux [] r
    end.

  Definition split_words (s : ustring) : list ustring := split_words_aux [] s.

  (* The `while let Some((i, c)) = char_indices.next()` loop over one word.
     `cur` = word[init..i] reversed, `mode` = the loop variable `mode`,
     `w` = the characters from index i on.  Result: the slices handed to
     `with_word`, in order (one per call; `boundary` is called before every
     call except the very first of the whole string). *)
  Fixpoint segs (cur : ustring) (mode : wmode) (w : ustring) : list ustring :=
    match w with
    | [] => []                                   (* empty word: loop body never runs *)
    | c :: rest =>
        match rest with
        | [] => [rev (c :: cur)]                 (* no peek: with_word(&word[init..]) *)
        | next :: _ =>
            let next_mode :=
              if is_lower cls c then Lowercase
              else if is_upper cls c then Uppercase
              else mode in
            if wmode_eqb next_mode Lowercase && is_upper cls next then
              (* with_word(&word[init..next_i]); init = next_i; mode = Boundary *)
              rev (c :: cur) :: segs [] Boundary rest
            else if wmode_eqb mode Uppercase && is_upper cls c && is_lower cls next then
              (* with_word(&word[init..i]); init = i; mode = Boundary *)
              rev cur :: segs [c] Boundary rest
            else
              segs (c :: cur) next_mode rest
        end
    end.

  (* all slices handed to with_word over the whole string *)
  Definition transform_words (s : ustring) : list ustring :=
    flat_map (segs [] Boundary) (split_words s).

  (* lib.rs `lowercase`: final-sigma rule *)
  Fixpoint lowercase (w : ustring) : ustring :=
    match w with
    | [] => []
    | c :: rest =>
        (if (c =? c_sigma) && (match rest with [] => true | _ => false end)
         then [c_final_sigma] else to_lower cls c) ++ lowercase rest
    end.

  (* lib.rs `capitalize` *)
  Definition capitalize (w : ustring) : ustring :=
    match w with
    | [] => []
    | c :: rest => to_upper cls c ++ lowercase rest
    end.

  Fixpoint join_with (sep : ustring) (ws : list ustring) : ustring :=
    match ws with
    | [] => []
    | [w] => w
    | w :: r => w ++ sep ++ join_with sep r
    end.

  (* transform(s, lowercase, |f| write!(f, "_")) *)
  Definition to_snake_case (s : ustring) : ustring :=
    join_with [c_underscore] (map lowercase (transform_words s)).

  (* transform(s, capitalize, |_| Ok(())) *)
  Definition to_pascal_case (s : ustring) : ustring :=
    concat (map capitalize (transform_words s)).

End Heck.
