(* Algo/RustDefs.v — the ORIGIN side of property C04: serde-derivable Rust type
   definitions as data, serde_derive's rename rules, and [ir_of_rust], the meaning
   of a universe of such definitions in typify's IR (IR/TypeIR.v), so that
   IR/Serde.v ([de]/[ser]) is the semantics of the original types AND of the
   generated ones.  Definitions only.

   Mirrors:
     rename rules      serde_derive-1.0.219/src/internals/case.rs
                       (RenameRule::apply_to_variant, apply_to_field), for ASCII
                       identifiers ([char::is_uppercase] = 'A'..'Z' on that domain)
     name resolution   serde_derive internals/attr.rs: an explicit `rename` wins
                       over the container's `rename_all`; an enum's `rename_all`
                       renames VARIANTS, a variant's `rename_all` renames its FIELDS
     field presence    serde_derive de.rs (missing field: `default` ->
                       Default::default(), Option -> None, else error), ser.rs
                       (skip_serializing_if = "Option::is_none"); `default = "path"` -> path()
   Tied on every run to the compiled ORIGIN crate (py/props/c04.py, K5-origin):
   [de]/[ser] on [ir_of_rust U] vs serde_json::from_str/to_value on the real
   derive output, same JSON candidates. *)
From Coq Require Import String ZArith NArith List Bool.
From Typify Require Import Base.Json IR.TypeIR.
Import ListNotations.
Close Scope string_scope.
Open Scope list_scope.
Open Scope N_scope.

(* ------------------------------------------------------------------ grammar *)
Inductive rty : Type :=
| RtBool
| RtInt (n : ustring)            (* "u8" .. "i64" *)
| RtFloat (n : ustring)          (* "f32" | "f64" *)
| RtString
| RtUnit                         (* () *)
| RtOption (t : rty)
| RtVec (t : rty)
| RtBox (t : rty)
| RtMap (t : rty)                (* HashMap<String,T> / BTreeMap<String,T> *)
| RtTuple (ts : list rty)
| RtArray (t : rty) (n : N)
| RtRef (name : ustring).

Inductive rename_rule :=
| RuNone | RuLower | RuUpper | RuPascal | RuCamel | RuSnake | RuScreamingSnake | RuKebab | RuScreamingKebab.

Record rfield := mkRField {
  rf_name : ustring;             (* Rust identifier *)
  rf_ty : rty;
  rf_rename : option ustring;    (* #[serde(rename = "..")] *)
  rf_default : bool;             (* #[serde(default)] *)
  rf_skip_none : bool;           (* #[serde(skip_serializing_if = "Option::is_none")] *)
  rf_default_fn : option json }. (* #[serde(default = "f")]: the JSON form of the value f() returns *)

Inductive rvshape :=
| RvUnit
| RvNewtype (t : rty)
| RvTuple (ts : list rty)
| RvStruct (rule : rename_rule) (fs : list rfield).

Record rvariant := mkRVariant {
  rv_name : ustring;
  rv_rename : option ustring;
  rv_shape : rvshape }.

Inductive rust_def :=
| RdStruct (name : ustring) (rule : rename_rule) (deny cdefault : bool) (fs : list rfield)
| RdTuple (name : ustring) (ts : list rty)
| RdNewtype (name : ustring) (t : rty)
| RdUnit (name : ustring)
| RdEnum (name : ustring) (tag : tagty) (rule : rename_rule) (deny : bool) (vs : list rvariant).

Definition universe := list rust_def.

Definition rd_name (d : rust_def) : ustring :=
  match d with
  | RdStruct n _ _ _ _ | RdTuple n _ | RdNewtype n _ | RdUnit n | RdEnum n _ _ _ _ => n
  end.

(* ------------------------------------------------------------ rename rules *)
Definition is_upper (c : N) : bool := (65 <=? c) && (c <=? 90).
Definition is_lower (c : N) : bool := (97 <=? c) && (c <=? 122).
Definition to_lower (c : N) : N := if is_upper c then c + 32 else c.
Definition to_upper (c : N) : N := if is_lower c then c - 32 else c.
Definition underscore : N := 95.
Definition hyphen : N := 45.

Definition lower_all (s : ustring) : ustring := map to_lower s.
Definition upper_all (s : ustring) : ustring := map to_upper s.
Definition replace_us (s : ustring) : ustring := map (fun c => if N.eqb c underscore then hyphen else c) s.

Definition lower_first (s : ustring) : ustring :=
  match s with [] => [] | c :: r => to_lower c :: r end.

(* SnakeCase.apply_to_variant: '_' before every upper-case char but the first *)
Fixpoint snake_tail (s : ustring) : ustring :=
  match s with
  | [] => []
  | c :: r => if is_upper c then underscore :: to_lower c :: snake_tail r else to_lower c :: snake_tail r
  end.
Definition snake_of_variant (s : ustring) : ustring :=
  match s with [] => [] | c :: r => to_lower c :: snake_tail r end.

(* PascalCase.apply_to_field *)
Fixpoint pascal_go (cap : bool) (s : ustring) : ustring :=
  match s with
  | [] => []
  | c :: r => if N.eqb c underscore then pascal_go true r
              else if cap then to_upper c :: pascal_go false r
              else c :: pascal_go false r
  end.
Definition pascal_of_field (s : ustring) : ustring := pascal_go true s.

Definition rename_variant (r : rename_rule) (v : ustring) : ustring :=
  match r with
  | RuNone | RuPascal => v
  | RuLower => lower_all v
  | RuUpper => upper_all v
  | RuCamel => lower_first v
  | RuSnake => snake_of_variant v
  | RuScreamingSnake => upper_all (snake_of_variant v)
  | RuKebab => replace_us (snake_of_variant v)
  | RuScreamingKebab => replace_us (upper_all (snake_of_variant v))
  end.

Definition rename_field (r : rename_rule) (f : ustring) : ustring :=
  match r with
  | RuNone | RuLower | RuSnake => f
  | RuUpper | RuScreamingSnake => upper_all f
  | RuPascal => pascal_of_field f
  | RuCamel => lower_first (pascal_of_field f)
  | RuKebab => replace_us f
  | RuScreamingKebab => replace_us (upper_all f)
  end.

Definition field_wire (rule : rename_rule) (f : rfield) : ustring :=
  match rf_rename f with Some w => w | None => rename_field rule (rf_name f) end.

Definition variant_wire (rule : rename_rule) (v : rvariant) : ustring :=
  match rv_rename v with Some w => w | None => rename_variant rule (rv_name v) end.

(* ------------------------------------------------------------ translation *)
(* named types get ids 1..n in universe order; anonymous types are allocated after *)
Fixpoint name_ids (U : universe) (i : N) : list (ustring * id) :=
  match U with
  | [] => []
  | d :: r => (rd_name d, i) :: name_ids r (i + 1)
  end.

Definition tstate := (N * list (id * entry))%type.

Definition alloc (d : details) (st : tstate) : id * tstate :=
  let '(n, es) := st in (n, (n + 1, (n, mkEntry d []) :: es)).

Definition id_of (names : list (ustring * id)) (n : ustring) : id :=
  match assoc n names with Some i => i | None => 0 end.

Definition str_string : ustring := [83; 116; 114; 105; 110; 103].

(* Box<T> is transparent for serde (impl Deserialize/Serialize for Box<T> delegate),
   including serde's "missing Option field is None" rule, so it is looked through *)
Fixpoint tr_ty (names : list (ustring * id)) (t : rty) (st : tstate) {struct t} : id * tstate :=
  match t with
  | RtBool => alloc DBoolean st
  | RtInt n => alloc (DInteger n) st
  | RtFloat n => alloc (DFloat n) st
  | RtString => alloc DString st
  | RtUnit => alloc DUnit st
  | RtOption a => let '(i, st1) := tr_ty names a st in alloc (DOption i) st1
  | RtVec a => let '(i, st1) := tr_ty names a st in alloc (DVec i) st1
  | RtBox a => tr_ty names a st
  | RtMap a => let '(k, st1) := alloc DString st in
               let '(i, st2) := tr_ty names a st1 in alloc (DMap k i) st2
  | RtTuple ts =>
      let '(is, st1) :=
        (fix go (l : list rty) (s : tstate) : list id * tstate :=
           match l with
           | [] => ([], s)
           | a :: r => let '(i, s1) := tr_ty names a s in
                       let '(js, s2) := go r s1 in (i :: js, s2)
           end) ts st in
      alloc (DTuple is) st1
  | RtArray a n => let '(i, st1) := tr_ty names a st in alloc (DArray i n) st1
  | RtRef n => (id_of names n, st)
  end.

Fixpoint tr_tys (names : list (ustring * id)) (l : list rty) (s : tstate) : list id * tstate :=
  match l with
  | [] => ([], s)
  | a :: r => let '(i, s1) := tr_ty names a s in
              let '(js, s2) := tr_tys names r s1 in (i :: js, s2)
  end.

(* JSON form of Default::default() (derived) — what a `default` member takes when missing *)
Fixpoint lookup_def (U : universe) (n : ustring) : option rust_def :=
  match U with
  | [] => None
  | d :: r => if ustr_eqb n (rd_name d) then Some d else lookup_def r n
  end.

Fixpoint all_some {A} (l : list (option A)) : option (list A) :=
  match l with
  | [] => Some []
  | Some x :: r => option_map (cons x) (all_some r)
  | None :: _ => None
  end.

Fixpoint default_json (U : universe) (fuel : nat) (t : rty) {struct fuel} : option json :=
  match fuel with
  | O => None
  | S f =>
      match t with
      | RtBool => Some (JBool false)
      | RtInt _ | RtFloat _ => Some (JInt 0)
      | RtString => Some (JStr [])
      | RtUnit | RtOption _ => Some JNull
      | RtVec _ => Some (JArr [])
      | RtMap _ => Some (JObj [])
      | RtBox a => default_json U f a
      | RtTuple ts => option_map JArr (all_some (map (default_json U f) ts))
      | RtArray a n => option_map (fun j => JArr (repeat j (N.to_nat n))) (default_json U f a)
      | RtRef n =>
          match lookup_def U n with
          | Some (RdStruct _ rule _ _ fs) =>
              option_map JObj
                (all_some (map (fun fl => option_map (fun j => (field_wire rule fl, j))
                                                      (default_json U f (rf_ty fl))) fs))
          | Some (RdTuple _ ts) => option_map JArr (all_some (map (default_json U f) ts))
          | Some (RdNewtype _ a) => default_json U f a
          | Some (RdUnit _) => Some JNull
          | _ => None
          end
      end
  end.

Definition default_fuel : nat := 12.

Definition is_option (t : rty) : bool :=
  match t with RtOption _ | RtBox (RtOption _) | RtBox (RtBox (RtOption _)) => true | _ => false end.

(* `default` + skip_serializing_if = "Vec::is_empty" / "<Map>::is_empty": the member is not written when empty and an
   absent member is the empty collection -- IR/Serde.v's POptional on a Vec / map (rf_skip_none then stands for
   "skipped when intrinsically empty") *)
Definition is_seq_or_map (t : rty) : bool :=
  match t with RtVec _ | RtMap _ => true | _ => false end.

(* member state (IR/Serde.v: POptional = missing -> Default::default() AND skipped when
   None on output; PDefault v = missing -> v, always written; PRequired on an Option =
   missing -> None, always written) *)
Definition field_state (U : universe) (cdefault : bool) (f : rfield) : pstate :=
  match rf_default_fn f with
  | Some j => PDefault j       (* a member-level default function wins over the container default *)
  | None =>
  if rf_skip_none f && (is_option (rf_ty f) || is_seq_or_map (rf_ty f)) then POptional
  else if rf_default f || cdefault then
    match default_json U default_fuel (rf_ty f) with
    | Some j => PDefault j
    | None => PRequired
    end
  else PRequired
  end.

Definition tr_field (U : universe) (names : list (ustring * id)) (rule : rename_rule) (cdefault : bool)
           (f : rfield) (st : tstate) : prop * tstate :=
  let '(i, st1) := tr_ty names (rf_ty f) st in
  let w := field_wire rule f in
  (mkProp (rf_name f) (if ustr_eqb w (rf_name f) then RNone else RRename w) (field_state U cdefault f) i, st1).

Fixpoint tr_fields (U : universe) (names : list (ustring * id)) (rule : rename_rule) (cdefault : bool)
         (fs : list rfield) (st : tstate) : list prop * tstate :=
  match fs with
  | [] => ([], st)
  | f :: r => let '(p, st1) := tr_field U names rule cdefault f st in
              let '(ps, st2) := tr_fields U names rule cdefault r st1 in (p :: ps, st2)
  end.

Definition tr_variant (U : universe) (names : list (ustring * id)) (rule : rename_rule) (v : rvariant)
           (st : tstate) : variant * tstate :=
  let w := variant_wire rule v in
  match rv_shape v with
  | RvUnit => (mkVariant w (rv_name v) VSimple, st)
  | RvNewtype t => let '(i, st1) := tr_ty names t st in (mkVariant w (rv_name v) (VItem i), st1)
  | RvTuple ts => let '(is, st1) := tr_tys names ts st in (mkVariant w (rv_name v) (VTuple is), st1)
  | RvStruct frule fs =>
      let '(ps, st1) := tr_fields U names frule false fs st in (mkVariant w (rv_name v) (VStruct ps), st1)
  end.

Fixpoint tr_variants (U : universe) (names : list (ustring * id)) (rule : rename_rule) (vs : list rvariant)
         (st : tstate) : list variant * tstate :=
  match vs with
  | [] => ([], st)
  | v :: r => let '(x, st1) := tr_variant U names rule v st in
              let '(xs, st2) := tr_variants U names rule r st1 in (x :: xs, st2)
  end.

Definition tr_def (U : universe) (names : list (ustring * id)) (d : rust_def) (st : tstate) : details * tstate :=
  match d with
  | RdStruct n rule deny cdef fs =>
      let '(ps, st1) := tr_fields U names rule cdef fs st in (DStruct n None ps deny, st1)
  | RdTuple n ts =>
      let '(is, st1) := tr_tys names ts st in
      let '(t, st2) := alloc (DTuple is) st1 in (DNewtype n None t CNone, st2)
  | RdNewtype n t =>
      (* a plain `struct N(T)` (no #[serde(transparent)]) reads and writes exactly like T, EXCEPT that an
         absent member of type N is an error even when T is an Option: serde's MissingFieldDeserializer only
         answers deserialize_option, and the derived impl calls deserialize_newtype_struct.  IR/Serde.v's
         [DNewtype .. CNone] is typify's TRANSPARENT newtype (an absent member is accepted when the inner
         type reaches an Option), so the plain newtype struct is rendered as the single-variant untagged
         enum around T, which has the same de / ser as T and is an error when absent (K5-origin). *)
      let '(i, st1) := tr_ty names t st in
      (DEnum n None TagUntagged [mkVariant [] n (VItem i)] false [], st1)
  | RdUnit n =>
      let '(i, st1) := alloc DUnit st in (DNewtype n None i CNone, st1)
  | RdEnum n tag rule deny vs =>
      let '(xs, st1) := tr_variants U names rule vs st in (DEnum n None tag xs deny [], st1)
  end.

Fixpoint tr_defs (U0 : universe) (names : list (ustring * id)) (ds : universe) (i : N) (st : tstate) : tstate :=
  match ds with
  | [] => st
  | d :: r =>
      let '(det, (n, es)) := tr_def U0 names d st in
      tr_defs U0 names r (i + 1) (n, (i, mkEntry det []) :: es)
  end.

Definition std_settings : settings :=
  mkSettings None [] false [58; 58; 115; 116; 100].

Definition ir_of_rust (U : universe) : space :=
  let names := name_ids U 1 in
  let first := N.of_nat (length U) + 1 in
  let '(n, es) := tr_defs U names U 1 (first, []) in
  mkSpace es n std_settings false false false false [].

(* id of a named type of the universe *)
Definition rust_id (U : universe) (n : ustring) : id := id_of (name_ids U 1) n.
