(* Frontends.v — executable model of typify's three front-ends (property C15).
   Definitions ONLY (proofs live in Proofs/FrontendsProofs.v).

   Strings are `ustring = list N` (Unicode scalar values).  Rust's
   `str::find(c)` for an ASCII `c` followed by `&s[..i]`, `&s[i+1..]` is
   `split_at c s` (first occurrence; byte index = a char boundary because the
   needle is ASCII).

   Mirrors (file:line at the pinned commit):
     cargo-typify/src/lib.rs  62-85  CliArgs::output_path / use_builder
                              94-132 CrateSpec::from_str (is_crate, convert)
                              143-196 convert()
     cargo-typify/src/main.rs 15-35  main
     typify-macro/src/lib.rs  98-158 MacroCrateSpec / CrateName / is_crate
                              181-229 do_import_types (settings part)
     typify-macro/src/token_utils.rs 21-47 TypeAndImpls::into_name_and_impls
     typify-impl/src/lib.rs   355-366 CrateVers::parse
                              415-571 TypeSpaceSettings / TypeSpacePatch setters
     std::path::PathBuf::set_extension (1.80.1, Unix)                          *)
From Coq Require Import List NArith Bool String Ascii DecimalString.
Import ListNotations.
Open Scope N_scope.

Definition ustring := list N.

Fixpoint ueqb (a b : ustring) : bool :=
  match a, b with
  | [], [] => true
  | x :: a', y :: b' => (x =? y) && ueqb a' b'
  | _, _ => false
  end.

(* ASCII code points used by the code *)
Definition c_eq := 61.      (* '=' *)
Definition c_at := 64.      (* '@' *)
Definition c_dash := 45.    (* '-' *)
Definition c_under := 95.   (* '_' *)
Definition c_bang := 33.    (* '!' *)
Definition c_star := 42.    (* '*' *)
Definition c_slash := 47.   (* '/' *)
Definition c_dot := 46.     (* '.' *)
Definition s_rs : ustring := [114; 115].     (* "rs" *)
Definition s_minus : ustring := [c_dash].   (* "-" *)

(* s.find(c) ; (&s[..i], &s[i+1..]) *)
Fixpoint split_at (c : N) (s : ustring) : option (ustring * ustring) :=
  match s with
  | [] => None
  | x :: r =>
      if x =? c then Some ([], r)
      else match split_at c r with
           | Some (a, b) => Some (x :: a, b)
           | None => None
           end
  end.

(* ------------------------------------------------------------------ *)
(* 1. crate specifiers                                                  *)
(* ------------------------------------------------------------------ *)

Section CrateSpecs.
  (* the semver version type and `semver::Version::parse(s).ok()`: external *)
  Variable V : Type.
  Variable parse_version : ustring -> option V.
  (* the Unicode class the front-end's `is_crate` tests:
     cargo-typify: char::is_alphabetic ; typify-macro: char::is_alphanumeric *)
  Variable letter : N -> bool.

  Inductive crate_vers := Never | Any | Version (v : V).

  (* CrateVers::parse, typify-impl/src/lib.rs:357-365 *)
  Definition vers_parse (s : ustring) : option crate_vers :=
    if ueqb s [c_bang] then Some Never
    else if ueqb s [c_star] then Some Any
    else match parse_version s with
         | Some v => Some (Version v)
         | None => None
         end.

  (* fn is_crate: !s.contains(|cc| !cc.is_X() && cc != '-' && cc != '_') *)
  Definition crate_char (c : N) : bool := letter c || (c =? c_dash) || (c =? c_under).
  Definition is_crate (s : ustring) : bool := forallb crate_char s.

  Record cli_spec := { cs_name : ustring; cs_version : crate_vers; cs_rename : option ustring }.

  (* CrateSpec::from_str::convert, cargo-typify/src/lib.rs:102-128 *)
  Definition cli_parse_spec (s : ustring) : option cli_spec :=
    let step1 :=
      match split_at c_eq s with
      | Some (rename, rest) =>
          if negb (is_crate rename) then None else Some (Some rename, rest)
      | None => Some (None, s)
      end in
    match step1 with
    | None => None
    | Some (rename, s') =>
        match split_at c_at s' with
        | None => None
        | Some (crate_str, vers_str) =>
            if negb (is_crate crate_str) then None
            else match vers_parse vers_str with
                 | None => None
                 | Some version =>
                     Some {| cs_name := crate_str; cs_version := version; cs_rename := rename |}
                 end
        end
    end.

  (* clap applies the value parser to every `--crate` occurrence; one failure
     rejects the whole command line *)
  Fixpoint cli_parse_specs (raw : list ustring) : option (list cli_spec) :=
    match raw with
    | [] => Some []
    | s :: r =>
        match cli_parse_spec s, cli_parse_specs r with
        | Some c, Some cs => Some (c :: cs)
        | _, _ => None
        end
    end.

  (* MacroCrateSpec::deserialize, typify-macro/src/lib.rs:103-134 :
     (original, version) or Err *)
  Definition macro_parse_spec (ss : ustring) : option (option ustring * crate_vers) :=
    let step1 :=
      match split_at c_at ss with
      | Some (original_str, rest) =>
          if negb (is_crate original_str) then None else Some (Some original_str, rest)
      | None => Some (None, ss)
      end in
    match step1 with
    | None => None
    | Some (original, vers_str) =>
        match vers_parse vers_str with
        | Some version => Some (original, version)
        | None => None
        end
    end.

  (* CrateName::deserialize, typify-macro/src/lib.rs:138-154 *)
  Definition macro_parse_name (ss : ustring) : option ustring :=
    if is_crate ss then Some ss else None.
End CrateSpecs.

Arguments Never {V}.
Arguments Any {V}.
Arguments Version {V} v.
Arguments cs_name {V} c.
Arguments cs_version {V} c.
Arguments cs_rename {V} c.

(* what a user types for (name, version text, rename) *)
Definition render_spec (name ver : ustring) (rename : option ustring) : ustring :=
  match rename with
  | Some r => r ++ c_eq :: name ++ c_at :: ver
  | None => name ++ c_at :: ver
  end.

(* crates.io names: [A-Za-z0-9_-]+ ; the README's x-rust-type schema: ^[a-zA-Z0-9_-]+$ *)
Definition ascii_alpha (c : N) : bool :=
  ((65 <=? c) && (c <=? 90)) || ((97 <=? c) && (c <=? 122)).
Definition ascii_digit (c : N) : bool := (48 <=? c) && (c <=? 57).
Definition name_char (c : N) : bool :=
  ascii_alpha c || ascii_digit c || (c =? c_dash) || (c =? c_under).
Definition name_char_nodigit (c : N) : bool :=
  ascii_alpha c || (c =? c_dash) || (c =? c_under).
Definition valid_name (s : ustring) : bool := negb (ueqb s []) && forallb name_char s.
Definition valid_name_nodigit (s : ustring) : bool := negb (ueqb s []) && forallb name_char_nodigit s.

(* ------------------------------------------------------------------ *)
(* 2. output path                                                       *)
(* ------------------------------------------------------------------ *)

(* pieces between '/' : k slashes give k+1 pieces *)
Fixpoint split_slash (s : ustring) : list ustring :=
  match s with
  | [] => [[]]
  | x :: r =>
      if x =? c_slash then [] :: split_slash r
      else match split_slash r with
           | p :: ps => (x :: p) :: ps
           | [] => [[x]]
           end
  end.

Fixpoint join_slash (ps : list ustring) : ustring :=
  match ps with
  | [] => []
  | [p] => p
  | p :: rest => p ++ c_slash :: join_slash rest
  end.

(* Path::components (Unix) skips empty pieces and "." pieces (a leading "."
   is CurDir, which is not Normal either).  Last Normal-or-ParentDir piece,
   with the pieces in front of it. *)
Definition skip_piece (p : ustring) : bool := ueqb p [] || ueqb p [c_dot].

Fixpoint last_component (ps : list ustring) : option (list ustring * ustring) :=
  match ps with
  | [] => None
  | x :: rest =>
      match last_component rest with
      | Some (pre, y) => Some (x :: pre, y)
      | None => if skip_piece x then None else Some ([], x)
      end
  end.

(* split a file name at its LAST '.': (before, after) *)
Fixpoint rsplit_dot (f : ustring) : option (ustring * ustring) :=
  match f with
  | [] => None
  | x :: r =>
      match rsplit_dot r with
      | Some (a, b) => Some (x :: a, b)
      | None => if x =? c_dot then Some ([], r) else None
      end
  end.

(* Path::file_stem via rsplit_file_at_dot: no dot -> whole name; the only dot
   is the leading one (".hidden") -> whole name *)
Definition file_stem (f : ustring) : ustring :=
  match rsplit_dot f with
  | None => f
  | Some ([], _) => f
  | Some (before, _) => before
  end.

(* PathBuf::set_extension("rs"): (changed?, new path).  The buffer is truncated
   right after the stem of the last component, then ".rs" is appended. *)
Definition set_extension_rs (p : ustring) : bool * ustring :=
  match last_component (split_slash p) with
  | None => (false, p)
  | Some (pre, f) =>
      if ueqb f [c_dot; c_dot] then (false, p)
      else (true, join_slash (pre ++ [file_stem f]) ++ c_dot :: s_rs)
  end.

(* CliArgs::output_path, cargo-typify/src/lib.rs:64-79.  None = stdout *)
Definition output_path (input : ustring) (output : option ustring) : option ustring :=
  match output with
  | Some output_path => if ueqb output_path s_minus then None else Some output_path
  | None => Some (snd (set_extension_rs input))
  end.

(* ------------------------------------------------------------------ *)
(* 3. TypeAndImpls                                                      *)
(* ------------------------------------------------------------------ *)

Inductive timpl := IFromStr | IDisplay | IDefault.
Definition timpl_eqb (a b : timpl) : bool :=
  match a, b with
  | IFromStr, IFromStr | IDisplay, IDisplay | IDefault, IDefault => true
  | _, _ => false
  end.

(* one `ImplTrait`: modifier (`?` or none) and `impl_ident.to_string().parse().ok()` *)
Inductive modifier := MNone | MMaybe.
Definition impl_spec := (modifier * option timpl)%type.

(* a HashSet<TypeSpaceImpl> as a duplicate-free list in some order *)
Definition set_insert (i : timpl) (s : list timpl) : list timpl :=
  if existsb (timpl_eqb i) s then s else s ++ [i].
Definition set_remove (i : timpl) (s : list timpl) : list timpl :=
  filter (fun j => negb (timpl_eqb i j)) s.

Definition default_impls : list timpl := [IFromStr; IDisplay].

(* into_name_and_impls, token_utils.rs:29-45 ; the result is iterated in an
   unspecified order: see `impls_as_vec` *)
Definition impls_of_specs (specs : list impl_spec) : list timpl :=
  fold_left (fun s sp =>
               match sp with
               | (_, None) => s                       (* unknown trait: silently ignored *)
               | (MNone, Some i) => set_insert i s
               | (MMaybe, Some i) => set_remove i s
               end) specs default_impls.

(* ------------------------------------------------------------------ *)
(* 4. settings                                                          *)
(* ------------------------------------------------------------------ *)

Section Settings.
  Variable V : Type.     (* semver::Version *)
  Variable S : Type.     (* schemars SchemaObject (conversion keys) *)

  Inductive policy := Generate | Allow | Deny.

  Record crate_entry := { ce_version : crate_vers V; ce_rename : option ustring }.
  Record tpatch := { tp_rename : option ustring; tp_derives : list ustring }.
  Record treplace := { tr_type : ustring; tr_impls : list timpl }.
  Record tconv := { tc_schema : S; tc_type : ustring; tc_impls : list timpl }.

  (* BTreeMap<String, A>: association list, newest binding first; `lookup`
     returns the newest, so `(k,v) ::` is insert-with-overwrite. *)
  Definition smap (A : Type) := list (ustring * A).
  Fixpoint lookup {A} (k : ustring) (m : smap A) : option A :=
    match m with
    | [] => None
    | (k', v) :: r => if ueqb k k' then Some v else lookup k r
    end.
  Definition m_insert {A} (k : ustring) (v : A) (m : smap A) : smap A := (k, v) :: m.

  Record settings := {
    s_type_mod : option ustring;
    s_extra_derives : list ustring;
    s_struct_builder : bool;
    s_unknown : policy;
    s_crates : smap crate_entry;
    s_map_type : ustring;
    s_patch : smap tpatch;
    s_replace : smap treplace;
    s_convert : list tconv
  }.

  (* "::std::collections::HashMap" *)
  Definition default_map_type : ustring :=
    [58;58;115;116;100;58;58;99;111;108;108;101;99;116;105;111;110;115;58;58;72;97;115;104;77;97;112].

  (* TypeSpaceSettings::default() *)
  Definition default_settings : settings :=
    {| s_type_mod := None; s_extra_derives := []; s_struct_builder := false; s_unknown := Generate;
       s_crates := []; s_map_type := default_map_type; s_patch := []; s_replace := []; s_convert := [] |}.

  (* setters, typify-impl/src/lib.rs:423-556 *)
  Definition with_derive (d : ustring) (s : settings) : settings :=
    if existsb (ueqb d) (s_extra_derives s) then s
    else {| s_type_mod := s_type_mod s; s_extra_derives := s_extra_derives s ++ [d];
            s_struct_builder := s_struct_builder s; s_unknown := s_unknown s; s_crates := s_crates s;
            s_map_type := s_map_type s; s_patch := s_patch s; s_replace := s_replace s;
            s_convert := s_convert s |}.
  Definition with_struct_builder (b : bool) (s : settings) : settings :=
    {| s_type_mod := s_type_mod s; s_extra_derives := s_extra_derives s;
       s_struct_builder := b; s_unknown := s_unknown s; s_crates := s_crates s;
       s_map_type := s_map_type s; s_patch := s_patch s; s_replace := s_replace s;
       s_convert := s_convert s |}.
  Definition with_replacement (name ty : ustring) (impls : list timpl) (s : settings) : settings :=
    {| s_type_mod := s_type_mod s; s_extra_derives := s_extra_derives s;
       s_struct_builder := s_struct_builder s; s_unknown := s_unknown s; s_crates := s_crates s;
       s_map_type := s_map_type s; s_patch := s_patch s;
       s_replace := m_insert name {| tr_type := ty; tr_impls := impls |} (s_replace s);
       s_convert := s_convert s |}.
  Definition with_patch (name : ustring) (p : tpatch) (s : settings) : settings :=
    {| s_type_mod := s_type_mod s; s_extra_derives := s_extra_derives s;
       s_struct_builder := s_struct_builder s; s_unknown := s_unknown s; s_crates := s_crates s;
       s_map_type := s_map_type s; s_patch := m_insert name p (s_patch s); s_replace := s_replace s;
       s_convert := s_convert s |}.
  Definition with_conversion (sc : S) (ty : ustring) (impls : list timpl) (s : settings) : settings :=
    {| s_type_mod := s_type_mod s; s_extra_derives := s_extra_derives s;
       s_struct_builder := s_struct_builder s; s_unknown := s_unknown s; s_crates := s_crates s;
       s_map_type := s_map_type s; s_patch := s_patch s; s_replace := s_replace s;
       s_convert := s_convert s ++ [{| tc_schema := sc; tc_type := ty; tc_impls := impls |}] |}.
  Definition with_unknown_crates (p : policy) (s : settings) : settings :=
    {| s_type_mod := s_type_mod s; s_extra_derives := s_extra_derives s;
       s_struct_builder := s_struct_builder s; s_unknown := p; s_crates := s_crates s;
       s_map_type := s_map_type s; s_patch := s_patch s; s_replace := s_replace s;
       s_convert := s_convert s |}.
  Definition with_crate (name : ustring) (v : crate_vers V) (rename : option ustring) (s : settings) : settings :=
    {| s_type_mod := s_type_mod s; s_extra_derives := s_extra_derives s;
       s_struct_builder := s_struct_builder s; s_unknown := s_unknown s;
       s_crates := m_insert name {| ce_version := v; ce_rename := rename |} (s_crates s);
       s_map_type := s_map_type s; s_patch := s_patch s; s_replace := s_replace s;
       s_convert := s_convert s |}.
  Definition with_map_type (m : ustring) (s : settings) : settings :=
    {| s_type_mod := s_type_mod s; s_extra_derives := s_extra_derives s;
       s_struct_builder := s_struct_builder s; s_unknown := s_unknown s; s_crates := s_crates s;
       s_map_type := m; s_patch := s_patch s; s_replace := s_replace s;
       s_convert := s_convert s |}.

  (* TypeSpacePatch::default().with_rename(..).with_derive(..)*, lib.rs:559-571 *)
  Definition patch_with_rename (r : ustring) (p : tpatch) : tpatch :=
    {| tp_rename := Some r; tp_derives := tp_derives p |}.
  Definition patch_with_derive (d : ustring) (p : tpatch) : tpatch :=
    {| tp_rename := tp_rename p; tp_derives := tp_derives p ++ [d] |}.
  Definition default_patch : tpatch := {| tp_rename := None; tp_derives := [] |}.

  (* ---------------- the abstract option record ---------------- *)
  Definition crate_opt := (ustring * crate_vers V * option ustring)%type.   (* name, version, rename *)
  Record popt := { po_rename : option ustring; po_derives : list ustring }.
  Record opts := {
    o_derives : list ustring;
    o_struct_builder : bool;
    o_map_type : option ustring;                       (* None: leave the default *)
    o_crates : list crate_opt;
    o_unknown : option policy;                         (* None: leave the default *)
    o_patches : list (ustring * popt);
    o_replaces : list (ustring * (ustring * list timpl));
    o_converts : list (S * (ustring * list timpl))
  }.

  Definition build_patch (p : popt) : tpatch :=
    let s := match po_rename p with Some r => patch_with_rename r default_patch | None => default_patch end in
    fold_left (fun s d => patch_with_derive d s) (po_derives p) s.

  (* ---- builder: the setter calls a user of the library writes for `o` ---- *)
  Definition builder_settings (o : opts) : settings :=
    let s := default_settings in
    let s := with_struct_builder (o_struct_builder o) s in
    let s := fold_left (fun s d => with_derive d s) (o_derives o) s in
    let s := fold_left (fun s '(n, v, r) => with_crate n v r s) (o_crates o) s in
    let s := match o_map_type o with Some m => with_map_type m s | None => s end in
    let s := match o_unknown o with Some p => with_unknown_crates p s | None => s end in
    let s := fold_left (fun s '(n, p) => with_patch n (build_patch p) s) (o_patches o) s in
    let s := fold_left (fun s '(n, (ty, impls)) => with_replacement n ty impls s) (o_replaces o) s in
    let s := fold_left (fun s '(sc, (ty, impls)) => with_conversion sc ty impls s) (o_converts o) s in
    s.

  (* ---- CLI ---- *)
  Record cli_args := {
    ca_input : ustring;
    ca_builder : bool;
    ca_no_builder : bool;
    ca_derives : list ustring;
    ca_output : option ustring;
    ca_crates : list (cli_spec V);
    ca_map_type : option ustring;
    ca_unknown : option policy     (* clap's value_parser admits exactly generate|allow|deny *)
  }.
  Definition use_builder (a : cli_args) : bool := negb (ca_no_builder a).

  (* convert(), cargo-typify/src/lib.rs:150-178 *)
  Definition cli_settings (a : cli_args) : settings :=
    let s := default_settings in
    let s := with_struct_builder (use_builder a) s in
    let s := fold_left (fun s d => with_derive d s) (ca_derives a) s in
    let s := fold_left (fun s c => with_crate (cs_name c) (cs_version c) (cs_rename c) s) (ca_crates a) s in
    let s := match ca_map_type a with Some m => with_map_type m s | None => s end in
    let s := match ca_unknown a with Some p => with_unknown_crates p s | None => s end in
    s.

  (* the command line a user writes for `o` (flags only; crate specs already parsed) *)
  Definition cli_of_opts (input : ustring) (output : option ustring) (o : opts) : cli_args :=
    {| ca_input := input; ca_builder := false; ca_no_builder := negb (o_struct_builder o);
       ca_derives := o_derives o; ca_output := output;
       ca_crates := map (fun '(n, v, r) => {| cs_name := n; cs_version := v; cs_rename := r |}) (o_crates o);
       ca_map_type := o_map_type o; ca_unknown := o_unknown o |}.

  Definition cli_expressible (o : opts) : Prop :=
    o_patches o = [] /\ o_replaces o = [] /\ o_converts o = [].

  (* ---- macro ---- *)
  (* A HashMap<K,_> built by serde from the entries in source order: a later
     entry with an equal key replaces the earlier value. *)
  Fixpoint hm_insert {A} (k : ustring) (v : A) (m : list (ustring * A)) : list (ustring * A) :=
    match m with
    | [] => [(k, v)]
    | (k', v') :: r => if ueqb k k' then (k', v) :: r else (k', v') :: hm_insert k v r
    end.
  Definition hm_of_list {A} (l : list (ustring * A)) : list (ustring * A) :=
    fold_left (fun m '(k, v) => hm_insert k v m) l [].

  (* what the user writes in `crates = { "key" = "value" }` for (name, version, rename):
     no rename: "name" = "version" ; rename: "rename" = "name@version" *)
  Definition macro_crate_entry (c : crate_opt) : ustring * (option ustring * crate_vers V) :=
    match c with
    | (n, v, None) => (n, (None, v))
    | (n, v, Some r) => (r, (Some n, v))
    end.

  (* `X: ?FromStr + ?Display + Default` syntax for a builder impl list *)
  Definition encode_impls (impls : list timpl) : list impl_spec :=
    (if existsb (timpl_eqb IFromStr) impls then [] else [(MMaybe, Some IFromStr)]) ++
    (if existsb (timpl_eqb IDisplay) impls then [] else [(MMaybe, Some IDisplay)]) ++
    (if existsb (timpl_eqb IDefault) impls then [(MNone, Some IDefault)] else []).

  (* MacroSettings after deserialisation; the three HashMaps are given as the
     sequence their `into_iter()` yields *)
  Record macro_input := {
    mi_derives : list ustring;
    mi_struct_builder : bool;                 (* #[serde(default)] = false *)
    mi_unknown : policy;                      (* #[serde(default)] = Generate *)
    mi_crates : list (ustring * (option ustring * crate_vers V));
    mi_map_type : ustring;                    (* #[serde(default)] = MapType::default() *)
    mi_patch : list (ustring * popt);
    mi_replace : list (ustring * (ustring * list impl_spec));
    mi_convert : list (S * (ustring * list impl_spec))   (* OrderedMap: source order *)
  }.

  (* do_import_types, typify-macro/src/lib.rs:197-226.  `vec_order` is the order in
     which a HashSet<TypeSpaceImpl> is drained into the Vec (any permutation). *)
  Variable vec_order : list timpl -> list timpl.

  (* The binding of TypeSpaceSettings.crates that ONE entry of the macro's `crates`
     table stands for (key = the crate named in x-rust-type):
       "name" = "ver"            ->  name     |-> { ver, rename: None }
       "rename" = "original@ver" ->  original |-> { ver, rename: Some rename }
     EVERY entry is handed to with_crate, whatever its version: `!` (Never) too.  The
     generator distinguishes a crate that is listed as Never (its types are always
     generated) from a crate that is not listed (decided by `unknown_crates`),
     rust_extension.rs:61-84, so dropping a Never entry changes the output under
     unknown_crates = Allow. *)
  Definition macro_crate_binding (e : ustring * (option ustring * crate_vers V)) : ustring * crate_entry :=
    let '(crate_name, (original, version)) := e in
    match original with
    | Some original_crate => (original_crate, {| ce_version := version; ce_rename := Some crate_name |})
    | None => (crate_name, {| ce_version := version; ce_rename := None |})
    end.

  Definition macro_settings_of (mi : macro_input) : settings :=
    let s := default_settings in
    let s := fold_left (fun s d => with_derive d s) (mi_derives mi) s in
    let s := with_struct_builder (mi_struct_builder mi) s in
    let s := fold_left (fun s '(n, p) => with_patch n (build_patch p) s) (mi_patch mi) s in
    let s := fold_left (fun s '(n, (ty, specs)) => with_replacement n ty (vec_order (impls_of_specs specs)) s)
                       (mi_replace mi) s in
    let s := fold_left (fun s '(sc, (ty, specs)) => with_conversion sc ty (vec_order (impls_of_specs specs)) s)
                       (mi_convert mi) s in
    let s := fold_left (fun s '(crate_name, (original, version)) =>
                          match original with
                          | Some original_crate => with_crate original_crate version (Some crate_name) s
                          | None => with_crate crate_name version None s
                          end) (mi_crates mi) s in
    let s := with_unknown_crates (mi_unknown mi) s in
    let s := with_map_type (mi_map_type mi) s in
    s.

  (* the macro invocation a user writes for `o`, source order *)
  Definition macro_crates_src (o : opts) := map macro_crate_entry (o_crates o).
  Definition macro_replace_src (o : opts) :=
    map (fun '(n, (ty, impls)) => (n, (ty, encode_impls impls))) (o_replaces o).
  Definition macro_convert_src (o : opts) :=
    map (fun '(sc, (ty, impls)) => (sc, (ty, encode_impls impls))) (o_converts o).

  Definition macro_input_of (o : opts) crates_it patch_it replace_it : macro_input :=
    {| mi_derives := o_derives o; mi_struct_builder := o_struct_builder o;
       mi_unknown := match o_unknown o with Some p => p | None => Generate end;
       mi_crates := crates_it;
       mi_map_type := match o_map_type o with Some m => m | None => default_map_type end;
       mi_patch := patch_it; mi_replace := replace_it; mi_convert := macro_convert_src o |}.

  (* ---- equivalence of settings: BTreeMaps by lookup, impl lists as sets ---- *)
  Definition same_set (a b : list timpl) : Prop := forall i, In i a <-> In i b.
  Definition replace_equiv (a b : option treplace) : Prop :=
    match a, b with
    | None, None => True
    | Some x, Some y => tr_type x = tr_type y /\ same_set (tr_impls x) (tr_impls y)
    | _, _ => False
    end.
  Definition conv_equiv (x y : tconv) : Prop :=
    tc_schema x = tc_schema y /\ tc_type x = tc_type y /\ same_set (tc_impls x) (tc_impls y).

  Definition settings_equiv (a b : settings) : Prop :=
    s_type_mod a = s_type_mod b /\
    s_extra_derives a = s_extra_derives b /\
    s_struct_builder a = s_struct_builder b /\
    s_unknown a = s_unknown b /\
    (forall k, lookup k (s_crates a) = lookup k (s_crates b)) /\
    s_map_type a = s_map_type b /\
    (forall k, lookup k (s_patch a) = lookup k (s_patch b)) /\
    (forall k, replace_equiv (lookup k (s_replace a)) (lookup k (s_replace b))) /\
    Forall2 conv_equiv (s_convert a) (s_convert b).

  (* ---- main, cargo-typify/src/main.rs:15-35 ---- *)
  Inductive effect := WriteFile (path contents : ustring) | PrintStdout (contents : ustring).
  Inductive exit := ExitOk | ExitErr.
  (* `convert(&args)`: external (reads the file, runs typify, rustfmt) *)
  Variable convert : cli_args -> option ustring.
  (* clap: None = the command line was rejected (process exits before convert) *)
  Definition main (parsed : option cli_args) : exit * list effect :=
    match parsed with
    | None => (ExitErr, [])
    | Some args =>
        match convert args with
        | None => (ExitErr, [])                                     (* `?` *)
        | Some contents =>
            match output_path (ca_input args) (ca_output args) with
            | Some p => (ExitOk, [WriteFile p contents])            (* write errors: ExitErr, same effect attempt *)
            | None => (ExitOk, [PrintStdout contents])
            end
        end
    end.
End Settings.

(* ------------------------------------------------------------------ *)
(* 5. printing for the correspondence runs                              *)
(* ------------------------------------------------------------------ *)
Open Scope string_scope.

Definition show_N (n : N) : string := NilEmpty.string_of_uint (N.to_uint n).
Definition show_u (s : ustring) : string := String.concat "," (map show_N s).
Definition show_ou (s : option ustring) : string :=
  match s with None => "-" | Some x => "+" ++ show_u x end.

Definition show_vers (v : crate_vers ustring) : string :=
  match v with Never => "!" | Any => "*" | Version s => "v" ++ show_u s end.

Definition show_cli_spec (r : option (cli_spec ustring)) : string :=
  match r with
  | None => "none"
  | Some c => "some|" ++ show_u (cs_name c) ++ "|" ++ show_vers (cs_version c) ++ "|" ++ show_ou (cs_rename c)
  end.

Definition show_macro_spec (r : option (option ustring * crate_vers ustring)) : string :=
  match r with
  | None => "none"
  | Some (o, v) => "some|" ++ show_ou o ++ "|" ++ show_vers v
  end.

(* table-driven instances of the section variables *)
Definition tab_letter (letters : list N) (c : N) : bool := existsb (N.eqb c) letters.
Definition tab_version (accepted : list ustring) (s : ustring) : option ustring :=
  if existsb (ueqb s) accepted then Some s else None.

Definition run_cli_spec (letters : list N) (accepted : list ustring) (s : ustring) : string :=
  show_cli_spec (cli_parse_spec ustring (tab_version accepted) (tab_letter letters) s).
Definition run_macro_spec (letters : list N) (accepted : list ustring) (s : ustring) : string :=
  show_macro_spec (macro_parse_spec ustring (tab_version accepted) (tab_letter letters) s).
Definition run_macro_name (letters : list N) (s : ustring) : string :=
  show_ou (macro_parse_name (tab_letter letters) s).

Definition run_set_ext (p : ustring) : string :=
  let '(b, q) := set_extension_rs p in (if b then "t|" else "f|") ++ show_u q.
Definition run_output_path (input : ustring) (output : option ustring) : string :=
  show_ou (output_path input output).

Definition show_impl (i : timpl) : string :=
  match i with IFromStr => "FromStr" | IDisplay => "Display" | IDefault => "Default" end.
(* the impl set the documented rule gives for a macro trait list (builder side of the TypeAndImpls tie) *)
Definition run_impls (specs : list impl_spec) : string :=
  String.concat "/" (map show_impl (impls_of_specs specs)).
Definition show_policy (p : policy) : string :=
  match p with Generate => "Generate" | Allow => "Allow" | Deny => "Deny" end.

(* keep the first (newest) binding per key: the BTreeMap's content *)
Fixpoint canon_map {A} (m : list (ustring * A)) (seen : list ustring) : list (ustring * A) :=
  match m with
  | [] => []
  | (k, v) :: r => if existsb (ueqb k) seen then canon_map r seen else (k, v) :: canon_map r (k :: seen)
  end.

Definition show_settings (s : settings ustring ustring) : string :=
  "derives=" ++ String.concat ";" (map show_u (s_extra_derives _ _ s)) ++
  "#builder=" ++ (if s_struct_builder _ _ s then "true" else "false") ++
  "#unknown=" ++ show_policy (s_unknown _ _ s) ++
  "#map=" ++ show_u (s_map_type _ _ s) ++
  "#crates=" ++ String.concat ";" (map (fun '(k, e) => show_u k ++ ":" ++ show_vers (ce_version _ e) ++ ":" ++ show_ou (ce_rename _ e))
                                       (canon_map (s_crates _ _ s) [])) ++
  "#patch=" ++ String.concat ";" (map (fun '(k, p) => show_u k ++ ":" ++ show_ou (tp_rename p) ++ ":" ++
                                                       String.concat "/" (map show_u (tp_derives p)))
                                      (canon_map (s_patch _ _ s) [])) ++
  "#replace=" ++ String.concat ";" (map (fun '(k, r) => show_u k ++ ":" ++ show_u (tr_type r) ++ ":" ++
                                                         String.concat "/" (map show_impl (tr_impls r)))
                                        (canon_map (s_replace _ _ s) [])) ++
  "#convert=" ++ String.concat ";" (map (fun c => show_u (tc_schema _ c) ++ ":" ++ show_u (tc_type _ c) ++ ":" ++
                                                   String.concat "/" (map show_impl (tc_impls _ c)))
                                        (s_convert _ _ s)).
