(* Algo/Builder.v — the struct builder emitted by typify (definitions only).

   Mirrors
     typify-impl/src/structs.rs:336-418     generate_serde_attr
     typify-impl/src/defaults.rs:327-377    TypeEntry::default_fn (function name only)
     typify-impl/src/type_entry.rs:1113-1161 per-property gathering in output_struct (PropDefault)
     typify-impl/src/type_entry.rs:1234-1325 the builder items (struct of Result slots, Default,
                                             setters, TryFrom<builder>, From<struct>)
     typify-impl/src/lib.rs:1110-1137       Type::builder()
   and, separately, what serde_derive does with the field attributes when a member is
   missing ([de_missing]).

   Rust values are abstract: the section variables below are the external functions
   (Default::default, the emitted default functions, TryInto, serde's flatten fallback,
   sanitize).  Proofs are in Proofs/BuilderProofs.v, statements in Props/C18.v. *)
From Coq Require Import String Ascii ZArith NArith List Bool.
From Typify Require Import Base.Json IR.TypeIR.
Import ListNotations.
Close Scope string_scope.
Open Scope N_scope.

Definition us (s : string) : ustring := ustr_of_string s.

Inductive bres (A : Type) : Type :=
| Done (a : A)
| Panic (why : string).
Arguments Done {A} a.
Arguments Panic {A} why.

(* ------------------------------------------------------------------ *)
(* serde field attributes and the DefaultFunction (structs.rs:322-326) *)

Inductive sopt :=
| SRename (s : ustring)
| SFlatten
| SDefault                      (* #[serde(default)] *)
| SDefaultFn (path : ustring)   (* #[serde(default = "path")] *)
| SSkipIf (path : ustring).     (* #[serde(skip_serializing_if = "path")] *)

Inductive dfun :=
| DFNone
| DFDefault
| DFCustom (path : ustring).

Definition starts_with (pre s : ustring) : bool := ustr_eqb pre (firstn (length pre) s).

Definition show_Zu (z : Z) : ustring := us (show_Z z).

Section Naming.
  (* sanitize(_, Case::Snake) of typify-impl/src/util.rs (modelled in Algo/Sanitize.v, property C08) *)
  Variable snake : ustring -> ustring.

  (* defaults.rs:327-377; only the returned function path matters here *)
  Definition default_fn_name (d : details) (type_name prop_name : ustring) (v : json) : bres ustring :=
    match d with
    | DUnit => Panic "unreachable!()"
    | DBoolean => Done (us "defaults::default_bool::<true>")
    | DInteger name =>
        match v with
        | JInt z =>
            if (0 <=? z)%Z then  (* default.as_u64() *)
              if starts_with (us "::std::num::NonZero") name
              then Done (us "defaults::default_nzu64::<" ++ name ++ us ", " ++ show_Zu z ++ us ">")
              else Done (us "defaults::default_u64::<" ++ name ++ us ", " ++ show_Zu z ++ us ">")
            else                 (* default.as_i64() *)
              Done (us "defaults::default_i64::<" ++ name ++ us ", " ++ show_Zu z ++ us ">")
        | _ => Panic "panic!()"
        end
    | _ => Done (us "defaults::" ++ snake (type_name ++ us "_" ++ prop_name))
    end.

  Definition is_string (d : details) : bool := match d with DString => true | _ => false end.
  Definition is_jsonvalue (d : details) : bool := match d with DJsonValue => true | _ => false end.

  (* structs.rs `unboxed_details`: cycle breaking may have re-pointed the property at a Box<T>;
     the attributes are chosen by what is inside ONE Box (an unresolved inner id keeps the Box) *)
  Definition unboxed (T : space) (d : details) : details :=
    match d with
    | DBox t => match get_det T t with Some i => i | None => d end
    | _ => d
    end.

  (* structs.rs:336-430.  [d] is the entry of the property type, looked up by the caller
     (type_entry.rs:1130, `.unwrap()`). *)
  Definition generate_serde_attr (T : space) (type_name : ustring) (p : prop) (d : details)
    : bres (list sopt * dfun) :=
    let naming := match p_rename p with
                  | RRename s => [SRename s]
                  | RFlatten => [SFlatten]
                  | RNone => []
                  end in
    match p_state p, unboxed T d with
    | POptional, DOption _ =>
        Done (naming ++ [SDefault; SSkipIf (us "::std::option::Option::is_none")], DFDefault)
    | POptional, DVec _ =>
        Done (naming ++ [SDefault; SSkipIf (us "::std::vec::Vec::is_empty")], DFDefault)
    | POptional, DMap k v =>
        match get_det T k, get_det T v with
        | Some kd, Some vd =>
            let skip := if is_string kd && is_jsonvalue vd
                        then us "::serde_json::Map::is_empty"
                        else s_map_type (sp_settings T) ++ us "::is_empty" in
            Done (naming ++ [SDefault; SSkipIf skip], DFDefault)
        | _, _ => Panic "unresolved key/value type id for map"
        end
    | POptional, _ => Done (naming ++ [SDefault], DFDefault)
    | PDefault v, _ =>
        match default_fn_name d type_name (p_name p) v with
        | Done f => Done (naming ++ [SDefaultFn f], DFCustom f)
        | Panic w => Panic w
        end
    | PRequired, _ => Done (naming, DFNone)
    end.

  (* one emitted struct field together with its PropDefault classification
     (type_entry.rs:1122-1161) *)
  Record field := mkField {
    f_name : ustring;          (* Rust field identifier = builder slot = setter name *)
    f_ty : id;
    f_attrs : list sopt;       (* the #[serde(..)] attribute of the struct field *)
    f_dfun : dfun }.           (* what the builder's Default is generated from *)

  Definition emit_field (T : space) (type_name : ustring) (p : prop) : bres field :=
    match get_det T (p_ty p) with
    | None => Panic "id_to_entry.get(&prop.type_id).unwrap()"
    | Some d =>
        match generate_serde_attr T type_name p d with
        | Done (attrs, df) => Done (mkField (p_name p) (p_ty p) attrs df)
        | Panic w => Panic w
        end
    end.

  Fixpoint emit_fields (T : space) (type_name : ustring) (ps : list prop) : bres (list field) :=
    match ps with
    | [] => Done []
    | p :: r =>
        match emit_field T type_name p with
        | Panic w => Panic w
        | Done f =>
            match emit_fields T type_name r with
            | Panic w => Panic w
            | Done fs => Done (f :: fs)
            end
        end
    end.
End Naming.

(* ------------------------------------------------------------------ *)
(* lib.rs:1110-1137  Type::builder() and the items of `mod builder` *)

Definition builder_path (T : space) (i : id) : option (list ustring) :=
  if negb (s_builder (sp_settings T)) then None else
  match get_det T i with
  | Some (DStruct name _ _ _) =>
      match s_type_mod (sp_settings T) with
      | Some m => Some [m; us "builder"; name]
      | None => Some [us "builder"; name]
      end
  | _ => None
  end.

(* type_entry.rs:1234,1261-1263: one builder struct per struct entry, same name, module `builder` *)
Definition builder_items (T : space) : list ustring :=
  if s_builder (sp_settings T) then
    flat_map (fun ie => match e_det (snd ie) with DStruct name _ _ _ => [name] | _ => [] end) (sp_entries T)
  else [].

(* ------------------------------------------------------------------ *)
(* the builder *)

Section Builder.
  Variable V : Type.                          (* Rust values of property types *)
  Variable src : Type.                        (* setter arguments (any T: TryInto<PropTy>) *)
  Variable default_of : id -> V.              (* <PropTy as Default>::default() *)
  Variable call_fn : ustring -> V.            (* the emitted function at this path, called *)
  Variable conv : id -> src -> V + ustring.   (* value.try_into(); the error through Display *)
  Variable flat_none : id -> option V.        (* serde: a #[serde(flatten)] member of this type read
                                                 from an object with no entries left for it *)

  Inductive slot :=
  | SOk (v : V)
  | SErr (msg : ustring).

  (* builder struct: one `Result<PropTy, String>` per field, declaration order *)
  Definition bstate := list (ustring * slot).

  Definition err_missing (n : ustring) : ustring := us "no value supplied for " ++ n.
  Definition err_conv (n e : ustring) : ustring :=
    us "error converting supplied value for " ++ n ++ us ": " ++ e.

  (* type_entry.rs:1146-1160 + 1255-1259: impl Default for builder::Name.
     `super::#path()` inside `mod builder` is `#path()` of the generated module. *)
  Definition init_slot (f : field) : slot :=
    match f_dfun f with
    | DFNone => SErr (err_missing (f_name f))
    | DFDefault => SOk (default_of (f_ty f))
    | DFCustom path => SOk (call_fn path)
    end.

  Definition init (fs : list field) : bstate := map (fun f => (f_name f, init_slot f)) fs.

  (* type_entry.rs:1284-1292: the setter generated for field f *)
  Definition set_slot (f : field) (x : src) : slot :=
    match conv (f_ty f) x with
    | inl v => SOk v
    | inr e => SErr (err_conv (f_name f) e)
    end.

  (* calling the method named n: the setter of the field with that identifier assigns its slot
     (fields and slots are aligned: the builder struct is generated from the same list) *)
  Fixpoint call (fs : list field) (n : ustring) (x : src) (st : bstate) : bstate :=
    match fs, st with
    | f :: fs', (m, s) :: st' =>
        if ustr_eqb n (f_name f) then (m, set_slot f x) :: st'
        else (m, s) :: call fs' n x st'
    | _, _ => st
    end.

  Definition apply (fs : list field) (calls : list (ustring * src)) (st : bstate) : bstate :=
    fold_left (fun st c => call fs (fst c) (snd c) st) calls st.

  (* type_entry.rs:1297-1311: Ok(Self { a: value.a?, b: value.b?, .. }) — `?` converts the
     String into ConversionError, whose Display prints the same text *)
  Fixpoint build (st : bstate) : list (ustring * V) + ustring :=
    match st with
    | [] => inl []
    | (n, SErr e) :: _ => inr e
    | (n, SOk v) :: r =>
        match build r with
        | inl vs => inl ((n, v) :: vs)
        | inr e => inr e
        end
    end.

  (* type_entry.rs:1314-1322 *)
  Definition from_struct (x : list (ustring * V)) : bstate :=
    map (fun nv => (fst nv, SOk (snd nv))) x.

  (* ---- deserialisation side: what serde_derive 1.0.219 generates for a field that is absent
     from the object, read off the field's own attribute list (de.rs: `deserialize_map`,
     `expr_is_missing`): flatten fields are always read from the FlatMapDeserializer (their
     `default` is not consulted); `default` / `default = "path"`; otherwise
     `missing_field`, which yields None for Option<T> and an error for everything else. *)
  Definition has_flatten (a : list sopt) : bool :=
    existsb (fun o => match o with SFlatten => true | _ => false end) a.

  Fixpoint find_default (a : list sopt) : option sopt :=
    match a with
    | [] => None
    | SDefault :: _ => Some SDefault
    | SDefaultFn p :: _ => Some (SDefaultFn p)
    | _ :: r => find_default r
    end.

  Definition de_missing (T : space) (f : field) : option V :=
    if has_flatten (f_attrs f) then flat_none (f_ty f) else
    match find_default (f_attrs f) with
    | Some SDefault => Some (default_of (f_ty f))
    | Some (SDefaultFn p) => Some (call_fn p)
    | _ =>
        (* missing_field: Option<T> (also behind a Box: Box<T>::deserialize forwards) yields None,
           which is the type's Default::default() *)
        match option_map (unboxed T) (get_det T (f_ty f)) with
        | Some (DOption _) => Some (default_of (f_ty f))
        | _ => None
        end
    end.
End Builder.

Arguments SOk {V} v.
Arguments SErr {V} msg.

(* ------------------------------------------------------------------ *)
(* instantiation used by the correspondence check: values are their serde_json::to_value
   images, setter arguments are keys into a table measured on the compiled module *)

Definition junk : json := JStr (us "<no table entry>").

Fixpoint lookup_u {A} (k : ustring) (l : list (ustring * A)) : option A :=
  match l with
  | [] => None
  | (k', x) :: r => if ustr_eqb k k' then Some x else lookup_u k r
  end.

Record tables := mkTables {
  t_default_of : list (id * json);
  t_fns : list (ustring * json);
  t_conv : list (id * list (N * (json + ustring)));
  t_flat : list (id * json);
  t_snake : list (ustring * ustring) }.

Definition tb_default_of (tb : tables) (t : id) : json :=
  match lookup_id t (t_default_of tb) with Some v => v | None => junk end.
Definition tb_call_fn (tb : tables) (p : ustring) : json :=
  match lookup_u p (t_fns tb) with Some v => v | None => junk end.
Definition tb_conv (tb : tables) (t : id) (k : N) : json + ustring :=
  match lookup_id t (t_conv tb) with
  | Some l => match lookup_id k l with Some r => r | None => inr (us "<no table entry>") end
  | None => inr (us "<no table entry>")
  end.
Definition tb_flat (tb : tables) (t : id) : option json := lookup_id t (t_flat tb).
Definition tb_snake (tb : tables) (s : ustring) : ustring :=
  match lookup_u s (t_snake tb) with Some v => v | None => us "<no table entry>" end.

Definition struct_fields (tb : tables) (T : space) (i : id) : bres (list field) :=
  match get_det T i with
  | Some (DStruct name _ ps _) => emit_fields (tb_snake tb) T name ps
  | _ => Panic "not a struct"
  end.

Open Scope string_scope.

Definition show_values (x : list (ustring * json)) : string :=
  show_json (JArr (map (fun nv => JArr [JStr (fst nv); snd nv]) x)).

Definition run_build (tb : tables) (T : space) (i : id) (calls : list (ustring * N)) : string :=
  match struct_fields tb T i with
  | Panic w => "panic:" ++ w
  | Done fs =>
      match build json (apply json N (tb_conv tb) fs calls
                          (init json (tb_default_of tb) (tb_call_fn tb) fs)) with
      | inl x => "ok:" ++ show_values x
      | inr e => "err:" ++ show_ustr e
      end
  end.

(* struct -> builder -> further calls -> struct *)
Definition run_unbuild (tb : tables) (T : space) (i : id) (x : list (ustring * json))
  (calls : list (ustring * N)) : string :=
  match struct_fields tb T i with
  | Panic w => "panic:" ++ w
  | Done fs =>
      match build json (apply json N (tb_conv tb) fs calls (from_struct json x)) with
      | inl y => "ok:" ++ show_values y
      | inr e => "err:" ++ show_ustr e
      end
  end.

Definition show_sopt (o : sopt) : json :=
  match o with
  | SRename s => JArr [JStr (us "rename"); JStr s]
  | SFlatten => JArr [JStr (us "flatten")]
  | SDefault => JArr [JStr (us "default")]
  | SDefaultFn p => JArr [JStr (us "default"); JStr p]
  | SSkipIf p => JArr [JStr (us "skip_serializing_if"); JStr p]
  end.

Definition show_dfun (d : dfun) : json :=
  match d with
  | DFNone => JNull
  | DFDefault => JStr (us "Default::default()")
  | DFCustom p => JStr p
  end.

(* per field: [ident, serde attributes, builder default, value when missing in JSON (or "$err")] *)
Definition run_fields (tb : tables) (T : space) (i : id) : string :=
  match struct_fields tb T i with
  | Panic w => "panic:" ++ w
  | Done fs =>
      "ok:" ++ show_json (JArr (map (fun f =>
        JArr [JStr (f_name f); JArr (map show_sopt (f_attrs f)); show_dfun (f_dfun f);
              match de_missing json (tb_default_of tb) (tb_call_fn tb) (tb_flat tb) T f with
              | Some v => JArr [v]
              | None => JStr (us "$err")
              end]) fs))
  end.

Definition run_path (T : space) (i : id) : string :=
  match builder_path T i with
  | None => "none"
  | Some p => "some:" ++ show_json (JArr (map JStr p))
  end.
