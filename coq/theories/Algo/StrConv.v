(* Algo/StrConv.v — C11: meaning of the string conversions typify emits
   (FromStr / TryFrom<&str|String|&String> / Display) next to what serde does
   with a JSON string for the same type.  Definitions only.

   Mirrors typify-impl/src/type_entry.rs:
     has_impl                597-700   -> has_impl (internal);  lib.rs Type::has_impl 1141-1166 -> api_has_impl
     finalize (enum)         313-343   -> finalize_bespoke
     untagged_newtype_variants 1998-2020 -> untagged_newtype_variants
     output_enum             806-872   -> simple-enum templates (from_str/display, SEnum; Display
                                          literal = raw name with braces escaped, fix a0ebad5)
                             879-950   -> untagged templates (first_some / SUntagged)
     output_newtype          1358-1446 -> CNone (str_impl / from_str_impl / display_impl)
                             1448-1510 -> CEnum / CDeny (TryFrom<inner> + Deserialize)
                             1512-1607 -> CString (max/min in chars().count(), regress find)
     enums.rs output_variant 717-720   -> serde_name (rename iff raw <> ident)
   and serde_derive / serde_json (DESIGN Appendix A) for [de_str] / [ser_str].

   External functions are Section variables:
     re_match p s          regress::Regex::new(p).unwrap().find(s).is_some()
     native_parse ty s     <ty as FromStr>::from_str(s).is_ok(); the SAME function is
                           used for <ty as Deserialize> on the JSON string s (assumption
                           A1, validated on every run for the six string formats)
     native_display ty s   to_string() of the value parsed from s
     native_ser ty s       the string Serialize writes for the value parsed from s   *)
From Coq Require Import String Ascii ZArith NArith List Bool.
From Typify Require Import Base.Json IR.TypeIR.
Import ListNotations.
Open Scope N_scope.

(* values of string-wired types *)
Inductive sval :=
| SEnum (i : nat)                 (* i-th variant (declaration order) of a simple enum *)
| SStr (s : ustring)              (* a String *)
| SNative (ty s : ustring)        (* the native value that the text s denotes *)
| SWrap (v : sval)                (* newtype around v *)
| SUntagged (i : nat) (v : sval). (* i-th variant of an untagged enum, payload v *)

Fixpoint sval_eqb (a b : sval) : bool :=
  match a, b with
  | SEnum i, SEnum j => Nat.eqb i j
  | SStr s, SStr t => ustr_eqb s t
  | SNative n s, SNative m t => ustr_eqb n m && ustr_eqb s t
  | SWrap v, SWrap w => sval_eqb v w
  | SUntagged i v, SUntagged j w => Nat.eqb i j && sval_eqb v w
  | _, _ => false
  end.

Definition has_trait (tr : trait) (l : list trait) : bool := existsb (trait_eqb tr) l.
Definition has_bespoke (b : bespoke) (l : list bespoke) : bool := existsb (bespoke_eqb b) l.

Definition is_string (T : space) (i : id) : bool :=
  match get_det T i with Some DString => true | _ => false end.

Definition is_vsimple (v : variant) : bool :=
  match v_det v with VSimple => true | _ => false end.

Definition is_untagged (t : tagty) : bool := match t with TagUntagged => true | _ => false end.
Definition is_external (t : tagty) : bool := match t with TagExternal => true | _ => false end.

(* the native types typify selects for string formats (convert.rs convert_string) *)
Definition string_natives : list string :=
  [ "::uuid::Uuid"; "::chrono::naive::NaiveDate"; "::chrono::DateTime<::chrono::offset::Utc>";
    "::std::net::IpAddr"; "::std::net::Ipv4Addr"; "::std::net::Ipv6Addr" ]%string.
Definition is_string_native (n : ustring) : bool :=
  existsb (fun m => ustr_eqb n (ustr_of_string m)) string_natives.

(* first index/value for which f succeeds: `if let Ok(v) = .. {..} else if ..` chains,
   serde's untagged search, and `match value { "a" => .., "a" => .. }` (first arm wins) *)
Fixpoint first_some {A B} (f : A -> option B) (l : list A) (k : nat) : option (nat * B) :=
  match l with
  | [] => None
  | a :: r => match f a with Some b => Some (k, b) | None => first_some f r (S k) end
  end.

(* ------------------------------------------------------------------ *)
(* write!(f, #raw) with no arguments: #raw is a FORMAT STRING.          *)
(* Some out: the literal text printed; None: not a literal (a           *)
(* placeholder `{..}` or an unmatched brace: rustc rejects it, or it    *)
(* captures an identifier in scope such as `self`).                     *)
Fixpoint fmt_render (s : ustring) : option ustring :=
  match s with
  | [] => Some []
  | c :: r =>
      if c =? 123 then
        match r with
        | c2 :: r2 => if c2 =? 123 then option_map (cons 123) (fmt_render r2) else None
        | [] => None
        end
      else if c =? 125 then
        match r with
        | c2 :: r2 => if c2 =? 125 then option_map (cons 125) (fmt_render r2) else None
        | [] => None
        end
      else option_map (cons c) (fmt_render r)
  end.

Definition brace_free (s : ustring) : bool :=
  forallb (fun c => negb (c =? 123) && negb (c =? 125)) s.

(* type_entry.rs 824-829 (fix a0ebad5): the literal handed to write! is the raw name with
   `{` -> `{{` and `}` -> `}}` (str::replace twice) *)
Fixpoint fmt_escape (s : ustring) : ustring :=
  match s with
  | [] => []
  | c :: r =>
      if c =? 123 then 123 :: 123 :: fmt_escape r
      else if c =? 125 then 125 :: 125 :: fmt_escape r
      else c :: fmt_escape r
  end.

(* serde name of a variant: #[serde(rename = raw)] iff raw <> ident, else the ident *)
Definition serde_name (v : variant) : ustring :=
  if ustr_eqb (v_raw v) (v_ident v) then v_ident v else v_raw v.

(* generated checks of a String-constrained newtype, in template order *)
Definition check_constrained (re_match : ustring -> ustring -> bool)
           (max min : option N) (pat : option ustring) (s : ustring) : bool :=
  match max with Some m => negb (m <? chars_count s) | None => true end &&
  match min with Some m => negb (chars_count s <? m) | None => true end &&
  match pat with Some p => re_match p s | None => true end.

Section StrConv.
Variable re_match : ustring -> ustring -> bool.
Variable native_parse : ustring -> ustring -> bool.
Variable native_display : ustring -> ustring -> ustring.
Variable native_ser : ustring -> ustring -> ustring.
(* native types for which Display = Serialize has been validated *)
Variable native_fmt_ok : ustring -> bool.
(* native types whose wire form is always a JSON string.  On the pinned source these are the six
   of [string_natives]; the check derives the set per run from the natives that occur in the
   dumps and validates it on the compiled types (every sample serialises to a JSON string), so
   a string format added to convert_string is in the domain without touching the model *)
Variable string_native : ustring -> bool.

(* ---------------- which impls a type is deemed to have (has_impl) ---------------- *)
Fixpoint has_impl (T : space) (fuel : nat) (t : id) (tr : trait) : bool :=
  match fuel with
  | O => false
  | S f =>
    match get_det T t with
    | Some (DEnum _ _ _ _ _ bes) =>
        match tr with
        | TFromStr => has_bespoke AllSimpleVariants bes || has_bespoke UntaggedFromStr bes
        | TDisplay => has_bespoke AllSimpleVariants bes || has_bespoke UntaggedDisplay bes
        | TDefault => false (* not needed here *)
        end
    | Some (DNewtype _ _ i c) =>
        match c, tr with
        | _, TDefault => false
        | CString _ _ _, _ => true                 (* 630-631: also Display, though none is emitted *)
        | CNone, _ => has_impl T f i tr            (* 632-650 *)
        | _, _ => false
        end
    | Some (DNative _ impls _) => has_trait tr impls
    | Some DString => true
    | Some DBoolean | Some (DInteger _) | Some (DFloat _) => true
    | _ => false
    end
  end.

(* the PUBLIC facade lib.rs `Type::has_impl` (fix 0e25061): false for (String-constrained
   newtype, Display), otherwise the internal answer.  Emission, finalize and output_* use the
   internal [has_impl] above; only API consumers see this one. *)
Definition api_has_impl (T : space) (fuel : nat) (t : id) (tr : trait) : bool :=
  match get_det T t, tr with
  | Some (DNewtype _ _ _ (CString _ _ _)), TDisplay => false
  | _, _ => has_impl T fuel t tr
  end.

(* untagged_newtype_variants (1998-2020) and finalize (313-343) *)
Definition untagged_newtype_variants (T : space) (f : nat) (tag : tagty) (vs : list variant) (tr : trait) : bool :=
  is_untagged tag &&
  forallb (fun v => match v_det v with VItem i => has_impl T f i tr | _ => false end) vs.

Definition finalize_bespoke (T : space) (f : nat) (tag : tagty) (vs : list variant) : list bespoke :=
  (if negb (is_untagged tag) && negb (match vs with [] => true | _ => false end) && forallb is_vsimple vs
   then [AllSimpleVariants] else []) ++
  (if untagged_newtype_variants T f tag vs TFromStr then [UntaggedFromStr] else []) ++
  (if untagged_newtype_variants T f tag vs TDisplay then [UntaggedDisplay] else []).

Definition bespoke_list_eqb (a b : list bespoke) : bool :=
  Nat.eqb (length a) (length b) && forallb (fun x => has_bespoke x b) a.

(* does the dumped bespoke list equal what finalize computes now? (tie only) *)
Definition finalize_agrees (T : space) (f : nat) (t : id) : bool :=
  match get_det T t with
  | Some (DEnum _ _ tag vs _ bes) => bespoke_list_eqb bes (finalize_bespoke T f tag vs)
  | _ => true
  end.

(* ---------------- which impls are EMITTED (output_enum / output_newtype) ---------------- *)
Definition emits_fromstr (T : space) (fuel : nat) (t : id) : bool :=
  match fuel with
  | O => false
  | S f =>
    match get_det T t with
    | Some (DEnum _ _ _ _ _ bes) => has_bespoke AllSimpleVariants bes || has_bespoke UntaggedFromStr bes
    | Some (DNewtype _ _ i c) =>
        match c with
        | CNone => is_string T i || (has_impl T f i TFromStr && negb (is_string T i))
        | CString _ _ _ => true
        | CEnum _ | CDeny _ => false
        end
    | _ => false
    end
  end.

(* TryFrom<&str>, TryFrom<&String>, TryFrom<String> calling value.parse() *)
Definition emits_tryfrom (T : space) (fuel : nat) (t : id) : bool :=
  match fuel with
  | O => false
  | S f =>
    match get_det T t with
    | Some (DEnum _ _ _ _ _ bes) => has_bespoke AllSimpleVariants bes || has_bespoke UntaggedFromStr bes
    | Some (DNewtype _ _ i c) =>
        match c with
        | CNone => has_impl T f i TFromStr && negb (is_string T i)   (* str_impl has no TryFrom *)
        | CString _ _ _ => true
        | CEnum _ | CDeny _ => false
        end
    | _ => false
    end
  end.

(* TryFrom<inner> of enum/deny-value newtypes; for inner = String this is TryFrom<String> *)
Definition emits_tryfrom_inner (T : space) (t : id) : bool :=
  match get_det T t with
  | Some (DNewtype _ _ i (CEnum _)) | Some (DNewtype _ _ i (CDeny _)) => true
  | _ => false
  end.

Definition emits_display (T : space) (fuel : nat) (t : id) : bool :=
  match fuel with
  | O => false
  | S f =>
    match get_det T t with
    | Some (DEnum _ _ _ _ _ bes) => has_bespoke AllSimpleVariants bes || has_bespoke UntaggedDisplay bes
    | Some (DNewtype _ _ i c) =>
        match c with
        | CNone => has_impl T f i TDisplay
        | _ => false      (* CString: has_impl(Display) = true but nothing is emitted (C17) *)
        end
    | _ => false
    end
  end.

(* ---------------- the domain: wire form is always a JSON string ---------------- *)
Fixpoint string_wired (T : space) (fuel : nat) (t : id) : bool :=
  match fuel with
  | O => false
  | S f =>
    match get_det T t with
    | Some DString => true
    | Some (DNative n _ _) => string_native n
    | Some (DBox i) => string_wired T f i
    | Some (DNewtype _ _ i c) =>
        match c with
        | CNone => string_wired T f i
        | _ => is_string T i && string_wired T f i
        end
    | Some (DEnum _ _ tag vs _ _) =>
        match tag with
        | TagExternal => negb (match vs with [] => true | _ => false end) && forallb is_vsimple vs
        | TagUntagged =>
            negb (match vs with [] => true | _ => false end) &&
            forallb (fun v => match v_det v with VItem i => string_wired T f i | _ => false end) vs
        | _ => false
        end
    | _ => false
    end
  end.

(* bespoke lists are sound for the present has_impl answers (what finalize guarantees):
   an untagged enum marked UntaggedFromStr/Display has only VItem variants whose types
   have the impl; checked recursively along the same paths as string_wired *)
Fixpoint wf_conv (T : space) (fuel : nat) (t : id) : bool :=
  match fuel with
  | O => false
  | S f =>
    match get_det T t with
    | Some (DBox i) => wf_conv T f i
    | Some (DNewtype _ _ i CNone) => wf_conv T f i
    | Some (DEnum _ _ TagUntagged vs _ bes) =>
        (negb (has_bespoke UntaggedFromStr bes) ||
         forallb (fun v => match v_det v with VItem i => has_impl T f i TFromStr | _ => false end) vs) &&
        (negb (has_bespoke UntaggedDisplay bes) ||
         forallb (fun v => match v_det v with VItem i => has_impl T f i TDisplay | _ => false end) vs) &&
        negb (has_bespoke AllSimpleVariants bes) &&
        forallb (fun v => match v_det v with VItem i => wf_conv T f i | _ => true end) vs
    | Some (DEnum _ _ TagExternal vs _ bes) =>
        has_bespoke AllSimpleVariants bes || negb (forallb is_vsimple vs)
        || (match vs with [] => true | _ => false end)
    | _ => true
    end
  end.

(* ---------------- FromStr ---------------- *)
Fixpoint from_str (T : space) (fuel : nat) (t : id) (s : ustring) : option sval :=
  match fuel with
  | O => None
  | S f =>
    match get_det T t with
    | Some DString => Some (SStr s)                               (* String: Infallible *)
    | Some (DNative n impls _) =>
        if has_trait TFromStr impls && native_parse n s then Some (SNative n s) else None
    | Some (DNewtype _ _ i c) =>
        match c with
        | CNone =>
            if is_string T i then Some (SWrap (SStr s))           (* Ok(Self(value.to_string())) *)
            else if has_impl T f i TFromStr
                 then option_map SWrap (from_str T f i s)         (* Ok(Self(value.parse()?)) *)
                 else None
        | CString max min pat =>
            if check_constrained re_match max min pat s then Some (SWrap (SStr s)) else None
        | CEnum _ | CDeny _ => None                               (* no FromStr emitted *)
        end
    | Some (DEnum _ _ tag vs _ bes) =>
        if has_bespoke AllSimpleVariants bes then
          (* match value { #(#raw => Ok(Self::#ident),)* _ => Err } *)
          option_map (fun kv => SEnum (fst kv))
                     (first_some (fun v => if ustr_eqb s (v_raw v) then Some tt else None) vs 0)
        else if has_bespoke UntaggedFromStr bes then
          (* #( if let Ok(v) = value.parse() { Ok(Self::#variant(v)) } else )* { Err } *)
          option_map (fun kv => SUntagged (fst kv) (snd kv))
                     (first_some (fun v => match v_det v with
                                           | VItem i => from_str T f i s
                                           | _ => None end) vs 0)
        else None
    | _ => None
    end
  end.

(* TryFrom<&str> / TryFrom<&String> / TryFrom<String>: bodies are `value.parse()` *)
Definition parse_call := from_str.
Definition try_from_str (T : space) (fuel : nat) (t : id) (s : ustring) : option sval :=
  if emits_tryfrom T fuel t then parse_call T fuel t s else None.
Definition try_from_ref_string := try_from_str.
Definition try_from_string_parse := try_from_str.

(* TryFrom<inner> of CEnum/CDeny newtypes over String (1475-1489) *)
Definition try_from_inner (T : space) (t : id) (s : ustring) : option sval :=
  match get_det T t with
  | Some (DNewtype _ _ i (CEnum vs)) =>
      if negb (existsb (json_eqb (JStr s)) vs) then None else Some (SWrap (SStr s))
  | Some (DNewtype _ _ i (CDeny vs)) =>
      if existsb (json_eqb (JStr s)) vs then None else Some (SWrap (SStr s))
  | _ => None
  end.

(* ---------------- serde: Deserialize from the JSON string s ---------------- *)
Fixpoint de_str (T : space) (fuel : nat) (t : id) (s : ustring) : option sval :=
  match fuel with
  | O => None
  | S f =>
    match get_det T t with
    | Some DString => Some (SStr s)
    | Some (DNative n _ _) => if native_parse n s then Some (SNative n s) else None   (* A1 *)
    | Some (DBox i) => de_str T f i s
    | Some (DNewtype _ _ i c) =>
        match c with
        | CNone => option_map SWrap (de_str T f i s)              (* derive + transparent *)
        | CString max min pat =>
            (* String::deserialize(d)?.parse() *)
            match de_str T f i s with
            | Some (SStr s') =>
                if check_constrained re_match max min pat s' then Some (SWrap (SStr s')) else None
            | _ => None
            end
        | CEnum _ | CDeny _ =>
            (* Self::try_from(<inner>::deserialize(d)?) *)
            match de_str T f i s with
            | Some (SStr s') => try_from_inner T t s'
            | _ => None
            end
        end
    | Some (DEnum _ _ tag vs _ _) =>
        match tag with
        | TagExternal =>
            (* derived: variant identifier by serde name, first arm wins; only unit variants
               accept a bare string *)
            match first_some (fun v => if ustr_eqb s (serde_name v) then Some tt else None) vs 0 with
            | Some (k, _) =>
                match nth_error vs k with
                | Some v => if is_vsimple v then Some (SEnum k) else None
                | None => None
                end
            | None => None
            end
        | TagUntagged =>
            (* buffered content, variants in declaration order, first success wins;
               a unit variant only matches null *)
            option_map (fun kv => SUntagged (fst kv) (snd kv))
                       (first_some (fun v => match v_det v with
                                             | VItem i => de_str T f i s
                                             | _ => None end) vs 0)
        | _ => None
        end
    | _ => None
    end
  end.

(* ---------------- Display: what `x.fmt(f)` / to_string() prints ---------------- *)
Fixpoint display (T : space) (fuel : nat) (t : id) (x : sval) : option ustring :=
  match fuel with
  | O => None
  | S f =>
    match get_det T t, x with
    | Some DString, SStr s => Some s
    | Some (DNative n _ _), SNative _ s => Some (native_display n s)
    | Some (DBox i), _ => display T f i x
    | Some (DNewtype _ _ i _), SWrap v => display T f i v
        (* CNone: self.0.fmt(f).  Constrained: no impl of its own, but a wrapper's
           self.0.fmt(f) / x.fmt(f) reaches the inner String through Deref *)
    | Some (DEnum _ _ tag vs _ bes), SEnum k =>
        if has_bespoke AllSimpleVariants bes then
          match nth_error vs k with
          | Some v => fmt_render (fmt_escape (v_raw v))              (* write!(f, #fmt_str) *)
          | None => None
          end
        else None
    | Some (DEnum _ _ tag vs _ bes), SUntagged k v =>
        if has_bespoke UntaggedDisplay bes then
          match nth_error vs k with
          | Some vr => match v_det vr with VItem i => display T f i v | _ => None end
          | None => None
          end
        else None
    | _, _ => None
    end
  end.

(* ---------------- serde: the string Serialize writes ---------------- *)
Fixpoint ser_str (T : space) (fuel : nat) (t : id) (x : sval) : option ustring :=
  match fuel with
  | O => None
  | S f =>
    match get_det T t, x with
    | Some DString, SStr s => Some s
    | Some (DNative n _ _), SNative _ s => Some (native_ser n s)
    | Some (DBox i), _ => ser_str T f i x
    | Some (DNewtype _ _ i _), SWrap v => ser_str T f i v           (* derive(Serialize) + transparent *)
    | Some (DEnum _ _ TagExternal vs _ _), SEnum k =>
        match nth_error vs k with
        | Some v => if is_vsimple v then Some (serde_name v) else None
        | None => None
        end
    | Some (DEnum _ _ TagUntagged vs _ _), SUntagged k v =>
        match nth_error vs k with
        | Some vr => match v_det vr with VItem i => ser_str T f i v | _ => None end
        | None => None
        end
    | _, _ => None
    end
  end.

(* ---------------- side condition of the Display theorem ---------------- *)
(* reachable natives print as they serialise (raw names with braces are fine since a0ebad5) *)
Fixpoint display_ok (T : space) (fuel : nat) (t : id) : bool :=
  match fuel with
  | O => false
  | S f =>
    match get_det T t with
    | Some DString => true
    | Some (DNative n _ _) => native_fmt_ok n
    | Some (DBox i) => display_ok T f i
    | Some (DNewtype _ _ i CNone) => display_ok T f i
    | Some (DNewtype _ _ i _) => true
    | Some (DEnum _ _ TagExternal vs _ _) => true
    | Some (DEnum _ _ TagUntagged vs _ _) =>
        forallb (fun v => match v_det v with VItem i => display_ok T f i | _ => true end) vs
    | _ => true
    end
  end.

End StrConv.

(* ---------------- printing, for the correspondence run ---------------- *)
Open Scope string_scope.

Definition show_bool (b : bool) : string := if b then "1" else "0".
Definition show_opt_ustr (o : option ustring) : string :=
  match o with Some s => show_ustr s | None => "null" end.

(* identifier path of the chosen variants, e.g. "Variant1" / "" *)
Definition variant_ident (T : space) (t : id) (k : nat) : string :=
  match get_det T t with
  | Some (DEnum _ _ _ vs _ _) =>
      match nth_error vs k with Some v => show_ustr (v_ident v) | None => "null" end
  | _ => "null"
  end.

Definition show_choice (T : space) (t : id) (o : option sval) : string :=
  match o with
  | Some (SUntagged k _) => variant_ident T t k
  | Some (SEnum k) => variant_ident T t k
  | Some _ => """-"""
  | None => "null"
  end.

(* table-backed instances of the external functions *)
Fixpoint tab2 {A} (d : A) (tab : list (ustring * ustring * A)) (a b : ustring) : A :=
  match tab with
  | [] => d
  | (x, y, v) :: r => if ustr_eqb a x && ustr_eqb b y then v else tab2 d r a b
  end.

Section Show.
Variable re_tab : list (ustring * ustring * bool).
Variable np_tab : list (ustring * ustring * bool).
Variable nd_tab : list (ustring * ustring * ustring).
Variable ns_tab : list (ustring * ustring * ustring).
Variable sn_tab : list ustring.

Let rm := tab2 false re_tab.
Let np := tab2 false np_tab.
Let nd := tab2 [] nd_tab.
Let ns := tab2 [] ns_tab.
Let sn := fun n => mem_ustr n sn_tab.

Definition FUEL : nat := 12.

(* static facts of one type: wired, wf, finalize_agrees, has_impl F/D, emits fromstr/tryfrom/tryfrom_inner/display,
   api_has_impl F/D *)
Definition show_static (T : space) (t : id) : string :=
  "[" ++ show_bool (string_wired sn T FUEL t) ++ "," ++ show_bool (wf_conv T FUEL t) ++ ","
      ++ show_bool (finalize_agrees T FUEL t) ++ ","
      ++ show_bool (has_impl T FUEL t TFromStr) ++ "," ++ show_bool (has_impl T FUEL t TDisplay) ++ ","
      ++ show_bool (emits_fromstr T FUEL t) ++ "," ++ show_bool (emits_tryfrom T FUEL t) ++ ","
      ++ show_bool (emits_tryfrom_inner T t) ++ "," ++ show_bool (emits_display T FUEL t) ++ ","
      ++ show_bool (api_has_impl T FUEL t TFromStr) ++ "," ++ show_bool (api_has_impl T FUEL t TDisplay) ++ "]".

(* one probe: a JSON object *)
Definition show_probe (T : space) (t : id) (s : ustring) : string :=
  let p := from_str rm np T FUEL t s in
  let d := de_str rm np T FUEL t s in
  let tf := try_from_str rm np T FUEL t s in
  let ti := try_from_inner T t s in
  let ser := fun o => match o with Some x => show_opt_ustr (ser_str ns T FUEL t x) | None => "null" end in
  "{""parse"":" ++ ser p ++ ",""parse_v"":" ++ show_choice T t p ++
  ",""de"":" ++ ser d ++ ",""de_v"":" ++ show_choice T t d ++
  ",""try_from"":" ++ ser tf ++ ",""try_inner"":" ++ ser ti ++
  ",""same"":" ++ (match p, d with Some a, Some b => show_bool (sval_eqb a b) | _, _ => "null" end) ++
  ",""display"":" ++ (match d with Some x => show_opt_ustr (display nd T FUEL t x) | None => "null" end) ++
  "}".

End Show.
