(* Base/Json.v — JSON values as serde_json::Value sees them, Unicode strings as
   lists of scalar values, boolean equality and a printer (definitions only).

   Numbers: [JInt z] is a JSON integer literal (serde_json Number PosInt/NegInt);
   [JFlt q] is a literal with a fraction or exponent, kept as an exact rational
   (generators only emit reduced fractions).  *)
From Coq Require Import String Ascii ZArith NArith QArith List Bool DecimalString.
Import ListNotations.
Open Scope N_scope.

Definition ustring := list N.

Fixpoint ustr_eqb (a b : ustring) : bool :=
  match a, b with
  | [], [] => true
  | x :: a', y :: b' => N.eqb x y && ustr_eqb a' b'
  | _, _ => false
  end.

Fixpoint ustr_ltb (a b : ustring) : bool :=
  match a, b with
  | [], [] => false
  | [], _ :: _ => true
  | _ :: _, [] => false
  | x :: a', y :: b' => N.ltb x y || (N.eqb x y && ustr_ltb a' b')
  end.

(* UTF-8 byte length of one scalar value / of a string (Rust's str::len) *)
Definition utf8_len1 (c : N) : N :=
  if c <? 128 then 1 else if c <? 2048 then 2 else if c <? 65536 then 3 else 4.
Definition utf8_len (s : ustring) : N := fold_right (fun c a => utf8_len1 c + a) 0 s.
Definition chars_count (s : ustring) : N := N.of_nat (length s).

Inductive json : Type :=
| JNull
| JBool (b : bool)
| JInt (z : Z)
| JFlt (q : Q)
| JStr (s : ustring)
| JArr (l : list json)
| JObj (kvs : list (ustring * json)).

Fixpoint assoc {A} (k : ustring) (kvs : list (ustring * A)) : option A :=
  match kvs with
  | [] => None
  | (k', v) :: r => if ustr_eqb k k' then Some v else assoc k r
  end.

Fixpoint remove_key {A} (k : ustring) (kvs : list (ustring * A)) : list (ustring * A) :=
  match kvs with
  | [] => []
  | (k', v) :: r => if ustr_eqb k k' then remove_key k r else (k', v) :: remove_key k r
  end.

Definition has_key {A} (k : ustring) (kvs : list (ustring * A)) : bool :=
  match assoc k kvs with Some _ => true | None => false end.

Definition mem_ustr (k : ustring) (l : list ustring) : bool := existsb (ustr_eqb k) l.

(* Structural equality; objects compared as finite maps (each key of one side
   present with an equal value on the other, equal sizes); numbers numerically
   (serde_json compares Number variants: an integer never equals a float). *)
Fixpoint json_eqb (a b : json) {struct a} : bool :=
  match a, b with
  | JNull, JNull => true
  | JBool x, JBool y => Bool.eqb x y
  | JInt x, JInt y => Z.eqb x y
  | JFlt x, JFlt y => Qeq_bool x y
  | JStr x, JStr y => ustr_eqb x y
  | JArr x, JArr y =>
      (fix go (x y : list json) : bool :=
         match x, y with
         | [], [] => true
         | u :: x', v :: y' => json_eqb u v && go x' y'
         | _, _ => false
         end) x y
  | JObj x, JObj y =>
      Nat.eqb (length x) (length y) &&
      (fix go (x : list (ustring * json)) : bool :=
         match x with
         | [] => true
         | (k, u) :: x' =>
             match assoc k y with
             | Some v => json_eqb u v && go x'
             | None => false
             end
         end) x
  | _, _ => false
  end.

(* ---- printing (ASCII JSON text; non-ASCII and control as \uXXXX) ---- *)
Open Scope string_scope.

Definition hex_digit (n : N) : ascii :=
  match n with
  | 0%N => "0" | 1%N => "1" | 2%N => "2" | 3%N => "3" | 4%N => "4" | 5%N => "5" | 6%N => "6" | 7%N => "7"
  | 8%N => "8" | 9%N => "9" | 10%N => "a" | 11%N => "b" | 12%N => "c" | 13%N => "d" | 14%N => "e" | _ => "f"
  end%char.

Definition hex4 (n : N) : string :=
  String (hex_digit (N.land (N.shiftr n 12) 15))
    (String (hex_digit (N.land (N.shiftr n 8) 15))
       (String (hex_digit (N.land (N.shiftr n 4) 15))
          (String (hex_digit (N.land n 15)) EmptyString))).

Definition show_scalar (c : N) : string :=
  if (c =? 34)%N then "\""" else
  if (c =? 92)%N then "\\" else
  if ((32 <=? c) && (c <? 127))%N then String (ascii_of_N c) EmptyString else
  if (c <? 65536)%N then "\u" ++ hex4 c else
    let c' := (c - 65536)%N in
    "\u" ++ hex4 (55296 + N.shiftr c' 10)%N ++ "\u" ++ hex4 (56320 + N.land c' 1023)%N.

Definition show_ustr (s : ustring) : string :=
  """" ++ fold_right (fun c a => show_scalar c ++ a) """" s.

Definition show_Z (z : Z) : string := NilZero.string_of_int (Z.to_int z).
Definition show_N (n : N) : string := NilZero.string_of_uint (N.to_uint n).

Fixpoint show_json (j : json) : string :=
  match j with
  | JNull => "null"
  | JBool true => "true"
  | JBool false => "false"
  | JInt z => show_Z z
  | JFlt q => "{""$q"":[" ++ show_Z (Qnum q) ++ "," ++ show_Z (Zpos (Qden q)) ++ "]}"
  | JStr s => show_ustr s
  | JArr l =>
      "[" ++ (fix go (l : list json) (first : bool) : string :=
                match l with
                | [] => ""
                | x :: r => (if first then "" else ",") ++ show_json x ++ go r false
                end) l true ++ "]"
  | JObj kvs =>
      "{" ++ (fix go (l : list (ustring * json)) (first : bool) : string :=
                match l with
                | [] => ""
                | (k, x) :: r => (if first then "" else ",") ++ show_ustr k ++ ":" ++ show_json x ++ go r false
                end) kvs true ++ "}"
  end.

Definition show_opt_json (o : option json) : string :=
  match o with Some j => "ok:" ++ show_json j | None => "none" end.
