(* Props/C17.v — "The introspection API describes the code that is generated".
   Only the property theorems; model in Algo/HasImpl.v, proofs in
   Proofs/HasImplProofs.v.  `cfg` selects the code variant: `pinned` is the
   pinned commit, the two switches are the repairs of patches/C17-1/-2.diff. *)
From Coq Require Import String Ascii ZArith NArith List Bool Lia.
From Typify Require Import Base.Json IR.TypeIR Algo.HasImpl Proofs.HasImplProofs.
Import ListNotations.
Open Scope N_scope.

(* has_impl(X) true implies the type implements X — for every type space whose
   newtypes have an inner entry, every fuel, id and trait, for every code
   variant; the exclusions are exactly the classes of findings C17-F1 / C17-F2
   and disappear with the corresponding repair.
   Full statement (no exclusions) is REFUTED at the pinned commit: see the two
   `_refuted_` theorems. *)
Theorem C17_has_impl_sound : forall (c : cfg) (T : space) (f : nat) (i : id) (t : trait),
  newtype_inner_ok T = true ->
  has_impl c T f i t = true ->
  (fix_display_constrained c = false -> fix_display_facade c = false ->
   known_display_constrained T i t = false) ->
  (fix_nonzero_default c = false -> known_nonzero_default T f i t = false) ->
  implements c T f i t = true.
Proof. exact has_impl_sound. Qed.

(* with the NonZero repair (/repo 2273521) and either repair of F1 (C17-1: emit the
   impl; C17-3: the facade answers false) the statement holds at full strength *)
Theorem C17_has_impl_sound_repaired : forall (T : space) (f : nat) (i : id) (t : trait),
  newtype_inner_ok T = true ->
  has_impl repaired T f i t = true -> implements repaired T f i t = true.
Proof. exact has_impl_sound_repaired. Qed.

Theorem C17_has_impl_sound_repaired_facade : forall (T : space) (f : nat) (i : id) (t : trait),
  newtype_inner_ok T = true ->
  has_impl repaired_facade T f i t = true -> implements repaired_facade T f i t = true.
Proof. exact has_impl_sound_repaired_facade. Qed.

(* the facade repair changes the API's answer only inside the class of F1 (it cannot
   change the output: emitted_r / implements do not mention the facade) *)
Theorem C17_facade_repair_changes_only_known : forall (a b : bool) (T : space) (f : nat) (i : id) (t : trait),
  known_display_constrained T i t = false ->
  has_impl (mkCfg a b true) T f i t = has_impl (mkCfg a b false) T f i t.
Proof. exact facade_only_changes_known. Qed.

(* the tree after 2273521 (cfg `current`) still has F1 *)
Theorem C17_has_impl_sound_refuted_display_constrained_current :
  exists T f i, newtype_inner_ok T = true /\ has_impl current T f i TDisplay = true /\
                forall f', implements current T f' i TDisplay = false.
Proof.
  exists wit_display, 3%nat, 1. split; [reflexivity | split; [reflexivity|]].
  intros f'. destruct f' as [|f']; reflexivity.
Qed.

Theorem C17_has_impl_sound_refuted_display_constrained :
  exists T f i, newtype_inner_ok T = true /\ has_impl pinned T f i TDisplay = true /\
                forall f', implements pinned T f' i TDisplay = false.
Proof.
  exists wit_display, 3%nat, 1.
  destruct refuted_display as [W [_ [H I]]]. split; [exact W | split; [exact H | exact I]].
Qed.

Theorem C17_has_impl_sound_refuted_nonzero_default :
  exists T f i, newtype_inner_ok T = true /\ has_impl pinned T f i TDefault = true /\
                forall f', implements pinned T f' i TDefault = false.
Proof.
  exists wit_nonzero, 3%nat, 4.
  destruct refuted_nonzero as [W [_ [H [_ [_ I]]]]]. split; [exact W | split; [exact H | exact I]].
Qed.

(* the exclusions are not wider than the defects: each class contains a failing point *)
Theorem C17_known_display_constrained_fails :
  exists T f i t, known_display_constrained T i t = true /\
                  has_impl pinned T f i t = true /\ implements pinned T f i t = false.
Proof.
  exists wit_display, 3%nat, 1, TDisplay.
  destruct refuted_display as [_ [K [H I]]]. split; [exact K | split; [exact H | apply I]].
Qed.

Theorem C17_known_nonzero_default_fails :
  exists T f i t, known_nonzero_default T f i t = true /\
                  has_impl pinned T f i t = true /\ implements pinned T f i t = false.
Proof.
  exists wit_nonzero, 3%nat, 4, TDefault.
  destruct refuted_nonzero as [_ [K [H [_ [_ I]]]]]. split; [exact K | split; [exact H | apply I]].
Qed.

(* a `true` answer does not depend on the fuel it was computed with *)
Theorem C17_has_impl_fuel_stable : forall c T (f f' : nat) i t,
  (f <= f')%nat -> has_impl c T f i t = true -> has_impl c T f' i t = true.
Proof. exact has_impl_fuel_stable. Qed.

(* has_impl returns (no unbounded recursion) whenever the proxy edges
   (unconstrained newtype -> inner, Box, tuple, array) admit a rank *)
Theorem C17_has_impl_terminates : forall c T (rank : id -> nat),
  (forall i d j, get_det T i = Some d -> In j (proxy_children d) -> (rank j < rank i)%nat) ->
  forall i t, has_impl_r c T (S (rank i)) i t <> HDiverge.
Proof. exact has_impl_terminates. Qed.

(* ... and recurses forever on a type space that has a cycle of such edges
   (`struct A(A)`; typify's break_cycles never leaves one: it inserts a Box,
   which stops FromStr/Display, and newtypes stop Default) *)
Theorem C17_has_impl_can_diverge : forall c (f : nat), has_impl_r c loop_space f 1 TDisplay = HDiverge.
Proof. exact has_impl_can_diverge. Qed.

(* reported properties = emitted fields (names, types, in order, flattened ones
   included); required <-> the field carries no #[serde(default…)] *)
Theorem C17_props_are_fields : forall ps : list prop,
  Forall2 (fun r e => fst (fst r) = fst (fst e) /\ snd r = snd e /\ snd (fst r) = negb (snd (fst e)))
          (reported_props ps) (emitted_fields ps).
Proof. exact props_are_fields. Qed.

(* reported variants = emitted variants (names, shapes, field types), outside
   the class of finding C17-F4 (one-component tuple variants).  Full statement
   REFUTED: next theorem. *)
Theorem C17_variants_are_variants : forall vs : list variant,
  (forall v, In v vs -> known_tuple1_variant v = false) ->
  Forall2 (fun r e => variant_agrees r e = true) (map reported_variant vs) (map emitted_variant vs).
Proof. exact variants_are_variants. Qed.

Theorem C17_variants_are_variants_refuted_tuple1 :
  exists v, known_tuple1_variant v = true /\ variant_agrees (reported_variant v) (emitted_variant v) = false.
Proof. exact variants_refuted_tuple1. Qed.

Theorem C17_inner_is_field : forall d : details, reported_inner d = emitted_newtype_field d.
Proof. exact inner_is_field. Qed.

Theorem C17_builder_some_iff_emitted : forall (T : space) (i : id), builder_some T i = emitted_builder T i.
Proof. exact builder_some_iff_emitted. Qed.

(* every named leaf of a reported identifier is the name of an emitted item *)
Theorem C17_names_resolve : forall (T : space) (f : nat) (i : id), names_resolve T f i = true.
Proof. exact names_resolve_true. Qed.

(* the checker evaluated on every real dump is sound: if it says true, every
   entry that needs chrono / uuid / serde_json / regress has its flag *)
Theorem C17_uses_flags_cover_sound : forall (T : space) (i : id) (d : details),
  uses_flags_cover T = true -> get_det T i = Some d ->
  match entry_needs d with
  | (c, u, j, r) =>
      (c = true -> sp_uses_chrono T = true) /\ (u = true -> sp_uses_uuid T = true) /\
      (j = true -> sp_uses_serde_json T = true) /\ (r = true -> sp_uses_regress T = true)
  end.
Proof. exact uses_flags_cover_sound. Qed.

(* non-vacuity: the hypotheses are satisfiable and the conclusions are not trivial *)
Example C17_ex_sound_nonvacuous :
  newtype_inner_ok wit_display = true /\ has_impl pinned wit_display 3 1 TFromStr = true /\
  known_display_constrained wit_display 1 TFromStr = false /\ implements pinned wit_display 3 1 TFromStr = true.
Proof. repeat split; vm_compute; reflexivity. Qed.

Example C17_ex_repaired_display : implements repaired wit_display 3 1 TDisplay = true.
Proof. vm_compute. reflexivity. Qed.

Example C17_ex_repaired_nonzero : has_impl repaired wit_nonzero 3 4 TDefault = false.
Proof. vm_compute. reflexivity. Qed.

Example C17_ex_repaired_facade_display : has_impl repaired_facade wit_display 3 1 TDisplay = false
  /\ has_impl repaired_facade wit_display 3 1 TFromStr = true.
Proof. split; vm_compute; reflexivity. Qed.

Definition ex_rank (i : id) : nat := if i =? 1 then 2 else if i =? 4 then 1 else 0.

Example C17_ex_terminates_rank :
  forall i d j, get_det wit_nonzero i = Some d -> In j (proxy_children d) -> (ex_rank j < ex_rank i)%nat.
Proof.
  intros i d j G Hin. unfold get_det, get in G. simpl in G.
  repeat match type of G with
         | context [N.eqb i ?k] =>
             destruct (N.eqb_spec i k);
             [subst; inversion G; subst; simpl in Hin; intuition (subst; cbv; lia)|]
         end.
  discriminate.
Qed.
