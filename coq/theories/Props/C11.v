(* Props/C11.v — C11: string conversions of generated types agree with their wire format.
   Only statements; proofs are in Proofs/StrConvProofs.v.

   Everything is universally quantified over the type space T, the fuel f, the type id t,
   the probe string s (unbounded) and over the external functions
     re_match        regress::Regex::find
     native_parse    FromStr of uuid/chrono/std::net natives (= their Deserialize from a
                     JSON string: assumption A1, validated on every run)
     native_display / native_ser   Display / Serialize of those natives.
   Domain: string_wired sn T f t (wire form always a JSON string); wf_conv T f t says that the
   bespoke-impl lists of the enums reached are sound for has_impl (what finalize
   guarantees; evaluated to true on every type space the check explores). *)
From Coq Require Import String Ascii ZArith NArith List Bool.
From Typify Require Import Base.Json IR.TypeIR Algo.StrConv Proofs.StrConvProofs.
Import ListNotations.
Open Scope N_scope.

(* ---- known departure (findings/C11.json), as a predicate on the type ---- *)
(* F2: a native type reached from t prints (Display) differently from what it serialises;
   [nok] is the set of natives whose Display was validated equal to Serialize.
   (F1, raw names with braces used as format strings, is FIXED in /repo a0ebad5: the
   Display literal is escaped; no exclusion remains for it.) *)
Definition Known_F2 (nok : ustring -> bool) (T : space) (f : nat) (t : id) : Prop :=
  display_ok nok T f t = false.

(* ---- parsing succeeds exactly when deserialising the JSON string does, same value ---- *)
Theorem C11_parse_eq_de :
  forall (re_match native_parse : ustring -> ustring -> bool) (sn : ustring -> bool) (T : space) (f : nat) (t : id) (s : ustring),
    string_wired sn T f t = true -> wf_conv T f t = true -> emits_fromstr T f t = true ->
    from_str re_match native_parse T f t s = de_str re_match native_parse T f t s.
Proof. exact parse_eq_de. Qed.

Theorem C11_parse_iff_de :
  forall (re_match native_parse : ustring -> ustring -> bool) (sn : ustring -> bool) (T : space) (f : nat) (t : id) (s : ustring),
    string_wired sn T f t = true -> wf_conv T f t = true -> emits_fromstr T f t = true ->
    (from_str re_match native_parse T f t s <> None <-> de_str re_match native_parse T f t s <> None) /\
    (forall x y, from_str re_match native_parse T f t s = Some x ->
                 de_str re_match native_parse T f t s = Some y -> x = y).
Proof. exact parse_iff_de. Qed.

(* ---- TryFrom<&str>, TryFrom<&String>, TryFrom<String> are parse ---- *)
Theorem C11_try_from_eq_parse :
  forall (re_match native_parse : ustring -> ustring -> bool) (T : space) (f : nat) (t : id) (s : ustring),
    emits_tryfrom T f t = true ->
    try_from_str re_match native_parse T f t s = from_str re_match native_parse T f t s /\
    try_from_ref_string re_match native_parse T f t s = from_str re_match native_parse T f t s /\
    try_from_string_parse re_match native_parse T f t s = from_str re_match native_parse T f t s.
Proof. exact try_from_eq_parse. Qed.

(* ---- deny/enum-value newtypes over String: TryFrom<String> is what Deserialize does ---- *)
Theorem C11_try_from_inner_eq_de :
  forall (re_match native_parse : ustring -> ustring -> bool) (sn : ustring -> bool) (T : space) (f : nat) (t : id) (s : ustring),
    string_wired sn T f t = true -> emits_tryfrom_inner T t = true ->
    de_str re_match native_parse T f t s = try_from_inner T t s.
Proof. exact try_from_inner_eq_de. Qed.

(* ---- Display prints the string serialisation writes (outside F2), for EVERY raw name ---- *)
Theorem C11_display_is_ser :
  forall (re_match native_parse : ustring -> ustring -> bool) (sn : ustring -> bool)
         (native_display native_ser : ustring -> ustring -> ustring) (nok : ustring -> bool),
    (forall n s, nok n = true -> native_parse n s = true -> native_display n s = native_ser n s) ->
    forall (T : space) (f : nat) (t : id) (s : ustring) (x : sval),
      string_wired sn T f t = true -> wf_conv T f t = true -> emits_display T f t = true ->
      ~ Known_F2 nok T f t ->
      de_str re_match native_parse T f t s = Some x ->
      display native_display T f t x = ser_str native_ser T f t x /\
      ser_str native_ser T f t x <> None.
Proof.
  intros re np sn nd ns nok Hnat T f t s x W F E K2 D.
  apply (display_is_ser re np nd ns nok sn Hnat T f t s x W F E); auto.
  unfold Known_F2 in K2.
  destruct (display_ok nok T f t) eqn:B; [reflexivity | exfalso; apply K2; reflexivity].
Qed.

(* the escaped literal `write!` receives renders back to the raw name, whatever it contains *)
Theorem C11_display_brace_literal :
  forall s, fmt_render (fmt_escape s) = Some s.
Proof. exact fmt_render_escape. Qed.

(* regression witnesses of the fixed finding F1 (raw names `{{`, `{`, `{self}`): Display = serialisation *)
Definition noset := mkSettings None [] false [].
Definition T_brace : space :=
  mkSpace [(1, mkEntry (DEnum [66] None TagExternal
                          [mkVariant [123; 123] [88] VSimple; mkVariant [123] [89] VSimple;
                           mkVariant [123; 115; 101; 108; 102; 125] [90] VSimple] false
                          [AllSimpleVariants]) [])]
          2 noset false false false false [].
Definition nofn : ustring -> ustring -> bool := fun _ _ => false.
Definition nostr : ustring -> ustring -> ustring := fun _ _ => [].

Example C11_brace_regression :
  string_wired is_string_native T_brace 3 1 = true /\ wf_conv T_brace 3 1 = true /\ emits_display T_brace 3 1 = true /\
  display nostr T_brace 3 1 (SEnum 0) = Some [123; 123] /\
  ser_str nostr T_brace 3 1 (SEnum 0) = Some [123; 123] /\
  display nostr T_brace 3 1 (SEnum 1) = Some [123] /\
  display nostr T_brace 3 1 (SEnum 2) = ser_str nostr T_brace 3 1 (SEnum 2).
Proof. vm_compute. repeat split; reflexivity. Qed.

Definition dt_name : ustring := ustr_of_string "::chrono::DateTime<::chrono::offset::Utc>".
Definition T_dt : space :=
  mkSpace [(1, mkEntry (DNewtype [68; 116] None 2 CNone) []);
           (2, mkEntry (DNative dt_name [TFromStr; TDisplay] []) [])]
          3 noset true false false false [].
(* observed on the compiled code for s = "2020-01-01T00:00:00Z" *)
Definition dt_s : ustring := ustr_of_string "2020-01-01T00:00:00Z".
Definition dt_shown : ustring := ustr_of_string "2020-01-01 00:00:00 UTC".

Theorem C11_display_datetime_refuted :
  exists (native_parse : ustring -> ustring -> bool) (native_display native_ser : ustring -> ustring -> ustring)
         (nok sn : ustring -> bool) (T : space) (f : nat) (t : id) (s : ustring) (x : sval),
    (forall n s, nok n = true -> native_parse n s = true -> native_display n s = native_ser n s) /\
    string_wired sn T f t = true /\ wf_conv T f t = true /\ emits_display T f t = true /\
    Known_F2 nok T f t /\
    de_str nofn native_parse T f t s = Some x /\
    display native_display T f t x <> ser_str native_ser T f t x.
Proof.
  exists (fun _ _ => true), (fun _ _ => dt_shown), (fun _ s => s), (fun _ => false), is_string_native,
         T_dt, 3%nat, 1, dt_s, (SWrap (SNative dt_name dt_s)).
  split; [intros n s H; discriminate|].
  vm_compute. repeat split; try reflexivity. intros H; discriminate.
Qed.

(* ---- untagged enums: both sides search the variants in declaration order ---- *)
Theorem C11_untagged_first_wins :
  forall (re_match native_parse : ustring -> ustring -> bool) (T : space) (f : nat) (t : id) (s : ustring)
         n d vs dn bes k v,
    get_det T t = Some (DEnum n d TagUntagged vs dn bes) ->
    (has_bespoke AllSimpleVariants bes = false ->
     from_str re_match native_parse T (S f) t s = Some (SUntagged k v) ->
     (exists vr, nth_error vs k = Some vr /\
                 variant_conv (fun i => from_str re_match native_parse T f i s) vr = Some v) /\
     (forall j vr', (j < k)%nat -> nth_error vs j = Some vr' ->
                    variant_conv (fun i => from_str re_match native_parse T f i s) vr' = None)) /\
    (de_str re_match native_parse T (S f) t s = Some (SUntagged k v) ->
     (exists vr, nth_error vs k = Some vr /\
                 variant_conv (fun i => de_str re_match native_parse T f i s) vr = Some v) /\
     (forall j vr', (j < k)%nat -> nth_error vs j = Some vr' ->
                    variant_conv (fun i => de_str re_match native_parse T f i s) vr' = None)).
Proof.
  intros re np T f t s n d vs dn bes k v E. split.
  - intros HA H. exact (untagged_from_str_first re np T f t s n d vs dn bes k v E HA H).
  - intros H. exact (untagged_de_str_first re np T f t s n d vs dn bes k v E H).
Qed.

(* the variant FromStr picks is the variant serde picks, and every earlier one fails to deserialise *)
Theorem C11_untagged_order :
  forall (re_match native_parse : ustring -> ustring -> bool) (sn : ustring -> bool) (T : space) (f : nat) (t : id) (s : ustring)
         n d vs dn bes k v,
    get_det T t = Some (DEnum n d TagUntagged vs dn bes) ->
    string_wired sn T (S f) t = true -> wf_conv T (S f) t = true -> emits_fromstr T (S f) t = true ->
    from_str re_match native_parse T (S f) t s = Some (SUntagged k v) ->
    de_str re_match native_parse T (S f) t s = Some (SUntagged k v) /\
    (forall j vr', (j < k)%nat -> nth_error vs j = Some vr' ->
                   variant_conv (fun i => de_str re_match native_parse T f i s) vr' = None).
Proof.
  intros re np sn T f t s n d vs dn bes k v E W F Em H.
  rewrite (parse_eq_de re np sn T (S f) t s W F Em) in H. split; [exact H|].
  exact (proj2 (untagged_de_str_first re np T f t s n d vs dn bes k v E H)).
Qed.

(* ---- simple enums: the first variant whose raw name is s, duplicates or not ---- *)
Theorem C11_simple_enum_first_match :
  forall (re_match native_parse : ustring -> ustring -> bool) (T : space) (f : nat) (t : id) (s : ustring)
         n d tag vs dn bes k,
    get_det T t = Some (DEnum n d tag vs dn bes) ->
    has_bespoke AllSimpleVariants bes = true ->
    from_str re_match native_parse T (S f) t s = Some (SEnum k) ->
    (exists v, nth_error vs k = Some v /\ v_raw v = s) /\
    (forall j v', (j < k)%nat -> nth_error vs j = Some v' -> v_raw v' <> s).
Proof. exact simple_enum_first_match. Qed.

(* ---- internal has_impl(Display) = true but no Display impl for String-constrained newtypes;
        the public facade answers false since 0e25061 (see C17) ---- *)
Theorem C11_constrained_display_not_emitted :
  forall T f t n d i mx mn p,
    get_det T t = Some (DNewtype n d i (CString mx mn p)) ->
    emits_display T f t = false /\ has_impl T (S f) t TDisplay = true /\
    api_has_impl T (S f) t TDisplay = false.
Proof. exact constrained_display_not_emitted. Qed.

(* the public Type::has_impl (fix 0e25061) differs from the internal has_impl only there *)
Theorem C11_api_has_impl_internal :
  forall T f t tr,
    (forall n d i mx mn p, get_det T t = Some (DNewtype n d i (CString mx mn p)) -> tr <> TDisplay) ->
    api_has_impl T f t tr = has_impl T f t tr.
Proof. exact api_has_impl_internal. Qed.

(* ---- a format string without braces is printed literally by write! ---- *)
Theorem C11_fmt_render_literal :
  forall s, brace_free s = true -> fmt_render s = Some s.
Proof. exact fmt_render_literal. Qed.

(* ---------------- non-vacuity ---------------- *)
(* an untagged enum [String newtype with maxLength 3 | Uuid] next to a simple enum *)
Definition uuid_name : ustring := ustr_of_string "::uuid::Uuid".
Definition T_ex : space :=
  mkSpace [(1, mkEntry (DEnum [85] None TagUntagged
                          [mkVariant [86; 48] [86; 48] (VItem 2); mkVariant [86; 49] [86; 49] (VItem 4)] false
                          [UntaggedFromStr; UntaggedDisplay]) []);
           (2, mkEntry (DNewtype [77] None 3 (CString (Some 3) None None)) []);
           (3, mkEntry DString []);
           (4, mkEntry (DNative uuid_name [TFromStr; TDisplay] []) []);
           (5, mkEntry (DEnum [69] None TagExternal
                          [mkVariant [97; 45; 98] [65; 66] VSimple; mkVariant [99] [67] VSimple] false
                          [AllSimpleVariants]) []);
           (6, mkEntry (DNewtype [82] None 5 CNone) [])]
          7 noset false true false false [].

Example C11_hyps_satisfiable_untagged :
  string_wired is_string_native T_ex 4 1 = true /\ wf_conv T_ex 4 1 = true /\ emits_fromstr T_ex 4 1 = true /\
  emits_display T_ex 4 1 = true /\ ~ Known_F2 (fun _ => true) T_ex 4 1 /\
  from_str nofn (fun _ _ => true) T_ex 4 1 [97; 98; 99; 100] = Some (SUntagged 1 (SNative uuid_name [97; 98; 99; 100])) /\
  from_str nofn (fun _ _ => true) T_ex 4 1 [97] = Some (SUntagged 0 (SWrap (SStr [97]))).
Proof.
  unfold Known_F2. vm_compute. repeat split; try reflexivity.
  intros H; discriminate.
Qed.

Example C11_hyps_satisfiable_enum :
  string_wired is_string_native T_ex 4 6 = true /\ wf_conv T_ex 4 6 = true /\ emits_fromstr T_ex 4 6 = true /\
  emits_display T_ex 4 6 = true /\
  de_str nofn nofn T_ex 4 6 [97; 45; 98] = Some (SWrap (SEnum 0)) /\
  display nostr T_ex 4 6 (SWrap (SEnum 0)) = Some [97; 45; 98].
Proof.
  vm_compute. repeat split; reflexivity.
Qed.
