(* C16 -- the type space stays consistent across any history of additions.
   Property theorems only, each closed by `exact <lemma>`; `bin/check C16`
   re-runs Print Assumptions on every one.  Model: Algo/Space.v (the converter
   is an arbitrary script of assign_type calls, break_cycles an arbitrary list
   of snips); proofs: Proofs/SpaceProofs.v.

   Listed findings and where they appear here:
     C16-1      (a definition inserted under a type name that an EARLIER call
                 registered)  = the histories excluded by `fresh_history`;
     C16-3      (a titled / derived inline type of the SAME call has the
                 definition's name) FIXED by 40183ea, mirrored in Space.v
                 (`created_dup`): C16_names_unique_within_call,
                 C16_names_unique_inner_title_rejected;
     C16-2      (two definitions of ONE call with one type name) FIXED by
                 c22ef06 and mirrored in Space.v (`batch_dup`):
                 C16_names_unique_same_batch;
                 witnesses C16_names_unique_*_refuted, C16_readd_refs_refuted,
                 C16_readd_after_refs_refuted.
     C16-4      (calls after a failed batch) = histories containing AddRefsErr,
                 excluded by `history_ok` / `boxes_new`; witnesses
                 C16_ids_stable_without_cycle_hyp_refuted,
                 C16_entries_closed_after_failed_batch_refuted. *)
From Coq Require Import NArith List.
From Typify Require Import Algo.Space Proofs.SpaceProofs.
Import ListNotations.
Open Scope N_scope.

(* identifiers are never reused *)
Theorem C16_next_id_monotone : forall h s, next_id s <= next_id (run_history s h).
Proof. exact next_id_monotone. Qed.

(* clause 1.  Every id that exists keeps its entry (type name, structural key,
   child ids -- hence, with C16_entries_closed, its whole structure) through any
   further history, PROVIDED break_cycles only re-points slots of entries the
   running call created (`boxes_new`; checked on every observed call). *)
Theorem C16_ids_stable : forall h s i,
  i < next_id s -> boxes_new s h ->
  lookup N.eqb i (entries (run_history s h)) = lookup N.eqb i (entries s).
Proof. exact ids_stable. Qed.

(* ... and the proviso is needed: after a failed batch a later call re-points a
   slot of an older entry *)
Theorem C16_ids_stable_without_cycle_hyp_refuted :
  exists h0 h i, let s := run_history empty h0 in
    i < next_id s /\ lookup N.eqb i (entries (run_history s h)) <> lookup N.eqb i (entries s).
Proof. exact ids_stable_without_cycle_hyp_refuted. Qed.

(* clause 1 without ANY hypothesis, over whole histories of mixed calls (failed
   ones included): the rendering-relevant header of every existing entry --
   its type name and its structural key -- never changes.  Only child slots can
   change, and (C16_ids_stable) only through break_cycles snips on older entries *)
Theorem C16_name_key_stable : forall h s i, i < next_id s ->
  option_map hdr (lookup N.eqb i (entries (run_history s h))) = option_map hdr (lookup N.eqb i (entries s)).
Proof. exact name_key_stable. Qed.

(* finalize is LOCAL to the call (lib.rs:685-690, 780-785 walk base_id..next_id):
   the ids it re-inserts are those the running call created, it changes no entry,
   no index and no id -- so whatever finalize computes for a type (bespoke impls
   of enums, default checks) is computed once, by the call that created the type.
   In the tie the structural key of an entry INCLUDES the finalize-computed
   fields as of the end of its creating call, so C16_name_key_stable covers them:
   a later call that re-finalizes an older entry disagrees with the model. *)
Theorem C16_finalize_local : forall base s,
  finalize_range base s = fold_left finalize_one (finalize_ids base s) s
  /\ (forall i, In i (finalize_ids base s) -> base <= i < next_id s)
  /\ (forall k, lookup N.eqb k (entries (finalize_range base s)) = lookup N.eqb k (entries s))
  /\ next_id (finalize_range base s) = next_id s
  /\ name_to_id (finalize_range base s) = name_to_id s
  /\ type_to_id (finalize_range base s) = type_to_id s
  /\ ref_to_id (finalize_range base s) = ref_to_id s.
Proof. exact finalize_local. Qed.

Theorem C16_finalize_skips_older_ids : forall s i, i < next_id s ->
  forall s', next_id s <= next_id s' -> ~ In i (finalize_ids (next_id s) s').
Proof. exact finalize_of_call_local. Qed.

(* after any history of successful calls whose conversions only mention ids they
   obtained (history_ok): every child id of every entry has an entry, and every
   id below next_id has one (so finalize's unwrap, lib.rs:687/782, cannot fail
   and get_type succeeds on every returned id) *)
Theorem C16_entries_closed : forall h, history_ok empty h ->
  Closed (run_history empty h) /\
  (forall i, 1 <= i < next_id (run_history empty h) -> lookup N.eqb i (entries (run_history empty h)) <> None).
Proof. exact entries_closed. Qed.

Theorem C16_entries_closed_after_failed_batch_refuted :
  exists h c, let sr := run_call (run_history empty h) c in
    1 <= snd sr < next_id (fst sr) /\ lookup N.eqb (snd sr) (entries (fst sr)) = None.
Proof. exact entries_closed_after_failed_batch_refuted. Qed.

(* clause 2.  Re-running add_type_with_name's conversion in any state that
   extends the one it produced (same answers for the names, structures and refs
   registered there) returns the same id and changes NOTHING *)
Theorem C16_readd_same_id : forall s scr s1 i1 s2,
  add_type s scr = (s1, i1) -> ext s1 s2 -> add_type s2 scr = (s2, i1).
Proof. exact readd_same_id. Qed.

(* in particular after any number of further add_type_with_name calls *)
Theorem C16_readd_same_id_addtype_history : forall s scr s1 i1 h,
  add_type s scr = (s1, i1) -> Forall is_add_type h ->
  add_type (run_history s1 h) scr = (run_history s1 h, i1).
Proof. exact readd_same_id_addtype_history. Qed.

(* but not after a batch that defines the same type name *)
Theorem C16_readd_after_refs_refuted :
  exists scr defs, let r1 := add_type empty scr in
    let s2 := fst (run_call (fst r1) (AddRefs defs [] None)) in
    snd (add_type s2 scr) <> snd r1.
Proof. exact readd_after_refs_refuted. Qed.

(* add_ref_types / add_root_schema ALWAYS allocate one new id per definition,
   also for definitions that were added before ... *)
Theorem C16_readd_refs_allocates : forall s defs boxes ret,
  next_id s + N.of_nat (length defs) <= next_id (fst (run_call s (AddRefs defs boxes ret))).
Proof. exact add_refs_allocates. Qed.

(* ... so the same document twice returns another id and defines the name twice *)
Theorem C16_readd_refs_refuted :
  exists c, let r1 := run_call empty c in let r2 := run_call (fst r1) c in
    snd r2 <> snd r1 /\ next_id (fst r1) < next_id (fst r2) /\ ~ NoDup (def_names (fst r2)).
Proof. exact readd_refs_refuted. Qed.

(* clause 3.  to_stream() emits `def_names`.  It has no duplicates after every
   history (failed calls included) in which each definition is inserted under a
   type name that is not registered at that moment (fresh_history) *)
Theorem C16_names_unique : forall h, fresh_history empty h -> NoDup (def_names (run_history empty h)).
Proof. exact names_unique. Qed.

Theorem C16_names_unique_readd_refuted :
  exists c, ~ NoDup (def_names (run_history empty [c; c])).
Proof. exact names_unique_readd_refuted. Qed.

(* since fixes c22ef06 + 40183ea: ONE DEFINITION PER NAME WITHIN ONE CALL.
   (i) a batch with two definitions inserted under one type name (foo / Foo, a
   titled root and a definition) returns Err, whatever else it contains and in
   whatever state it is issued; *)
Theorem C16_names_unique_same_batch : forall pre d1 mid d2 post n b1 b2 boxes ret,
  d_ins d1 = InsNamed n b1 -> d_ins d2 = InsNamed n b2 ->
  forall s, call_err s (AddRefs (pre ++ d1 :: mid ++ d2 :: post) boxes ret) = true.
Proof. exact same_batch_rejected. Qed.

(* (ii) in an ACCEPTED batch the definitions' names are pairwise distinct AND every
   named entry the call created -- the definitions and the inline / titled types
   their conversions assigned (derived names) -- has its own name *)
Theorem C16_names_unique_within_call : forall s defs boxes ret,
  call_err s (AddRefs defs boxes ret) = false ->
  NoDup (flat_map (fun d => ins_names' (d_ins d)) defs)
  /\ NoDup (created_names (next_id s) (convert_defs (reserve s defs) (next_id s) defs)).
Proof. exact accepted_call_names_distinct. Qed.

(* (iii) hence, over histories of ACCEPTED calls (history_ok: no call returned
   Err, scripts closed), clause 3 needs freshness of a definition's type name
   only against the state BEFORE its call (prefresh_history): whatever happens
   inside a call -- titled sub-schemas, derived inline names, case variants --
   cannot produce a second definition of a name any more.  The remaining
   exclusion is exactly finding C16-1 (a name an EARLIER call registered). *)
Theorem C16_names_unique_accepted_histories : forall h,
  history_ok empty h -> prefresh_history empty h -> NoDup (def_names (run_history empty h)).
Proof.
  intros h Hok Hpf. destruct Bnd_empty as [HB HD].
  exact (names_unique_accepted h empty NInv_empty HB HD Hok Hpf).
Qed.

Example C16_prefresh_satisfiable : prefresh_history empty ex_history.
Proof.
  cbn [prefresh_history ex_history]. repeat split;
    intros df n tb Hin E; repeat (destruct Hin as [<-|Hin]; [inversion E; subst; reflexivity|]); destruct Hin.
Qed.

(* a rejected call is not rolled back: the entries stay and are rendered
   (class C16-4, state after a failed batch) *)
Theorem C16_names_unique_after_rejected_batch_refuted :
  exists d1 d2, d_key d1 <> d_key d2 /\ call_err empty (AddRefs [d1; d2] [] None) = true
    /\ ~ NoDup (def_names (run_history empty [AddRefs [d1; d2] [] None])).
Proof. exact names_unique_after_rejected_batch_refuted. Qed.

(* was finding C16-3 (a titled sub-schema takes the name of its enclosing
   definition first): rejected since 40183ea, also not rolled back *)
Theorem C16_names_unique_inner_title_rejected :
  exists d, batch_dup [d] = None /\ call_err empty (AddRefs [d] [] None) = true
    /\ ~ NoDup (def_names (run_history empty [AddRefs [d] [] None])).
Proof. exact inner_title_rejected. Qed.

(* clause 4, order of calls.  Two accepted calls c1, c2 (add_type_with_name or a
   batch, with cycles) issued from a consistent state s commute up to an
   EXPLICIT renaming of ids: with b = next_id s, n1 / n2 the numbers of ids c1 /
   c2 allocate from s,
       swap_ren b n1 n2 i = i            (i < b)
                          = i + n2       (b <= i < b + n1: the ids of c1)
                          = i - n1       (b + n1 <= i:     the ids of c2)
   maps the entry of every id after [c1; c2] to the entry of the renamed id after
   [c2; c1]: same type name, same structural key, children renamed.  Both runs
   allocate the same number of ids.  (A call issued second addresses its
   break_cycles parents at their shifted ids: shift_call.)
   Independence is stated operationally (call_cond0, evaluated along the call's
   own run from s): every type name, every structure and every ref key c1 looks
   up resolves in `run c2 s` to the same (shifted) answer as in s, and vice
   versa -- i.e. no shared type names, no shared refs, and neither call asks
   type_to_id for a structure the other one REGISTERED (structures that existed
   in s before both, e.g. String, are shared freely).  Scripts are closed over
   ids below b, their own results and ref keys (cref_cond0).
   NOT covered (kept partial below): two calls that both newly register the same
   unnamed structure (then the second run reuses the first one's id and the
   renaming is no block swap), and the merged form [b1 ++ b2] as ONE batch. *)
Theorem C16_split_permutation : forall s c1 c2 Y1 Y2 n1 n2 A B,
  Bnd s -> Dom s ->
  call_ok s c1 -> call_ok s c2 -> boxes_of_call_new s c1 -> boxes_of_call_new s c2 ->
  Y1 = fst (run_call s c1) -> Y2 = fst (run_call s c2) ->
  n1 = next_id Y1 - next_id s -> n2 = next_id Y2 - next_id s ->
  call_cond0 (next_id s) n2 s Y2 c1 -> call_cond0 (next_id s) n1 s Y1 c2 ->
  A = fst (run_call Y1 (shift_call (next_id s) n1 c2)) ->
  B = fst (run_call Y2 (shift_call (next_id s) n2 c1)) ->
  next_id A = next_id B /\ next_id A = next_id s + n1 + n2 /\
  forall i, 1 <= i < next_id A ->
    lookup N.eqb (swap_ren (next_id s) n1 n2 i) (entries B)
    = option_map (ren (swap_ren (next_id s) n1 n2)) (lookup N.eqb i (entries A)).
Proof. exact calls_commute. Qed.

(* the renaming is a bijection of [1, b+n1+n2): its inverse is the swap with n1, n2 exchanged *)
Theorem C16_split_renaming_bijective : forall b n1 n2 i, 1 <= b -> 1 <= i < b + n1 + n2 ->
  1 <= swap_ren b n1 n2 i < b + n1 + n2 /\ swap_ren b n2 n1 (swap_ren b n1 n2 i) = i.
Proof.
  intros b n1 n2 i Hb Hi. split; [apply swap_ren_range; assumption|apply swap_ren_inv; apply Hi].
Qed.

(* a renamed entry has the same type name and structural key *)
Theorem C16_renaming_keeps_name_and_key : forall f e, hdr (ren f e) = hdr e.
Proof. exact hdr_ren. Qed.

(* the state every history of successful calls reaches satisfies Bnd /\ Dom *)
Theorem C16_reachable_states_consistent : forall h, history_ok empty h ->
  Bnd (run_history empty h) /\ Dom (run_history empty h).
Proof. intros h H. destruct Bnd_empty as [HB HD]. exact (run_history_Bnd h empty HB HD H). Qed.

(* non-vacuity: s has String; c1 = definition A {a: A, s: String} with its self
   reference boxed; c2 = definition B {v: Vec<String>} *)
Example C16_split_permutation_hypotheses_satisfiable :
  Bnd cw_s /\ Dom cw_s /\ call_ok cw_s cw_c1 /\ call_ok cw_s cw_c2
  /\ boxes_of_call_new cw_s cw_c1 /\ boxes_of_call_new cw_s cw_c2
  /\ call_cond0 (next_id cw_s) (next_id (fst (run_call cw_s cw_c2)) - next_id cw_s) cw_s (fst (run_call cw_s cw_c2)) cw_c1
  /\ call_cond0 (next_id cw_s) (next_id (fst (run_call cw_s cw_c1)) - next_id cw_s) cw_s (fst (run_call cw_s cw_c1)) cw_c2.
Proof. exact cw_hyps. Qed.

(* clause 4, the rest, PARTIAL.  Full statement (not proved beyond
   C16_split_permutation):
     independent b1 b2 ->
       definitions (run [b1; b2]) == definitions (run [b2; b1]) == definitions (run [b1 ++ b2])
       up to renaming of ids, ALSO when b1 and b2 newly register the same unnamed
       structure and for the merged batch b1 ++ b2.
   Proved: two fresh histories that mention the same type names -- any orders,
   splits or merges of one set of additions -- register the same set of type
   names, both outputs are duplicate free and every definition name of one is
   registered in the other.  Equality of the definitions' STRUCTURE is checked
   on the implementation only (direct oracle, clause 4). *)
Theorem C16_split_independent_partial : forall h1 h2,
  (forall n, In n (mentions h1) <-> In n (mentions h2)) ->
  fresh_history empty h1 -> fresh_history empty h2 ->
  (forall n, registered (run_history empty h1) n <-> registered (run_history empty h2) n)
  /\ NoDup (def_names (run_history empty h1)) /\ NoDup (def_names (run_history empty h2))
  /\ (forall n, In n (def_names (run_history empty h1)) -> registered (run_history empty h2) n).
Proof. exact split_independent_partial. Qed.

Example C16_accepted_batch_exists : batch_dup [wA; wB; wC] = None /\ call_err empty (AddRefs [wA; wB] [] None) = false.
Proof. split; reflexivity. Qed.

(* non-vacuity: a history with a cycle, a snip, shared structure, a repeated add
   and a titled root satisfies all three hypotheses *)
Example C16_hypotheses_satisfiable :
  history_ok empty ex_history /\ fresh_history empty ex_history /\ boxes_new empty ex_history.
Proof. exact ex_history_ok. Qed.

Example C16_ext_satisfiable : forall s scr, ext (fst (add_type s scr)) (fst (add_type s scr)).
Proof. intros. apply ext_refl. Qed.
