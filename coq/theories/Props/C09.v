(* Props/C09.v — C09 "allOf means intersection, independent of subschema order".
   Only the property theorems (proofs are in Proofs/ValidProofs.v and Proofs/MergeProofs.v).

   FULL statements the faithful model REFUTES (kept here as comments; the `_refuted` theorems below
   carry the witnesses, each replayed on the real verif::merge_all and on compiled generated code):
     C09_merge_sound : forall a b m v, merge D f a b = MOk m -> valid a v -> valid b v -> valid m v
     C09_merge_never : forall a b v,   merge D f a b = MNever -> ~ (valid a v /\ valid b v)
   NOT proved (no refutation known on the current tree; before fix 884aa7b both were refuted through `roughly`):
     C09_merge_exact : forall a b m v, merge D f a b = MOk m -> valid m v -> valid a v /\ valid b v
     C09_merge_all_perm : Permutation L L' -> valid (merge_all L) v = valid (merge_all L') v
   EXACTNESS (both directions), never-soundness, merge_all and permutation equivalence are proved on the object
   fragment [obj_frag] (C09_merge_sound_obj, C09_merge_never_obj, C09_merge_all_exact_obj,
   C09_merge_all_perm_equiv); the older one-directional theorems below stay as `_partial`:
     - the scalar fragment [sfrag] (type lists without `number`, enum/const of non-float scalars,
       number/string validation; nothing else), for merge and for merge_all on lists;
     - the object fragment [ofrag] (nested objects with required, additionalProperties absent/true/false,
       min/maxProperties over scalar leaves, under the side conditions listed at the theorem), for merge and
       merge_all: no-narrower, never-soundness and closure, by induction on the merge fuel.
   Outside: additionalProperties schemas, array items, $ref + roughly, oneOf distribution — modelled and
   tied to the real code by K1, not verified. *)
From Coq Require Import String ZArith NArith QArith List Bool Permutation.
From Typify Require Import Base.Json Spec.Schema Spec.Valid IR.TypeIR IR.Serde
     Algo.Merge Check.Uninhabited Proofs.ValidProofs Proofs.MergeProofs Proofs.MergeExactProofs.
Import ListNotations.
Close Scope Q_scope.
Close Scope string_scope.
Open Scope list_scope.
Open Scope nat_scope.

(* ---------------------------------------------------------------- the specification side *)
(* validity of an allOf IS the conjunction: no merge is needed to state the property *)
Theorem C09_spec_intersection :
  forall (re_match fmt_ok : ustring -> ustring -> bool) (o : vopts) (D : defs) (n : nat) (L : list schema) (v : json),
    validx re_match fmt_ok o D n (SAllOf L) v = forallb (fun s => validx re_match fmt_ok o D n s v) L.
Proof. exact valid_allOf. Qed.

(* ... and it does not depend on the order of the list (any sibling keywords allowed) *)
Theorem C09_spec_perm :
  forall (re_match fmt_ok : ustring -> ustring -> bool) (o : vopts) (D : defs)
         ty fmt enum cst nv sv ik items ai mni mxi uq props req ap mnp mxp L L' anyo oneo no ref dflt title (v : json),
    Permutation L L' ->
    Validx re_match fmt_ok o D
           (SObj ty fmt enum cst nv sv ik items ai mni mxi uq props req ap mnp mxp (Some L) anyo oneo no ref dflt title) v ->
    Validx re_match fmt_ok o D
           (SObj ty fmt enum cst nv sv ik items ai mni mxi uq props req ap mnp mxp (Some L') anyo oneo no ref dflt title) v.
Proof. exact Valid_allOf_perm. Qed.

Theorem C09_spec_perm_fuel :
  forall (re_match fmt_ok : ustring -> ustring -> bool) (o : vopts) (D : defs) (n : nat)
         ty fmt enum cst nv sv ik items ai mni mxi uq props req ap mnp mxp L L' anyo oneo no ref dflt title (v : json),
    Permutation L L' ->
    validx re_match fmt_ok o D n
           (SObj ty fmt enum cst nv sv ik items ai mni mxi uq props req ap mnp mxp (Some L) anyo oneo no ref dflt title) v
    = validx re_match fmt_ok o D n
           (SObj ty fmt enum cst nv sv ik items ai mni mxi uq props req ap mnp mxp (Some L') anyo oneo no ref dflt title) v.
Proof. exact valid_allOf_perm. Qed.

(* ---------------------------------------------------------------- typify's merge (model), scalar fragment *)
(* merged schema no narrower than the conjunction; never only when the conjunction is empty;
   the fragment is closed under merge *)
Theorem C09_merge_sound_partial :
  forall (re_match fmt_ok : ustring -> ustring -> bool) (o : vopts) (DV : defs) (n : nat)
         (D : defs) (f : nat) (a b : schema) (v : json),
    sfrag a = true -> sfrag b = true ->
    match merge D (S f) a b with
    | MOk m => sfrag m = true /\
               (validx re_match fmt_ok o DV n a v = true -> validx re_match fmt_ok o DV n b v = true ->
                validx re_match fmt_ok o DV n m v = true)
    | MNever => validx re_match fmt_ok o DV n a v = true -> validx re_match fmt_ok o DV n b v = true -> False
    | _ => True
    end.
Proof. exact merge_scalar_sound. Qed.

(* the same for the entry point merge_all on a list of any length *)
Theorem C09_merge_all_sound_partial :
  forall (re_match fmt_ok : ustring -> ustring -> bool) (o : vopts) (DV : defs) (n : nat)
         (D : defs) (f : nat) (v : json) (L : list schema),
    Forall (fun s => sfrag s = true) L ->
    match merge_all D (S f) L with
    | MOk m => Forall (fun s => validx re_match fmt_ok o DV n s v = true) L -> validx re_match fmt_ok o DV n m v = true
    | MNever => Forall (fun s => validx re_match fmt_ok o DV n s v = true) L -> False
    | _ => True
    end.
Proof. exact merge_all_scalar_sound. Qed.

(* ---------------------------------------------------------------- typify's merge (model), object fragment
   [ofrag] (Algo/Merge.v), hereditarily: objects with properties (nested), required, additionalProperties
   absent/true/false, min/maxProperties, scalar leaves as in [sfrag]; side conditions (each one is the
   complement of a refutation witness / finding): no `number` type (F1), no format, enum/const of non-float
   scalars, no array keywords (F5), additionalProperties not a schema (F6: deferred allOf wrapper), every
   object keyword group guarded by "type":"object" (C09_merge_never_refuted_untyped), no $ref /
   allOf / anyOf / oneOf / not inside the members.  For ALL such a, b, ALL instances, ALL fuels:
   Ok => the result is in the fragment and no narrower than the conjunction; Never => the conjunction is empty. *)
Theorem C09_merge_obj_sound_partial :
  forall (re_match fmt_ok : ustring -> ustring -> bool) (o : vopts) (DV : defs) (n : nat)
         (D : defs) (f : nat) (a b : schema),
    ofrag a = true -> ofrag b = true ->
    match merge D f a b with
    | MOk m => ofrag m = true /\
               forall v, validx re_match fmt_ok o DV n a v = true -> validx re_match fmt_ok o DV n b v = true ->
                         validx re_match fmt_ok o DV n m v = true
    | MNever => forall v, validx re_match fmt_ok o DV n a v = true -> validx re_match fmt_ok o DV n b v = true -> False
    | _ => True
    end.
Proof. exact merge_ofrag_sound. Qed.

Theorem C09_merge_all_obj_sound_partial :
  forall (re_match fmt_ok : ustring -> ustring -> bool) (o : vopts) (DV : defs) (n : nat)
         (D : defs) (f : nat) (v : json) (L : list schema),
    Forall (fun s => ofrag s = true) L ->
    match merge_all D f L with
    | MOk m => Forall (fun s => validx re_match fmt_ok o DV n s v = true) L -> validx re_match fmt_ok o DV n m v = true
    | MNever => Forall (fun s => validx re_match fmt_ok o DV n s v = true) L -> False
    | _ => True
    end.
Proof. exact merge_all_ofrag_sound. Qed.

(* ---------------------------------------------------------------- EXACTNESS on the object fragment [obj_frag]
   FULL statements (for all schemas of merge.rs's input language), refuted on the faithful model — see the
   `_refuted` witnesses below and findings F1, F3, F5-F11:
     merge D f a b = MOk m  -> forall v, valid m v = valid a v && valid b v
     merge D f a b = MNever -> forall v, valid a v && valid b v = false
     Permutation L L' -> instances (merge_all L) = instances (merge_all L')
   Proved for ALL a, b (lists L) of the decidable fragment [obj_frag tx] (Algo/Merge.v), ALL well-formed
   instances (unique object keys, as serde_json produces them), ALL fuels, any validity options / definitions.
   Keywords in the fragment, hereditarily: type . enum / const (non-float scalars) . properties (unique names) .
   required . additionalProperties absent | true | false | schema . min/maxProperties . allOf . nested objects.
   Exclusion classes (each the decidable complement of a recorded refutation):
     Known_F1 = `integer` and `number` both occur -> [tx] in {TNumber, TInteger} is the type that does NOT occur;
     object keyword group without "type":"object" (C09_merge_never_refuted_untyped);
     format; array keywords (see C09_merge_sound_arr / _tuple below); number / string validation; $ref (roughly);
     anyOf / oneOf / not (F3, F10);
     float enum literals (F11, serde `==`).  F6, F8, F9 are defects of the conversion of the merged schema, or need
     three members in an order-dependent way that the MERGE's instance set does not show: they are not exclusions. *)
Theorem C09_merge_sound_obj :
  forall (re_match fmt_ok : ustring -> ustring -> bool) (o : vopts) (DV : defs) (n : nat)
         (tx : itype) (D : defs) (f : nat) (a b m : schema),
    tx = TNumber \/ tx = TInteger ->
    obj_frag false false tx a = true -> obj_frag false false tx b = true -> merge D f a b = MOk m ->
    obj_frag false false tx m = true /\
    forall v, wf_json v = true ->
              validx re_match fmt_ok o DV n m v = validx re_match fmt_ok o DV n a v && validx re_match fmt_ok o DV n b v.
Proof. exact merge_sound_obj. Qed.

Theorem C09_merge_never_obj :
  forall (re_match fmt_ok : ustring -> ustring -> bool) (o : vopts) (DV : defs) (n : nat)
         (tx : itype) (D : defs) (f : nat) (a b : schema),
    tx = TNumber \/ tx = TInteger ->
    obj_frag false false tx a = true -> obj_frag false false tx b = true -> merge D f a b = MNever ->
    forall v, wf_json v = true ->
              validx re_match fmt_ok o DV n a v && validx re_match fmt_ok o DV n b v = false.
Proof. exact merge_never_obj. Qed.

(* ARRAYS in the fragment ([obj_frag true]): additionally `items` as a single schema, minItems, maxItems,
   uniqueItems, the array keyword group guarded by "type":"array", at any depth (array members of objects, objects
   as items).  Exclusion class of finding C09-F5 on the instance side: [no_empty_arr v] (no empty array anywhere in
   the instance) — typify merges two `items` schemas that do not merge into never although [] satisfies both
   (C09_merge_never_refuted_items, C09_arr_never_example).  Tuple-style items / additionalItems (F7 and the
   first-position half of F5) are outside this fragment: modelled, K1-tied, decided per composition. *)
Theorem C09_merge_sound_arr :
  forall (re_match fmt_ok : ustring -> ustring -> bool) (o : vopts) (DV : defs) (n : nat)
         (tx : itype) (D : defs) (f : nat) (a b m : schema),
    tx = TNumber \/ tx = TInteger ->
    obj_frag true false tx a = true -> obj_frag true false tx b = true -> merge D f a b = MOk m ->
    obj_frag true false tx m = true /\
    forall v, wf_json v = true -> no_empty_arr v = true ->
              validx re_match fmt_ok o DV n m v = validx re_match fmt_ok o DV n a v && validx re_match fmt_ok o DV n b v.
Proof. exact merge_sound_arr. Qed.

Theorem C09_merge_never_arr :
  forall (re_match fmt_ok : ustring -> ustring -> bool) (o : vopts) (DV : defs) (n : nat)
         (tx : itype) (D : defs) (f : nat) (a b : schema),
    tx = TNumber \/ tx = TInteger ->
    obj_frag true false tx a = true -> obj_frag true false tx b = true -> merge D f a b = MNever ->
    forall v, wf_json v = true -> no_empty_arr v = true ->
              validx re_match fmt_ok o DV n a v && validx re_match fmt_ok o DV n b v = false.
Proof. exact merge_never_arr. Qed.

(* TUPLE MODE ([obj_frag true true]): `items` as a TUPLE with `additionalItems` absent or a schema of the fragment
   (also `false` / `true`), minItems, maxItems, uniqueItems, guarded by "type":"array"; tuples of different lengths
   are padded with their OWN additionalItems (merge_items_array: stop at maxItems, or at the first unmergeable
   position).  Exclusions: a single `items` schema never meets a tuple (finding C09-F7); no explicit zero bound
   `minItems: 0` / `maxItems: 0` (C09_merge_exact_refuted_maxitems0); instances without empty arrays (the
   first-position half of F5). *)
Theorem C09_merge_sound_tuple :
  forall (re_match fmt_ok : ustring -> ustring -> bool) (o : vopts) (DV : defs) (n : nat)
         (tx : itype) (D : defs) (f : nat) (a b m : schema),
    tx = TNumber \/ tx = TInteger ->
    obj_frag true true tx a = true -> obj_frag true true tx b = true -> merge D f a b = MOk m ->
    obj_frag true true tx m = true /\
    forall v, wf_json v = true -> no_empty_arr v = true ->
              validx re_match fmt_ok o DV n m v = validx re_match fmt_ok o DV n a v && validx re_match fmt_ok o DV n b v.
Proof. exact merge_sound_tuple. Qed.

Theorem C09_merge_never_tuple :
  forall (re_match fmt_ok : ustring -> ustring -> bool) (o : vopts) (DV : defs) (n : nat)
         (tx : itype) (D : defs) (f : nat) (a b : schema),
    tx = TNumber \/ tx = TInteger ->
    obj_frag true true tx a = true -> obj_frag true true tx b = true -> merge D f a b = MNever ->
    forall v, wf_json v = true -> no_empty_arr v = true ->
              validx re_match fmt_ok o DV n a v && validx re_match fmt_ok o DV n b v = false.
Proof. exact merge_never_tuple. Qed.

(* the same with Spec/Valid.v's three-valued discipline: Valid = definite at some fuel and true
   ([wa] = false: objects, instances [wf_json]; [wa] = true: with arrays, instances additionally [no_empty_arr];
   [tm]: tuple mode) *)
Theorem C09_merge_sound_obj_Valid :
  forall (re_match fmt_ok : ustring -> ustring -> bool) (DV : defs) (wa tm : bool) (tx : itype),
    tx = TNumber \/ tx = TInteger ->
    forall (D : defs) (f : nat) (a b m : schema) (v : json),
      obj_frag wa tm tx a = true -> obj_frag wa tm tx b = true -> merge D f a b = MOk m -> inst_ok wa v = true ->
      (Valid re_match fmt_ok DV m v <-> Valid re_match fmt_ok DV a v /\ Valid re_match fmt_ok DV b v).
Proof. exact merge_frag_exact_Valid. Qed.

Theorem C09_merge_never_obj_Valid :
  forall (re_match fmt_ok : ustring -> ustring -> bool) (DV : defs) (wa tm : bool) (tx : itype),
    tx = TNumber \/ tx = TInteger ->
    forall (D : defs) (f : nat) (a b : schema) (v : json),
      obj_frag wa tm tx a = true -> obj_frag wa tm tx b = true -> merge D f a b = MNever -> inst_ok wa v = true ->
      ~ (Valid re_match fmt_ok DV a v /\ Valid re_match fmt_ok DV b v).
Proof. exact merge_frag_never_Valid. Qed.

(* merge_all on a list of any length is exact, and therefore order independent: every permutation of the list
   merges to the SAME INSTANCE SET (never = the empty set); the merged schemas may differ syntactically.
   [defined r] = r is Ok or never (not a panic / not outside the model / enough fuel). *)
Theorem C09_merge_all_exact_obj :
  forall (re_match fmt_ok : ustring -> ustring -> bool) (o : vopts) (DV : defs) (n : nat) (wa tm : bool) (tx : itype),
    tx = TNumber \/ tx = TInteger ->
    forall (D : defs) (f : nat) (L : list schema) (v : json),
      L <> [] -> forallb (obj_frag wa tm tx) L = true -> defined (merge_all D f L) = true -> inst_ok wa v = true ->
      inst_set re_match fmt_ok o DV n (merge_all D f L) v = forallb (fun s => validx re_match fmt_ok o DV n s v) L.
Proof. exact merge_all_inst. Qed.

Theorem C09_merge_all_perm_equiv :
  forall (re_match fmt_ok : ustring -> ustring -> bool) (o : vopts) (DV : defs) (n : nat) (wa tm : bool) (tx : itype),
    tx = TNumber \/ tx = TInteger ->
    forall (D : defs) (f : nat) (L L' : list schema) (v : json),
      Permutation L L' -> forallb (obj_frag wa tm tx) L = true ->
      defined (merge_all D f L) = true -> defined (merge_all D f L') = true -> inst_ok wa v = true ->
      inst_set re_match fmt_ok o DV n (merge_all D f L) v = inst_set re_match fmt_ok o DV n (merge_all D f L') v.
Proof. exact merge_all_perm_equiv_frag. Qed.

(* FUEL DISCIPLINE of the merge (as Spec/Valid.v's for validity): an outcome is "defined" when it is Ok or never;
   on the fragment a defined outcome does not change with more fuel, so `defined` in the theorems above means
   "for every sufficiently large fuel", and two permutations may be evaluated at independent fuels *)
Theorem C09_merge_fuel_stable :
  forall (wa tm : bool) (tx : itype), tx = TNumber \/ tx = TInteger ->
  forall (D : defs) (f f' : nat) (a b : schema),
    f <= f' -> obj_frag wa tm tx a = true -> obj_frag wa tm tx b = true ->
    mdef (merge D f a b) = true -> merge D f' a b = merge D f a b.
Proof. exact merge_fuel_stable. Qed.

Theorem C09_merge_all_fuel_stable :
  forall (wa tm : bool) (tx : itype), tx = TNumber \/ tx = TInteger ->
  forall (D : defs) (f f' : nat) (L : list schema),
    f <= f' -> forallb (obj_frag wa tm tx) L = true ->
    mdef (merge_all D f L) = true -> merge_all D f' L = merge_all D f L.
Proof. exact merge_all_fuel_stable. Qed.

Theorem C09_merge_all_perm_equiv_fuels :
  forall (re_match fmt_ok : ustring -> ustring -> bool) (o : vopts) (DV : defs) (n : nat) (wa tm : bool) (tx : itype)
         (D : defs) (f f' : nat) (L L' : list schema) (v : json),
    tx = TNumber \/ tx = TInteger ->
    Permutation L L' -> forallb (obj_frag wa tm tx) L = true ->
    defined (merge_all D f L) = true -> defined (merge_all D f' L') = true -> inst_ok wa v = true ->
    inst_set re_match fmt_ok o DV n (merge_all D f L) v = inst_set re_match fmt_ok o DV n (merge_all D f' L') v.
Proof. exact merge_all_perm_equiv_fuels. Qed.

(* STRING FORMATS (component level; `format` is not a keyword of [obj_frag]): merge_so_format is exact on the six
   asserted string formats for EVERY format recogniser [fmt_ok] that satisfies the lattice ip >= ipv4, ipv6 and
   the disjointness of unrelated formats (hypotheses sampled against the recognisers on every run; the function
   itself is tied by the exhaustive K1 table of all ordered format pairs).  For integer-width and annotation-only
   formats the same function is NOT exact: finding C09-F12. *)
Theorem C09_merge_fmt_exact :
  forall (fmt_ok : ustring -> ustring -> bool),
    (forall s, fmt_ok f_ipv4 s = true -> fmt_ok f_ip s = true) ->
    (forall s, fmt_ok f_ipv6 s = true -> fmt_ok f_ip s = true) ->
    (forall x y s, is_string_format x = true -> is_string_format y = true -> fmt_related x y = false ->
                   fmt_ok x s = true -> fmt_ok y s = true -> False) ->
    forall (o : vopts) (fa fb : option ustring) (s : ustring),
      asserted fa = true -> asserted fb = true ->
      match merge_fmt fa fb with
      | Some f => asserted f = true /\
                  valid_format fmt_ok o f (JStr s) = valid_format fmt_ok o fa (JStr s) && valid_format fmt_ok o fb (JStr s)
      | None => valid_format fmt_ok o fa (JStr s) && valid_format fmt_ok o fb (JStr s) = false
      end.
Proof. exact merge_fmt_exact. Qed.

(* ---------------------------------------------------------------- refuted on the faithful model *)
(* finding C09-F1 *)
Theorem C09_merge_never_refuted_int_number :
  exists a b v, merge [] 5 a b = MNever /\ Vd [] 0 a v = true /\ Vd [] 0 b v = true.
Proof. exact never_refuted_int_number. Qed.

(* finding C09-F5 *)
Theorem C09_merge_never_refuted_items :
  exists a b v, merge [] 5 a b = MNever /\ Vd [] 0 a v = true /\ Vd [] 0 b v = true.
Proof. exact never_refuted_items. Qed.

Theorem C09_merge_never_refuted_untyped :
  exists a b v, merge [] 5 a b = MNever /\ Vd [] 0 a v = true /\ Vd [] 0 b v = true.
Proof. exact never_refuted_untyped. Qed.

(* former finding C09-F2, fixed by /repo 884aa7b: regression statements on the former witness *)
Theorem C09_F2_witness_keeps_bounds :
  exists m, merge w_defs 5 (SRef w_A) w_fixed = MOk m /\ Vd w_defs 3 m w_abc = false.
Proof. exact f2_witness_keeps_bounds. Qed.

Theorem C09_F2_witness_orders_agree :
  exists m m', Permutation [SRef w_A; w_fixed; w_narrow] ([w_fixed; w_narrow] ++ [SRef w_A])
               /\ merge_all w_defs 8 [SRef w_A; w_fixed; w_narrow] = MOk m
               /\ merge_all w_defs 8 ([w_fixed; w_narrow] ++ [SRef w_A]) = MOk m'
               /\ Vd w_defs 3 m w_abc = false /\ Vd w_defs 3 m' w_abc = false
               /\ Vd w_defs 3 m (JArr [JStr (ulit "a"); JStr (ulit "b")]) = true
               /\ Vd w_defs 3 m' (JArr [JStr (ulit "a"); JStr (ulit "b")]) = true.
Proof. exact f2_witness_orders_agree. Qed.

(* the fragment lies inside the complement of the decidable class of finding F1 (`integer` and `number` both occur
   in the pair): [tx] is the absent one *)
Theorem C09_obj_frag_excludes_Known_F1 :
  forall (wa tm : bool) (tx : itype) (a b : schema),
    tx = TNumber \/ tx = TInteger ->
    obj_frag wa tm tx a = true -> obj_frag wa tm tx b = true -> Known_F1 a b = false.
Proof. exact obj_frag_not_Known_F1. Qed.

(* exactness fails for an explicit `maxItems: 0` next to a tuple conflict (replayed on verif::merge_all:
   allOf[{items:[string,integer],maxItems:0},{items:[string,string]}] merges to {items:[string],maxItems:1}) *)
Theorem C09_merge_exact_refuted_maxitems0 :
  exists a b m v, merge [] 6 a b = MOk m /\ Vd [] 0 m v = true /\ Vd [] 0 a v = false.
Proof. exact exact_refuted_maxitems0. Qed.

(* ---------------------------------------------------------------- never => uninhabited generated type *)
Theorem C09_uninhabited_sound :
  forall (re_match native_ok : ustring -> ustring -> bool) (T : space) (f : nat) (t : id),
    uninhabited T f t = true -> forall (f' : nat) (v : json), Serde.de re_match native_ok T f' t v = None.
Proof. exact uninhabited_sound. Qed.

(* ---------------------------------------------------------------- non-vacuity *)
Example C09_scalar_example_ok :
  exists m, merge [] 3 (ty_only [TString; TNull])
                  (SObj None None (Some [JStr [97%N]; JNull; JInt 3]) None numv_none strv_none ItemsAbsent []
                        None None None false [] [] None None None None None None None None None None) = MOk m
            /\ sfrag m = true /\ Vd [] 0 m (JStr [97%N]) = true /\ Vd [] 0 m (JInt 3) = false.
Proof. exact scalar_example_ok. Qed.

Example C09_scalar_example_never :
  merge [] 3 (ty_only [TString]) (ty_only [TObject]) = MNever
  /\ sfrag (ty_only [TString]) = true /\ sfrag (ty_only [TObject]) = true.
Proof. exact scalar_example_never. Qed.

Example C09_obj_example_ok :
  let a := obj_of [([97%N], ty_only [TString])] [] None in
  let b := obj_of [([98%N], ty_only [TInteger])] [] (Some (SBool false)) in
  ofrag a = true /\ ofrag b = true /\
  exists m, merge [] 4 a b = MOk m /\ ofrag m = true
            /\ Vd [] 0 m (JObj [([98%N], JInt 1)]) = true /\ Vd [] 0 m (JObj [([97%N], JStr [])]) = false.
Proof. exact obj_example_ok. Qed.

Example C09_obj_example_never :
  let a := obj_of [([97%N], ty_only [TString])] [[97%N]] None in
  let b := obj_of [([98%N], ty_only [TInteger])] [] (Some (SBool false)) in
  ofrag a = true /\ ofrag b = true /\ merge [] 4 a b = MNever.
Proof. exact obj_example_never. Qed.

(* nested objects + required + additionalProperties schema + closed inner member + an allOf member *)
Example C09_obj_exact_example :
  obj_frag false false TNumber ex_a = true /\ obj_frag false false TNumber ex_b = true /\
  exists m, merge [] 6 ex_a ex_b = MOk m /\ obj_frag false false TNumber m = true
            /\ Vd [] 0 m ex_v_ok = true /\ Vd [] 0 ex_a ex_v_ok = true /\ Vd [] 0 ex_b ex_v_ok = true
            /\ Vd [] 0 m ex_v_bad1 = false /\ Vd [] 0 ex_b ex_v_bad1 = false
            /\ Vd [] 0 m ex_v_bad2 = false /\ Vd [] 0 ex_b ex_v_bad2 = false
            /\ wf_json ex_v_ok = true.
Proof. exact obj_exact_example. Qed.

Example C09_obj_never_example :
  obj_frag false false TNumber ex_a = true /\ obj_frag false false TNumber ex_closed = true /\ merge [] 6 ex_a ex_closed = MNever.
Proof. exact obj_never_example. Qed.

Example C09_obj_perm_example :
  exists m m', merge_all [] 8 [ex_a; ex_b; ty_only [TObject]] = MOk m
               /\ merge_all [] 8 [ty_only [TObject]; ex_b; ex_a] = MOk m'
               /\ Vd [] 0 m ex_v_ok = true /\ Vd [] 0 m' ex_v_ok = true
               /\ Vd [] 0 m ex_v_bad1 = false /\ Vd [] 0 m' ex_v_bad1 = false.
Proof. exact obj_perm_example. Qed.

Example C09_arr_exact_example :
  obj_frag true false TNumber exa_a = true /\ obj_frag true false TNumber exa_b = true /\
  exists m, merge [] 6 exa_a exa_b = MOk m /\ obj_frag true false TNumber m = true
            /\ Vd [] 0 m exa_v_ok = true /\ Vd [] 0 m exa_v_dup = false /\ Vd [] 0 exa_b exa_v_dup = false
            /\ Vd [] 0 m exa_v_long = false /\ Vd [] 0 exa_a exa_v_long = false
            /\ inst_ok true exa_v_ok = true.
Proof. exact arr_exact_example. Qed.

Example C09_arr_never_example :
  obj_frag true false TNumber exa_a = true /\ obj_frag true false TNumber exa_c = true /\ merge [] 6 exa_a exa_c = MNever
  /\ Vd [] 0 exa_a (JObj [([116%N], JArr [])]) = true /\ Vd [] 0 exa_c (JObj [([116%N], JArr [])]) = true
  /\ no_empty_arr (JObj [([116%N], JArr [])]) = false.
Proof. exact arr_never_example. Qed.

(* tuples of different lengths, the longer one closed and of fixed length (the shape of the first seeded regression) *)
Example C09_tuple_exact_example :
  obj_frag true true TNumber ext_a = true /\ obj_frag true true TNumber ext_b = true /\ obj_frag true true TNumber ext_c = true /\
  exists m m2, merge [] 6 ext_a ext_b = MOk m /\ obj_frag true true TNumber m = true
            /\ Vd [] 0 m ext_v_ok = true /\ Vd [] 0 m ext_v_long = false /\ Vd [] 0 ext_a ext_v_long = false
            /\ merge [] 6 ext_b ext_c = MOk m2
            /\ Vd [] 0 m2 ext_v_ok = true /\ Vd [] 0 m2 ext_v_long = true /\ Vd [] 0 m2 ext_v_bad = false
            /\ Vd [] 0 ext_c ext_v_bad = false /\ inst_ok true ext_v_ok = true.
Proof. exact tuple_exact_example. Qed.

(* the empty enum of convert_never is uninhabited *)
Example C09_never_type_uninhabited :
  uninhabited (mkSpace [(1%N, mkEntry (DEnum [80%N] None TagExternal [] true []) [])] 2%N
                       (mkSettings None [] false []) false false false false []) 4 1%N = true.
Proof. reflexivity. Qed.
