(* C19 - every generated type is public and carries the promised trait surface.
   Property theorems only: each is closed by `exact <lemma>`; `bin/check C19`
   re-runs Print Assumptions on every one.  All statements quantify over EVERY
   type space T (entries, settings with arbitrary extra derives) and EVERY entry;
   the derive names, removed names and `pub` tokens are those of
   Gen/DeriveTable.v, regenerated from type_entry.rs on every run.

   Vocabulary: [named e] = e is an Enum / Struct / Newtype entry (the only ones
   TypeEntry::output emits an item for); [derives_of T e] = the #[derive(..)]
   list of that item, in order; [u "X"] = the string X as a list of scalars. *)
From Coq Require Import String NArith List Bool Sorting.Sorted.
From Typify Require Import Base.Json IR.TypeIR Gen.DeriveTable Algo.Emit Proofs.EmitProofs.
Import ListNotations.
Open Scope string_scope.

(* pub item, Debug + Clone + Serialize derived, Deserialize derived or implemented
   by the validating impl, From<&Self> emitted *)
Theorem C19_surface_base : forall T e, named e ->
  item_vis (e_det e) = Some Pub /\
  (forall x, In x ["Debug"; "Clone"; "::serde::Serialize"] -> In (u x) (derives_of T e)) /\
  (In (u "::serde::Deserialize") (derives_of T e) \/ emits_validating_deserialize (e_det e) = true) /\
  emits_from_ref_self (e_det e) = true.
Proof. exact surface_base. Qed.

(* enums whose variants all lack data (whatever the tagging, default, bespoke impls) *)
Theorem C19_simple_enum_surface : forall T n df tag vs deny bes ds,
  (forall v, In v vs -> v_det v = VSimple) ->
  forall x, In x ["Copy"; "PartialOrd"; "Ord"; "PartialEq"; "Eq"; "Hash"] ->
  In (u x) (derives_of T (mkEntry (DEnum n df tag vs deny bes) ds)).
Proof. exact simple_enum_surface. Qed.

(* newtypes whose inner type is String, constrained or not *)
Theorem C19_string_newtype_surface : forall T n df inner c ds,
  get_det T inner = Some DString ->
  forall x, In x ["PartialOrd"; "Ord"; "PartialEq"; "Eq"; "Hash"] ->
  In (u x) (derives_of T (mkEntry (DNewtype n df inner c) ds)).
Proof. exact string_newtype_surface. Qed.

(* every derive typify adds by itself is satisfiable for that entry, whatever the user adds on top:
   supertraits present in the list, and every by-value field type has the trait - EXCEPT in the
   recorded class C19-F1 / C19-F2 (an array longer than 32 or a tuple longer than 12 reachable from
   a field: serde / std do not implement the base traits there).  Full-strength statement (without
   the exclusion) is refuted by [C19_known_long_array_fails] / [C19_known_long_tuple_fails]. *)
Theorem C19_builtin_derives_derivable : forall T i e x fuel,
  ~ Known_unsupported_aggregate T e ->
  get T i = Some e -> In x (builtin_derives T e) -> derivable x T (S fuel) i = true.
Proof. exact builtin_derives_derivable. Qed.

(* the comparison / hashing / Copy extensions never need the exclusion *)
Theorem C19_extension_derives_derivable : forall T e x fuel,
  In x (builtin_derives T e) -> always_derivable x = false -> derivable_entry x T (S fuel) e = true.
Proof. exact extension_derivable_entry. Qed.

Theorem C19_known_long_array_fails :
  exists T i e x, get T i = Some e /\ Known_unsupported_aggregate T e /\
                  In x (builtin_derives T e) /\ forall fuel, derivable x T (S (S fuel)) i = false.
Proof. exact known_long_array_fails. Qed.

Theorem C19_known_long_tuple_fails :
  exists T i e x, get T i = Some e /\ Known_unsupported_aggregate T e /\
                  In x (builtin_derives T e) /\ forall fuel, derivable x T (S (S fuel)) i = false.
Proof. exact known_long_tuple_fails. Qed.

(* in particular Eq / Ord / Hash are never added to an item that holds a float,
   directly or through Option / Box / Vec / array / tuple / map *)
Theorem C19_cmp_hash_never_on_float : forall T e x,
  In x ["Eq"; "Ord"; "Hash"] -> In (u x) (builtin_derives T e) ->
  forall i, In i (contents (e_det e)) -> forall fuel, float_inside T fuel i = false.
Proof. exact cmp_hash_never_on_float. Qed.

Theorem C19_extra_derives_everywhere : forall T e, named e ->
  forall x, In x (s_derives (sp_settings T)) -> In x (derives_of T e).
Proof. exact extra_derives_everywhere. Qed.

Theorem C19_type_derives_everywhere : forall T e, named e ->
  forall x, In x (e_derives e) -> In x (derives_of T e).
Proof. exact type_derives_everywhere. Qed.

(* never both #[derive(Deserialize)] (from typify) and the hand-written impl: E0119 otherwise *)
Theorem C19_deserialize_not_twice : forall T e,
  ~ (In (u "::serde::Deserialize") (builtin_derives T e) /\ emits_validating_deserialize (e_det e) = true).
Proof. exact deserialize_not_twice. Qed.

Theorem C19_field_visibility :
  (forall n df ps deny v, In v (field_vis (DStruct n df ps deny)) -> v = Pub) /\
  (forall n df inner c, field_vis (DNewtype n df inner c) =
                        [match c with CNone => Pub | _ => Private end]).
Proof. exact field_visibility. Qed.

(* an enum with ZERO variants is vacuously "all simple": it gets Copy .. Hash too *)
Theorem C19_empty_enum_is_simple : forall T n df tag deny bes ds x,
  In x ["Copy"; "PartialOrd"; "Ord"; "PartialEq"; "Eq"; "Hash"] ->
  In (u x) (derives_of T (mkEntry (DEnum n df tag [] deny bes) ds)).
Proof. exact empty_enum_is_simple. Qed.

(* untagged / internally / adjacently tagged enums: the derive list depends on the variants only *)
Theorem C19_derives_ignore_tagging : forall T n df tag deny bes n' df' tag' deny' bes' vs ds,
  derives_of T (mkEntry (DEnum n df tag vs deny bes) ds) =
  derives_of T (mkEntry (DEnum n' df' tag' vs deny' bes') ds).
Proof. exact derives_ignore_tagging. Qed.

Theorem C19_unnamed_emit_nothing : forall T e, det_name (e_det e) = None ->
  derives_of T e = [] /\ item_vis (e_det e) = None /\ field_vis (e_det e) = [] /\
  emits_from_ref_self (e_det e) = false /\ emits_validating_deserialize (e_det e) = false.
Proof. exact unnamed_emit_nothing. Qed.

(* BTreeSet iteration order, no duplicates (a duplicate derive is E0119) *)
Theorem C19_derives_sorted_nodup : forall T e,
  StronglySorted ult (derives_of T e) /\ NoDup (derives_of T e).
Proof. exact derives_sorted_nodup. Qed.

(* the per-kind impl table used by the K4 check lists the validating Deserialize impl exactly for the
   entries that emit it, and the From<&Self> impl for every named entry *)
Theorem C19_expected_impls_cover_surface : forall T e k, kind_of T (e_det e) = Some k ->
  (has_header "::serde::Deserialize<'de>" k = emits_validating_deserialize (e_det e)) /\
  ((has_header "::std::convert::From<&Self>" k || has_header "::std::convert::From<&$T>" k)
   = emits_from_ref_self (e_det e)).
Proof. exact expected_impls_cover_surface. Qed.

(* A newtype over a Native - the IR form of every replacement / conversion type of the settings and of
   the built-in uuid / chrono / ip types, whatever impls (Display, FromStr, Default) are recorded for it -
   never gets a comparison, hashing or Copy derive from typify: those come from the String test alone. *)
Theorem C19_no_comparison_derives_over_settings_native : forall T n df inner c ds name impls params x,
  get_det T inner = Some (DNative name impls params) ->
  In x ["Copy"; "PartialOrd"; "Ord"; "PartialEq"; "Eq"; "Hash"] ->
  ~ In (u x) (builtin_derives T (mkEntry (DNewtype n df inner c) ds)).
Proof. exact no_comparison_derives_over_settings_native. Qed.

Theorem C19_comparison_derives_only_over_string : forall T n df inner c ds x,
  get_det T inner <> Some DString -> In x ["Copy"; "PartialOrd"; "Ord"; "PartialEq"; "Eq"; "Hash"] ->
  ~ In (u x) (builtin_derives T (mkEntry (DNewtype n df inner c) ds)).
Proof. exact comparison_derives_only_over_string. Qed.

(* ---- non-vacuity: the hypotheses are satisfiable and the conclusions are not trivial ---- *)
Definition ex_settings : settings := mkSettings None [u "PartialEq"] false (u "HashMap").
Definition ex_space : space :=
  mkSpace [ (1%N, mkEntry (DNewtype (u "C") None 6%N (CString (Some 3%N) None None)) [])
          ; (2%N, mkEntry (DEnum (u "E") None TagExternal
                             [mkVariant (u "a") (u "A") VSimple; mkVariant (u "b") (u "B") VSimple] false
                             [AllSimpleVariants]) [])
          ; (3%N, mkEntry (DStruct (u "Foo") None [mkProp (u "x") RNone PRequired 7%N] false) [u "Default"])
          ; (4%N, mkEntry (DNewtype (u "M") None 8%N CNone) [])
          ; (6%N, mkEntry DString []); (7%N, mkEntry (DFloat (u "f64")) [])
          ; (8%N, mkEntry (DOption 7%N) []) ]
          9%N ex_settings false false false true [].

Example ex_constrained_string_newtype :
  option_map (derives_of ex_space) (get ex_space 1%N) =
  Some (map u ["::serde::Serialize"; "Clone"; "Debug"; "Eq"; "Hash"; "Ord"; "PartialEq"; "PartialOrd"]) /\
  option_map (fun e => emits_validating_deserialize (e_det e)) (get ex_space 1%N) = Some true /\
  option_map (fun e => field_vis (e_det e)) (get ex_space 1%N) = Some [Private].
Proof. repeat split; vm_compute; reflexivity. Qed.

Example ex_simple_enum :
  option_map (derives_of ex_space) (get ex_space 2%N) =
  Some (map u ["::serde::Deserialize"; "::serde::Serialize"; "Clone"; "Copy"; "Debug"; "Eq"; "Hash"; "Ord";
               "PartialEq"; "PartialOrd"]).
Proof. vm_compute. reflexivity. Qed.

Example ex_struct_with_float_and_user_derives :
  option_map (derives_of ex_space) (get ex_space 3%N) =
  Some (map u ["::serde::Deserialize"; "::serde::Serialize"; "Clone"; "Debug"; "Default"; "PartialEq"]) /\
  (* the user's PartialEq is derivable over f64, Eq would not be *)
  derivable (u "PartialEq") ex_space 5 3%N = true /\
  derivable (u "Eq") ex_space 5 3%N = false.
Proof. repeat split; vm_compute; reflexivity. Qed.

Example ex_float_through_option :
  float_inside ex_space 3 8%N = true /\
  option_map (fun e => contents (e_det e)) (get ex_space 4%N) = Some [8%N] /\
  option_map (fun e => mem_ustr (u "Eq") (builtin_derives ex_space e)) (get ex_space 4%N) = Some false.
Proof. repeat split; vm_compute; reflexivity. Qed.

Example ex_empty_enum :
  derives_of ex_space (mkEntry (DEnum (u "Never") None TagUntagged [] false []) []) =
  map u ["::serde::Deserialize"; "::serde::Serialize"; "Clone"; "Copy"; "Debug"; "Eq"; "Hash"; "Ord";
         "PartialEq"; "PartialOrd"].
Proof. vm_compute. reflexivity. Qed.
