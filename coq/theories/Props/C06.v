(* Props/C06.v -- property C06: "Schema defaults are reproduced exactly, or rejected when
   the schema is added".  Only the property theorems; models in Algo/Defaults.v and
   Algo/Value.v, proofs in Proofs/DefaultsProofs.v.

   Outcomes of the models: ROk = Ok/Some, RErr = Err(InvalidValue)/None, RPanic = a Rust
   panic (unwrap of a missing id, unreachable!()), RFuel = the MODEL ran out of fuel.
   `output_value .. = RErr` is exactly the `None` on which to_stream() calls .unwrap()
   (type_entry.rs:869,1189,1614; defaults.rs:358-367).

   Full-strength statements that the faithful model REFUTES are kept as `_refuted`
   theorems with their witnesses (each replayed on the real code by the check and
   recorded in findings/C06.json); what is proved is stated with the recorded class
   excluded, or on the named fragment (`_partial`). *)
From Coq Require Import String ZArith NArith QArith List Bool.
From Typify Require Import Base.Json IR.TypeIR Algo.Defaults Algo.Value Proofs.DefaultsProofs.
Import ListNotations.
Close Scope Q_scope.
Open Scope N_scope.

(* (1) No render panic after successful validation: for EVERY type space, fuel, type id and
   JSON value, outside class F1 (the verdict depends on the String arm accepting a
   non-string, finding C06-F1). *)
Theorem C06_validate_implies_output : forall T f t d k,
  validate_value T f t d = ROk k -> ~ Known_F1 T f t d -> output_value T f t d <> RErr.
Proof. exact validate_implies_output. Qed.

(* full statement (without the exclusion) is false: {"type":"string","default":5} *)
Theorem C06_validate_implies_output_refuted :
  exists T f t d k, validate_value T f t d = ROk k /\ output_value T f t d = RErr /\ Known_F1 T f t d.
Proof. exact validate_implies_output_refuted. Qed.

(* a unit-typed property with default null validates, then default_fn hits unreachable!() (C06-F4) *)
Theorem C06_unit_default_render_refuted :
  exists T f t d k, validate_value T f t d = ROk k /\ render_prop_default T f t d = RPanic.
Proof. exact unit_default_render_refuted. Qed.

(* (2) C06_default_typed : validate .. = ROk _ -> output .. = ROk e -> expr_typed T f e t = true
   is REFUTED three ways (outside F1): *)
Theorem C06_default_typed_tuple1_refuted :
  exists T f t d k e, validate_value T f t d = ROk k /\ ~ Known_F1 T f t d /\
                      output_value T f t d = ROk e /\ expr_typed T f e t = false /\ expr_any is_tuple1 e = true.
Proof. exact default_typed_tuple1_refuted. Qed.

Theorem C06_default_typed_int_range_refuted :
  exists T f t d k e, validate_value T f t d = ROk k /\ ~ Known_F1 T f t d /\
                      output_value T f t d = ROk e /\ expr_typed T f e t = false /\ expr_any is_int_oob e = true.
Proof. exact default_typed_int_range_refuted. Qed.

Theorem C06_default_typed_flatten_refuted :
  exists T f t d k e, validate_value T f t d = ROk k /\ ~ Known_F1 T f t d /\
                      output_value T f t d = ROk e /\ expr_typed T f e t = false /\ expr_any has_flit e = true.
Proof. exact default_typed_flatten_refuted. Qed.

(* (3) C06_default_exact : .. -> exists r, eval_expr T e = Some r /\ approx d r = true is REFUTED:
   0 validates for a NonZero type and the rendered NonZeroU32::new(0).unwrap() denotes no value *)
Theorem C06_default_exact_nonzero_refuted :
  exists T f t d k e, validate_value T f t d = ROk k /\ output_value T f t d = ROk e /\
                      expr_typed T f e t = true /\ eval_expr T e = None /\ expr_any is_nz_zero e = true.
Proof. exact default_exact_nonzero_refuted. Qed.

(* (4) C06_invalid_rejected, for the constraints the IR carries.
   Newtype constraints are carried by the IR but ignored by validate_value (C06-F3): *)
Theorem C06_invalid_rejected_newtype_refuted :
  exists T f t d k name def inner c,
    get_det T t = Some (DNewtype name def inner c) /\ constraint_ok c d = false /\ validate_value T f t d = ROk k.
Proof. exact invalid_rejected_newtype_refuted. Qed.

(* what IS rejected, for all spaces and values: a JSON value of the wrong shape for the kind
   (bool, integers incl. non-integral numbers, floats, unit, vec/set/map/struct containers,
   tuple arity, fixed-array length) *)
Theorem C06_invalid_rejected_scalar : forall T f t det d,
  get_det T t = Some det -> shape_mismatch det d = true -> validate_value T (S f) t d = RErr.
Proof. exact invalid_rejected_scalar. Qed.

(* (2',3') typed and exact on the scalar kinds (bool, integers, floats, strings, unit), with the two
   recorded classes excluded by hypothesis: validation with the strict String arm (F1) and an
   integer literal that fits its Rust type and is non-zero for NonZero (F5, F6).
   PARTIAL: the full statements quantify over every kind; Option/Vec/Tuple/Array/Box/Newtype/Struct/
   enums are covered by the run-time model-vs-rustc / model-vs-serde agreement only (see notes). *)
Theorem C06_default_typed_partial : forall T f t det d k,
  get_det T t = Some det -> scalar_det det = true -> int_fits det d = true ->
  validate_strict T (S f) t d = ROk k ->
  exists e r, output_value T (S f) t d = ROk e /\ expr_typed T (S f) e t = true /\
              eval_expr T e = Some r /\ approx d r = true.
Proof. exact scalar_typed_exact. Qed.

Theorem C06_default_exact_partial : forall T f t det d k,
  get_det T t = Some det -> scalar_det det = true -> int_fits det d = true ->
  validate_strict T (S f) t d = ROk k ->
  exists e r, output_value T (S f) t d = ROk e /\ eval_expr T e = Some r /\ approx d r = true.
Proof.
  intros T f t det d k H1 H2 H3 H4.
  destruct (scalar_typed_exact T f t det d k H1 H2 H3 H4) as [e [r [A [_ [B C]]]]]. exists e, r. auto.
Qed.

(* non-vacuity: the hypotheses are satisfiable *)
Example C06_nonvacuous_validate :
  validate_value Tw 3 6 (JArr [JInt 1; JInt 2]) = ROk KSpecific /\ ~ Known_F1 Tw 3 6 (JArr [JInt 1; JInt 2]).
Proof. split; [vm_compute; reflexivity|]. unfold Known_F1. vm_compute. intro H. apply H. reflexivity. Qed.

Example C06_nonvacuous_scalar :
  get_det Tw 5 = Some (DInteger (u "u8")) /\ int_fits (DInteger (u "u8")) (JInt 255) = true /\
  validate_strict Tw 1 5 (JInt 255) = ROk (KGeneric GU64).
Proof. repeat split; vm_compute; reflexivity. Qed.

Example C06_nonvacuous_shape : shape_mismatch (DTuple [2; 2]) (JArr [JInt 1]) = true.
Proof. reflexivity. Qed.
