(* Props/C06.v -- property C06: "Schema defaults are reproduced exactly, or rejected when
   the schema is added".  Only the property theorems; models in Algo/Defaults.v and
   Algo/Value.v (mirroring /repo AFTER the fix: commits 9891d21, dc9ac49, 9117497, cd15928,
   07af100, 31ec69c, 15ce314, a08c818, fd85c79), proofs in Proofs/DefaultsProofs.v.

   Outcomes of the models: ROk = Ok/Some, RErr = Err(InvalidValue)/None, RPanic = a Rust
   panic (unwrap of a missing id, unreachable!()), RFuel = the MODEL ran out of fuel.
   `output_value .. = RErr` is exactly the `None` on which to_stream() calls .unwrap().
   [re] is the regress engine (`Regex::new(p).map(|r| r.find(s).is_some()).unwrap_or(false)`):
   every theorem holds for every such function. *)
From Coq Require Import String ZArith NArith QArith List Bool.
From Typify Require Import Base.Json IR.TypeIR Algo.Defaults Algo.Value Proofs.DefaultsProofs.
Import ListNotations.
Close Scope Q_scope.
Open Scope N_scope.

(* (1) No render panic after successful validation: EVERY type space, fuel, type id, kind
   (all enum taggings, flattened members, sets, maps ...) and JSON value.  No exclusion any more
   (was: ~Known_F1, finding C06-F1 fixed by 9891d21). *)
Theorem C06_validate_implies_output : forall re T f t d k,
  validate_value re T f t d = ROk k -> output_value T f t d <> RErr.
Proof. exact validate_implies_output. Qed.

(* (2) invalid defaults are rejected, for the constraints the IR carries *)
(* wrong JSON shape for the kind: bool, integer (incl. non-integral), float, unit, vec/set/map/struct
   containers, tuple arity, fixed-array length *)
Theorem C06_invalid_rejected_scalar : forall re T f t det d,
  get_det T t = Some det -> shape_mismatch det d = true -> validate_value re T (S f) t d = RErr.
Proof. exact invalid_rejected_scalar. Qed.

(* a non-string default at a String-typed position is rejected (was C06_validate_implies_output_refuted) *)
Theorem C06_string_default_is_string : forall re T f t d k,
  get_det T t = Some DString -> validate_value re T (S f) t d = ROk k -> exists s, d = JStr s.
Proof. exact string_default_is_string. Qed.

(* newtype constraints (allow list, deny list, max/min length in scalar values, pattern) are enforced
   on defaults (was C06_invalid_rejected_newtype_refuted, C06-F3 fixed by 9117497) *)
Theorem C06_newtype_default_checked : forall re T f t name def inner c d k,
  get_det T t = Some (DNewtype name def inner c) ->
  validate_value re T (S f) t d = ROk k -> constraint_ok re c d = true.
Proof. exact newtype_default_checked. Qed.

(* integer defaults fit the Rust integer type wherever they occur (nested, beside $ref), and are
   non-zero for NonZero types (was C06_default_typed_int_range_refuted / C06_default_exact_nonzero_refuted,
   C06-F5/F6 fixed by 07af100) *)
Theorem C06_integer_default_fits : forall re T f t name d k,
  get_det T t = Some (DInteger name) ->
  validate_value re T (S f) t d = ROk k ->
  integer_fits name d = true /\ exists z, d = JInt z.
Proof. exact integer_default_fits. Qed.

(* a unit-typed property with default null is Optional: default_fn's unreachable!() on Unit is never
   reached (was C06_unit_default_render_refuted, C06-F4 fixed by cd15928) *)
Theorem C06_unit_null_optional : has_default (Some DUnit) (Some JNull) = POptional.
Proof. exact unit_null_optional. Qed.

(* (3) C06_default_typed for EVERY kind except untagged enums: a validated default renders to an expression that
   rustc types at the target type.  [tfrag T g dok n t] is a decidable condition on the TYPE only (n bounds its depth):
   bool, the twelve known integer types, floats, string, unit, JsonValue, natives; Option, Box, Vec, Set, fixed
   arrays, tuples of any arity, maps, newtypes with any constraints; structs whose members are direct members or ONE
   flattened String-keyed map, with distinct field and wire names, where an Optional member has a Default-implementing
   type (absent => `Default::default()`) and a member with its own default has had it validated ([dok]: absent => its
   own default is rendered, fix a08c818); externally / internally / adjacently tagged enums with distinct non-empty
   variant identifiers (unit, newtype, tuple incl. one-element, struct variants).
   [defaults_validated re T dok] is what check_defaults establishes for every property default at finalisation.
   PARTIAL w.r.t. the full statement: untagged enums (output_value may pick an EARLIER variant than the one that
   validated), flattened struct / Option<struct> members, recursive types: tfrag bounds the type depth and never re-enters
   a struct / enum inside the rendering of one of its own member defaults -- the side condition "no member default
   re-enters itself" of fix fd85c79, decidable; on re-entry the member is rendered `Default::default()` (Value.v). *)
Theorem C06_default_typed_partial : forall re T g dok, defaults_validated re T dok ->
  forall n f t d k,
  validate_value re T f t d = ROk k -> tfrag T g dok [] n t = true ->
  exists e, output_value T n t d = ROk e /\ expr_typed T g e t = true.
Proof.
  intros re T g dok Hd n f t d k H Hf. unfold output_value.
  exact (tfrag_typed re T g dok Hd n f [] [] t d k (fun i v nm (Hin : In (i, v, nm) []) => match Hin with end) H Hf).
Qed.

(* the same under any FILLING stack (fix fd85c79) whose owners the fragment avoids: while the default of a member of
   struct / enum t is being rendered, t is not re-entered, so no member default is met while already in progress *)
Theorem C06_default_typed_fill : forall re T g dok, defaults_validated re T dok ->
  forall n f filling avoid t d k, owners_in filling avoid ->
  validate_value re T f t d = ROk k -> tfrag T g dok avoid n t = true ->
  exists e, output_fill T n filling t d = ROk e /\ expr_typed T g e t = true.
Proof. intros re T g dok Hd n. exact (tfrag_typed re T g dok Hd n). Qed.

(* ex C06_default_typed_tuple1_variant_refuted (finding C06-F13, fixed by 15ce314): the former witness is now
   rendered `E::V((3_i64,))`, typed at `V((i64,))`, and denotes the schema default *)
Theorem C06_tuple1_variant_example :
  exists e, output_value Tw 3 12 (JObj [(u "V", JArr [JInt 3])]) = ROk e /\ expr_typed Tw 3 e 12 = true /\
            eval_expr Tw e = Some (JObj [(u "V", JArr [JInt 3])]).
Proof. exact tuple1_variant_example. Qed.

(* (4) C06_default_exact: the rendered expression denotes a value whose serialisation equals the schema default up to
   filling of nested defaults ([approx]: every member of d is in r with an approx-equal value or was skipped because
   empty; r may have additional members -- the nested defaults that were filled in).
   No Known_F12 exclusion (fixed by a08c818): an absent member with its own default renders that default.
   [xfrag]: bool, known integers, floats, string, unit under Option, Box, Vec, Set, fixed arrays, tuples, newtypes and
   STRUCTS with direct members (renames, Optional members with skip_serializing_if, members with own defaults, nested
   structs), distinct field and wire names.  Hypotheses: struct names identify their entry ([named_ok], C16), the
   default is a JSON value with unique object keys ([wf_json], what serde_json produces), member defaults were
   validated ([defaults_validated_wf], check_defaults).
   RESIDUE (not proved, per-run model-vs-serde agreement only): flattened members, maps, the enum taggings, natives,
   JsonValue, recursive types (xfrag bounds the type depth).  Exactness needs NO re-entry side condition: a member
   default met while already in progress (fix fd85c79) is rendered `Default::default()`, which [eval_expr] leaves out and
   [approx] does not constrain (the member is absent from d); [xfrag_exact_fill] is the statement for any FILLING stack. *)
Theorem C06_default_exact_partial : forall re T dok, named_ok T -> defaults_validated_wf re T dok ->
  forall n f t d k,
  validate_value re T f t d = ROk k -> wf_json d = true -> xfrag T dok n t = true ->
  exists e, output_value T n t d = ROk e /\ exists r, eval_expr T e = Some r /\ approx d r = true.
Proof. exact xfrag_exact. Qed.

(* the struct-free part needs none of the hypotheses *)
Theorem C06_default_exact_structural : forall re T n f t d k,
  validate_value re T f t d = ROk k -> efrag T n t = true ->
  exists e, output_value T n t d = ROk e /\ exists r, eval_expr T e = Some r /\ approx d r = true.
Proof. exact efrag_exact. Qed.

(* ex C06_nested_default_fill_refuted (finding C06-F12, fixed by a08c818): Pt{x, y default 7} x {"x":1} now renders
   `Pt { x: 1_i64, y: 7_i64 }`: typed, no member with its own default is left to `Default::default()`, and the value
   denoted, {"x":1,"y":7}, is the schema default up to the filled nested default *)
Theorem C06_nested_default_fill_example :
  exists e, output_value Tf12 3 2 (JObj [(u "x", JInt 1)]) = ROk e /\
            e = EStruct (u "Pt") [(FId (u "x"), ENum (JInt 1) (u "i64")); (FId (u "y"), ENum (JInt 7) (u "i64"))] /\
            expr_typed Tf12 3 e 2 = true /\ expr_any (is_f12 Tf12) e = false /\
            eval_expr Tf12 e = Some (JObj [(u "x", JInt 1); (u "y", JInt 7)]) /\
            approx (JObj [(u "x", JInt 1)]) (JObj [(u "x", JInt 1); (u "y", JInt 7)]) = true.
Proof. exact nested_default_fill_example. Qed.

(* (5) check_defaults (what finalisation runs for every entry) validates the type-level default AND every member
   default -- of struct members and of the members of struct variants, whether or not the type also has a type-level
   default -- and registers the shared generic default function of every Generic verdict.  (A seeded change folded the
   two `match`es of check_defaults into one, so that a type-level default SHADOWED the member defaults.) *)
Theorem C06_check_defaults_covers_members : forall re T f self,
  check_defaults re T f self = ROk tt ->
  (forall name v ps deny, get_det T self = Some (DStruct name (Some v) ps deny) -> exists k, validate_value re T f self v = ROk k) /\
  (forall name v tag vs deny bes, get_det T self = Some (DEnum name (Some v) tag vs deny bes) -> exists k, validate_value re T f self v = ROk k) /\
  (forall name v inner c, get_det T self = Some (DNewtype name (Some v) inner c) -> exists k, validate_value re T f self v = ROk k) /\
  (forall name def ps deny p v, get_det T self = Some (DStruct name def ps deny) -> In p ps -> p_state p = PDefault v ->
     exists k, validate_value re T f (p_ty p) v = ROk k /\
               (forall g, k = KGeneric g -> In g (registered_generics re T f self))) /\
  (forall name def tag vs deny bes var ps p v, get_det T self = Some (DEnum name def tag vs deny bes) ->
     In var vs -> v_det var = VStruct ps -> In p ps -> p_state p = PDefault v ->
     exists k, validate_value re T f (p_ty p) v = ROk k /\
               (forall g, k = KGeneric g -> In g (registered_generics re T f self))).
Proof. exact check_defaults_covers_members. Qed.

Example C06_check_defaults_example :
  check_defaults re0 (Tcd (JStr (u "three"))) 3 2 = RErr /\
  check_defaults re0 (Tcd (JInt 3)) 3 2 = ROk tt /\ registered_generics re0 (Tcd (JInt 3)) 3 2 = [GU64].
Proof. exact check_defaults_example. Qed.

(* (6) what value_for_struct_props hands to the FLATTENED members of a struct-valued default ([o_struct_props] renders
   them from [JObj (flatten_remainder props m)], Value.v) is exactly the entries whose key is not the SERIALIZED (wire)
   name of a direct member -- the rename when there is one (`content-type`, `type`), never the Rust field identifier
   (`content_type`, `type_`): a key consumed by a direct member is never in the flattened remainder, and every other
   key is.  (A seeded change computed the remainder from `prop.name`.) *)
Theorem C06_flatten_remainder_excludes_wire_names : forall ps m k x,
  In (k, x) (flatten_remainder ps m) <-> In (k, x) m /\ forall p, In p ps -> wire_name p <> Some k.
Proof. exact flatten_remainder_spec. Qed.

Example C06_flatten_remainder_example :
  flatten_remainder [mkProp (u "content_type") (RRename (u "content-type")) POptional 2; mkProp (u "extra") RFlatten PRequired 3]
    [(u "content-type", JStr (u "text/plain")); (u "x-extra", JStr (u "1"))] = [(u "x-extra", JStr (u "1"))] /\
  output_value Thd 4 4 (JObj [(u "content-type", JStr (u "text/plain")); (u "x-extra", JStr (u "1"))]) =
    ROk (EStruct (u "Headers") [(FId (u "content_type"), ESome (EStr (u "text/plain")));
                                (FId (u "extra"), EMap [(EStr (u "x-extra"), EStr (u "1"))])]).
Proof. exact flatten_remainder_example. Qed.

(* (7) has_default (structs.rs): a member whose schema default is not EXACTLY the intrinsic default of its Rust type
   (null / [] / {} / false / the number zero / "" for Option, Unit, Vec, Map, bool, integers, String) keeps its default
   (state Default(v): own default function, validated by check_defaults); floats are never intrinsic.  (A seeded change
   replaced the exact zero test by `v.abs() < f64::EPSILON` and extended it to floats.) *)
Theorem C06_has_default_exact : forall d v,
  has_default (Some d) (Some v) = if intrinsic_default d v then POptional else PDefault v.
Proof. exact has_default_spec. Qed.

Theorem C06_has_default_float_kept : forall n v, has_default (Some (DFloat n)) (Some v) = PDefault v.
Proof. exact has_default_float. Qed.

Theorem C06_has_default_tiny_integer_kept : forall n q, Z.eqb (Qnum q) 0 = false ->
  has_default (Some (DInteger n)) (Some (JFlt q)) = PDefault (JFlt q).
Proof. exact has_default_integer_nonzero. Qed.

(* (8) every key of a non-empty map default is validated against the key entry -- whatever its kind: String, a
   constrained-string newtype, a string ENUM, a native -- and every value against the value entry.  (A seeded change
   validated keys only when the key type is a newtype, so keys constrained by an enumeration were no longer checked.) *)
Theorem C06_map_keys_validated : forall re T f t kt vt m k,
  get_det T t = Some (DMap kt vt) -> m <> [] ->
  validate_value re T (S f) t (JObj m) = ROk k ->
  forall key x, In (key, x) m ->
    (exists k1, validate_value re T f kt (JStr key) = ROk k1) /\ (exists k2, validate_value re T f vt x = ROk k2).
Proof. exact map_keys_validated. Qed.

Example C06_map_keys_example :
  validate_value re0 Tmk 3 3 (JObj [(u "cpu", JInt 1)]) = ROk KSpecific /\
  validate_value re0 Tmk 3 3 (JObj [(u "disk", JInt 1)]) = RErr /\
  validate_value re0 Tmk 3 3 (JObj [(u "cpu", JInt 1); (u "disk", JInt 2)]) = RErr /\
  validate_value re0 Tmk 3 3 (JObj []) = ROk KIntrinsic.
Proof. exact map_keys_example. Qed.

(* the former refutation witnesses, now regression examples of the repaired behaviour:
   String x 5, Vec<u8> x [300], S3(maxLength 3) x "toolong", IEnum[1,2] x 7, NonZeroU32 x 0 are
   rejected; (i64,) x [3] and W{k, #[flatten] extra} x {"k":1} render to typed expressions *)
Theorem C06_regression_examples :
  validate_value re0 Tw 3 1 (JInt 5) = RErr /\
  validate_value re0 Tw 3 6 (JArr [JInt 300]) = RErr /\
  validate_value re0 Tw 3 7 (JStr (u "toolong")) = RErr /\
  validate_value re0 Tw 3 11 (JInt 7) = RErr /\
  validate_value re0 Tw 3 8 (JInt 0) = RErr /\
  (exists e, output_value Tw 3 3 (JArr [JInt 3]) = ROk e /\ expr_typed Tw 3 e 3 = true) /\
  (exists e, output_value Tw 4 10 (JObj [(u "k", JInt 1)]) = ROk e /\ expr_typed Tw 4 e 10 = true).
Proof. exact regression_examples. Qed.

(* non-vacuity *)
Example C06_nonvacuous_validate : validate_value re0 Tw 3 6 (JArr [JInt 1; JInt 2]) = ROk KSpecific.
Proof. vm_compute. reflexivity. Qed.

(* a concrete [dok]: the member default validates with fuel 5 *)
Definition dok0 (t : id) (v : json) : bool :=
  match validate_value re0 Tf12 5 t v with ROk _ => true | _ => false end.
Example C06_nonvacuous_dok : defaults_validated re0 Tf12 dok0.
Proof. intros t dv H. unfold dok0 in H. destruct (validate_value re0 Tf12 5 t dv) eqn:E; try discriminate H. eauto. Qed.

Example C06_nonvacuous_exact :
  named_ok Tf12 /\ xfrag Tf12 dok0 3 2 = true /\ wf_json (JObj [(u "x", JInt 1)]) = true /\
  validate_value re0 Tf12 3 2 (JObj [(u "x", JInt 1)]) = ROk KSpecific /\ wf_json (JInt 7) = true.
Proof. split; [exact named_ok_Tf12|]. repeat split; vm_compute; reflexivity. Qed.

Example C06_nonvacuous_frag :
  tfrag Tw 3 dok0 [] 3 3 = true /\ tfrag Tw 3 dok0 [] 3 6 = true /\ tfrag Tw 3 dok0 [] 3 7 = true /\ tfrag Tw 3 dok0 [] 3 10 = true /\
  tfrag Tw 3 dok0 [] 3 12 = true /\ tfrag Tw 3 dok0 [] 3 9 = true /\ tfrag Tf12 3 dok0 [] 3 2 = true /\ efrag Tw 3 3 = true /\ efrag Tw 3 6 = true /\
  validate_value re0 Tw 3 3 (JArr [JInt 3]) = ROk KSpecific.
Proof. repeat split; vm_compute; reflexivity. Qed.

Example C06_nonvacuous_newtype :
  validate_value re0 Tw 3 7 (JStr (u "abc")) = ROk KSpecific /\
  constraint_ok re0 (CString (Some 3) None None) (JStr (u "toolong")) = false.
Proof. split; vm_compute; reflexivity. Qed.

Example C06_nonvacuous_shape : shape_mismatch (DTuple [2; 2]) (JArr [JInt 1]) = true.
Proof. reflexivity. Qed.
