(* C15 — macro, cargo subcommand and builder generate the same types.
   Property theorems only; each closed by `exact <lemma>`.  `bin/check C15`
   re-runs Print Assumptions on every one (expected: closed under the global
   context).  Section variables of the model appear here as universally
   quantified arguments:
     parse_version : semver::Version::parse (no hypothesis)
     letter        : the Unicode class tested by the front-end's is_crate
                     (cargo-typify: char::is_alphabetic at the pinned commit,
                     typify-macro: char::is_alphanumeric)
     vec_order     : order in which a HashSet<TypeSpaceImpl> is drained
     convert       : cargo_typify::convert                                  *)
From Coq Require Import List NArith Bool Permutation.
From Typify Require Import Algo.Frontends Proofs.FrontendsProofs.
Import ListNotations.
Open Scope N_scope.

(* ---- crate specifiers ---------------------------------------------- *)

(* Every valid crate name / rename ([A-Za-z0-9_-]+) and every version the
   version parser (or `*`, `!`) accepts is parsed into exactly those components —
   for every is_crate whose class accepts the ASCII alphanumerics.  The check
   measures this hypothesis on the real CrateSpec::from_str (all 128 ASCII code
   points); at the pinned commit it FAILS for the digits (finding C15-1), see
   the _refuted theorem, and holds once is_crate tests is_alphanumeric.       *)
Theorem C15_cli_accepts_valid_spec :
  forall (V : Type) (parse_version : ustring -> option V) (letter : N -> bool),
    (forall c, ascii_alpha c || ascii_digit c = true -> letter c = true) ->
    forall name rename ver cv,
      valid_name name = true -> valid_name rename = true -> vers_parse V parse_version ver = Some cv ->
      (~ In c_eq ver ->
       cli_parse_spec V parse_version letter (name ++ c_at :: ver)
       = Some {| cs_name := name; cs_version := cv; cs_rename := None |}) /\
      cli_parse_spec V parse_version letter (rename ++ c_eq :: name ++ c_at :: ver)
      = Some {| cs_name := name; cs_version := cv; cs_rename := Some rename |}.
Proof. exact cli_accepts_valid_spec. Qed.

(* With a class that rejects the digit '1' (char::is_alphabetic does) the statement is false:
   `a1@*` and `a1=a@*` are rejected. *)
Theorem C15_cli_accepts_valid_spec_refuted :
  forall (V : Type) (parse_version : ustring -> option V) (letter : N -> bool),
    letter 49 = false ->
    exists name ver cv,
      valid_name name = true /\ vers_parse V parse_version ver = Some cv /\ ~ In c_eq ver /\
      cli_parse_spec V parse_version letter (name ++ c_at :: ver) = None /\
      cli_parse_spec V parse_version letter (name ++ c_eq :: [97] ++ c_at :: ver) = None.
Proof. exact cli_accepts_valid_spec_refuted. Qed.

(* What does hold for the faithful CLI predicate: names without digits. *)
Theorem C15_cli_accepts_valid_spec_nodigit :
  forall (V : Type) (parse_version : ustring -> option V) (letter : N -> bool),
    (forall c, ascii_alpha c = true -> letter c = true) ->
    forall name rename ver cv,
      valid_name_nodigit name = true -> valid_name_nodigit rename = true ->
      vers_parse V parse_version ver = Some cv ->
      (~ In c_eq ver ->
       cli_parse_spec V parse_version letter (name ++ c_at :: ver)
       = Some {| cs_name := name; cs_version := cv; cs_rename := None |}) /\
      cli_parse_spec V parse_version letter (rename ++ c_eq :: name ++ c_at :: ver)
      = Some {| cs_name := name; cs_version := cv; cs_rename := Some rename |}.
Proof. exact cli_accepts_valid_spec_nodigit. Qed.

(* Malformed specifiers are rejected: no '@'; a character is_crate rejects in the
   name or rename part; a version CrateVers::parse rejects. *)
Theorem C15_cli_rejects_malformed :
  forall (V : Type) (parse_version : ustring -> option V) (letter : N -> bool) (s : ustring),
    let parse := cli_parse_spec V parse_version letter in
    (~ In c_at s -> parse s = None) /\
    (forall a b, s = a ++ c_at :: b -> ~ In c_eq a -> ~ In c_at a -> is_crate letter a = false -> parse s = None) /\
    (forall r rest, s = r ++ c_eq :: rest -> ~ In c_eq r -> is_crate letter r = false -> parse s = None) /\
    (forall a b, s = a ++ c_at :: b -> ~ In c_at a -> ~ In c_eq s -> vers_parse V parse_version b = None ->
                 parse s = None) /\
    (forall r a b, s = r ++ c_eq :: a ++ c_at :: b -> ~ In c_eq r -> ~ In c_at a ->
                   vers_parse V parse_version b = None -> parse s = None).
Proof. exact cli_rejects_malformed. Qed.

(* ... and whatever is accepted has exactly the documented shape [rename=]name@version *)
Theorem C15_cli_accepted_shape :
  forall (V : Type) (parse_version : ustring -> option V) (letter : N -> bool) s c,
    cli_parse_spec V parse_version letter s = Some c ->
    is_crate letter (cs_name c) = true /\
    (forall r, cs_rename c = Some r -> is_crate letter r = true) /\
    exists vs, vers_parse V parse_version vs = Some (cs_version c) /\
               s = render_spec (cs_name c) vs (cs_rename c) /\
               ~ In c_at (cs_name c) /\
               (forall r, cs_rename c = Some r -> ~ In c_eq r) /\
               (cs_rename c = None -> ~ In c_eq s).
Proof. exact cli_parse_spec_inv. Qed.

(* the macro's `"key" = "[original@]version"` syntax *)
Theorem C15_macro_accepts_valid_spec :
  forall (V : Type) (parse_version : ustring -> option V) (letter : N -> bool),
    (forall c, ascii_alpha c || ascii_digit c = true -> letter c = true) ->
    forall name ver cv,
      valid_name name = true -> vers_parse V parse_version ver = Some cv ->
      macro_parse_name letter name = Some name /\
      macro_parse_spec V parse_version letter (name ++ c_at :: ver) = Some (Some name, cv) /\
      (~ In c_at ver -> macro_parse_spec V parse_version letter ver = Some (None, cv)).
Proof. exact macro_accepts_valid_spec. Qed.

(* ---- output path ----------------------------------------------------- *)

Theorem C15_output_path_spec :
  forall input,
    output_path input (Some s_minus) = None /\                                   (* `-o -`: stdout *)
    (forall p, p <> s_minus -> output_path input (Some p) = Some p) /\           (* `-o p` *)
    output_path input None = Some (snd (set_extension_rs input)).               (* default *)
Proof. exact output_path_spec. Qed.

(* the default: the input path with its extension replaced by (or, without one, extended with) ".rs" *)
Theorem C15_set_extension_spec :
  forall d stem ext,
    stem <> [] -> stem <> [c_dot] -> ~ In c_slash stem -> ~ In c_slash ext -> ~ In c_dot ext ->
    set_extension_rs (d ++ c_slash :: stem ++ c_dot :: ext) = (true, d ++ c_slash :: stem ++ c_dot :: s_rs) /\
    set_extension_rs (stem ++ c_dot :: ext) = (true, stem ++ c_dot :: s_rs) /\
    (~ In c_dot stem ->
     set_extension_rs (d ++ c_slash :: stem) = (true, d ++ c_slash :: stem ++ c_dot :: s_rs) /\
     set_extension_rs stem = (true, stem ++ c_dot :: s_rs)).
Proof. exact set_extension_spec. Qed.

(* ---- the three option mappings -------------------------------------- *)

(* CLI: for every option record expressible on the command line the settings are
   EQUAL to the builder's (the record states struct_builder explicitly; the CLI
   encodes `false` as --no-builder). *)
Theorem C15_frontends_agree_cli :
  forall (V S : Type) input output (o : opts V S),
    cli_expressible V S o ->
    cli_settings V S (cli_of_opts V S input output o) = builder_settings V S o.
Proof. exact frontends_agree_cli. Qed.

(* ... including the parsing of the `--crate` strings the user types, for any
   class `nc` of name characters the is_crate under test accepts *)
Theorem C15_frontends_agree_cli_raw :
  forall (V : Type) (parse_version : ustring -> option V) (letter nc : N -> bool),
    (forall c, nc c = true -> crate_char letter c = true) ->
    (forall c, nc c = true -> c <> c_eq /\ c <> c_at) ->
    forall typed crates,
      Forall2 (typed_ok V parse_version nc) typed crates ->
      cli_parse_specs V parse_version letter (map (fun '(n, vs, r) => render_spec n vs r) typed)
      = Some (map (fun '(n, v, r) => {| cs_name := n; cs_version := v; cs_rename := r |}) crates).
Proof. exact cli_raw_specs. Qed.

(* macro: under ANY iteration order of its three HashMaps (crates, patch, replace)
   and any drain order of the impl HashSets, PROVIDED the keys of `crates` are
   pairwise distinct and the ORIGINAL crate names are pairwise distinct. *)
Theorem C15_frontends_agree_macro :
  forall (V S : Type) (vec_order : list timpl -> list timpl),
    (forall l, Permutation (vec_order l) l) ->
    forall (o : opts V S) crates_it patch_it replace_it,
      Permutation crates_it (hm_of_list (macro_crates_src V S o)) ->
      Permutation patch_it (hm_of_list (o_patches V S o)) ->
      Permutation replace_it (hm_of_list (macro_replace_src V S o)) ->
      NoDup (map fst (macro_crates_src V S o)) ->
      NoDup (map (fun c : crate_opt V => fst (fst c)) (o_crates V S o)) ->
      settings_equiv V S (macro_settings_of V S vec_order (macro_input_of V S o crates_it patch_it replace_it))
                         (builder_settings V S o).
Proof. exact frontends_agree_macro. Qed.

(* The map type reaches TypeSpaceSettings.map_type VERBATIM in all three front-ends: the
   string the user wrote (`indexmap::IndexMap`, `crate::maps::M`, `super::M`, a bare
   imported name, with or without a leading `::`) is the string MapType::new parses;
   nothing is trimmed or prefixed.  Absent = "::std::collections::HashMap". *)
Theorem C15_map_type_verbatim :
  forall (V S : Type) (vec_order : list timpl -> list timpl) (o : opts V S) input output crates_it patch_it replace_it,
    let m := match o_map_type V S o with Some m => m | None => default_map_type end in
    s_map_type V S (builder_settings V S o) = m /\
    s_map_type V S (cli_settings V S (cli_of_opts V S input output o)) = m /\
    s_map_type V S (macro_settings_of V S vec_order (macro_input_of V S o crates_it patch_it replace_it)) = m.
Proof. exact map_type_verbatim. Qed.

(* ... on the model of convert() for ANY parsed command line *)
Theorem C15_cli_map_type_verbatim :
  forall (V S : Type) (a : cli_args V),
    s_map_type V S (cli_settings V S a)
    = match ca_map_type V a with Some m => m | None => default_map_type end.
Proof. exact cli_map_type_verbatim. Qed.

(* The macro's crates table reaches TypeSpaceSettings.crates entry for entry: every
   entry of the table -- whatever its version, `!` (Never) included -- is one
   with_crate call; the table is neither filtered nor extended.  (A crate listed as
   Never always has its types generated; an unlisted crate is left to the
   unknown_crates policy: dropping a `!` entry is observable under Allow.) *)
Theorem C15_macro_crates_complete :
  forall (V S : Type) (vec_order : list timpl -> list timpl) (mi : macro_input V S),
    let table := s_crates V S (macro_settings_of V S vec_order mi) in
    table = rev (map (macro_crate_binding V) (mi_crates V S mi)) /\
    length table = length (mi_crates V S mi) /\
    (forall e, In e (mi_crates V S mi) -> In (macro_crate_binding V e) table) /\
    (forall b, In b table -> exists e, In e (mi_crates V S mi) /\ b = macro_crate_binding V e) /\
    (NoDup (map (fun e => fst (macro_crate_binding V e)) (mi_crates V S mi)) ->
     forall e, In e (mi_crates V S mi) ->
               lookup (fst (macro_crate_binding V e)) table = Some (snd (macro_crate_binding V e))).
Proof. exact macro_crates_complete. Qed.

Theorem C15_macro_never_recorded :
  forall (V S : Type) (vec_order : list timpl -> list timpl) (mi : macro_input V S) name,
    NoDup (map (fun e => fst (macro_crate_binding V e)) (mi_crates V S mi)) ->
    In (name, (None, Never)) (mi_crates V S mi) ->
    lookup name (s_crates V S (macro_settings_of V S vec_order mi))
    = Some {| ce_version := Never; ce_rename := None |}.
Proof. exact macro_never_recorded. Qed.

(* without "distinct original names": `"a" = "x@*", "b" = "x@!"` — one iteration
   order agrees with the builder, the other does not (finding C15-3) *)
Theorem C15_frontends_agree_macro_order_dependent_refuted :
  forall (V S : Type) (vec_order : list timpl -> list timpl),
  exists (o : opts V S) it1 it2,
    Permutation it1 (hm_of_list (macro_crates_src V S o)) /\
    Permutation it2 (hm_of_list (macro_crates_src V S o)) /\
    NoDup (map fst (macro_crates_src V S o)) /\
    settings_equiv V S (macro_settings_of V S vec_order (macro_input_of V S o it1 [] [])) (builder_settings V S o) /\
    ~ settings_equiv V S (macro_settings_of V S vec_order (macro_input_of V S o it2 [] [])) (builder_settings V S o).
Proof. exact frontends_agree_macro_order_dependent_refuted. Qed.

(* the documented difference of defaults: no flag = builder ON in the CLI, OFF in the library/macro *)
Theorem C15_cli_default_builder_on :
  forall (V S : Type) (a : cli_args V),
    (ca_no_builder V a = false -> s_struct_builder V S (cli_settings V S a) = true) /\
    (ca_no_builder V a = true -> s_struct_builder V S (cli_settings V S a) = false) /\
    s_struct_builder V S (default_settings V S) = false.
Proof. exact cli_default_builder_on. Qed.

(* ---- main ------------------------------------------------------------ *)

Theorem C15_no_write_on_failure :
  forall (V : Type) (convert : cli_args V -> option ustring) parsed,
    (parsed = None \/ exists a, parsed = Some a /\ convert a = None) ->
    main V convert parsed = (ExitErr, []).
Proof. exact no_write_on_failure. Qed.

Theorem C15_write_once_on_success :
  forall (V : Type) (convert : cli_args V -> option ustring) a contents,
    convert a = Some contents ->
    main V convert (Some a) =
    (ExitOk, [match output_path (ca_input V a) (ca_output V a) with
              | Some p => WriteFile p contents
              | None => PrintStdout contents
              end]).
Proof. exact write_once_on_success. Qed.

Theorem C15_effects_imply_success :
  forall (V : Type) (convert : cli_args V -> option ustring) parsed,
    snd (main V convert parsed) <> [] -> exists a contents, parsed = Some a /\ convert a = Some contents.
Proof. exact effects_imply_success. Qed.

(* ---- TypeAndImpls ----------------------------------------------------- *)

(* the last mention of a trait decides, unmentioned traits keep the default {FromStr, Display} *)
Theorem C15_type_and_impls_spec :
  forall specs i, In i (impls_of_specs specs) <-> wanted i specs = true.
Proof. exact type_and_impls_spec. Qed.

(* if no trait is both listed and `?`-removed: (defaults ∪ listed) minus removed *)
Theorem C15_type_and_impls_plain :
  forall specs i,
    listed i specs && removed i specs = false ->
    (In i (impls_of_specs specs) <-> (In i default_impls \/ listed i specs = true) /\ removed i specs = false).
Proof. exact type_and_impls_plain. Qed.

Theorem C15_type_and_impls_order_insensitive :
  forall (vec_order : list timpl -> list timpl),
    (forall l, Permutation (vec_order l) l) ->
    forall specs i, In i (vec_order (impls_of_specs specs)) <-> wanted i specs = true.
Proof. exact type_and_impls_order_insensitive. Qed.

(* every builder impl list is expressible in the macro's `T: ?FromStr + ?Display + Default` syntax *)
Theorem C15_encode_impls_roundtrip :
  forall impls i, In i (impls_of_specs (encode_impls impls)) <-> In i impls.
Proof. exact encode_impls_roundtrip. Qed.

(* ---- non-vacuity ------------------------------------------------------ *)

(* a class accepting the ASCII alphanumerics exists (name_char itself); valid names exist *)
Example C15_ex_letter : forall c, ascii_alpha c || ascii_digit c = true -> (fun c => ascii_alpha c || ascii_digit c) c = true.
Proof. intros c H. exact H. Qed.
Example C15_ex_valid_names : valid_name [98;97;115;101;54;52] = true /\ valid_name_nodigit [97;45;98;95] = true.
Proof. split; reflexivity. Qed.
(* base64@* with rename r2, under the repaired predicate *)
Example C15_ex_accept :
  cli_parse_spec ustring (fun _ => None) (fun c => ascii_alpha c || ascii_digit c)
                 ([114;50] ++ c_eq :: [98;97;115;101;54;52] ++ c_at :: [c_star])
  = Some {| cs_name := [98;97;115;101;54;52]; cs_version := Any; cs_rename := Some [114;50] |}.
Proof. reflexivity. Qed.
(* the macro hypotheses are satisfiable with a renamed and a plain crate *)
Example C15_ex_macro_hyps :
  let o : opts unit unit :=
    {| o_derives := [[69;113]]; o_struct_builder := true; o_map_type := None;
       o_crates := [([120], Any, Some [97]); ([121], Never, None)];
       o_unknown := Some Allow; o_patches := []; o_replaces := []; o_converts := [] |} in
  NoDup (map fst (macro_crates_src unit unit o)) /\
  NoDup (map (fun c : crate_opt unit => fst (fst c)) (o_crates unit unit o)).
Proof. cbn. split; repeat constructor; cbn; intuition discriminate. Qed.
Example C15_ex_paths :
  set_extension_rs [97;47;98;46;106;115;111;110] = (true, [97;47;98;46;114;115]) /\     (* a/b.json -> a/b.rs *)
  set_extension_rs [115;99;104] = (true, [115;99;104;46;114;115]) /\                    (* sch -> sch.rs *)
  set_extension_rs [97;46;98;46;99] = (true, [97;46;98;46;114;115]) /\                  (* a.b.c -> a.b.rs *)
  set_extension_rs [46;104] = (true, [46;104;46;114;115]).                              (* .h -> .h.rs *)
Proof. repeat split. Qed.
