(* C13 — x-rust-type substitution follows the documented crate/version policy.
   Property theorems only; each is closed by `exact <lemma>`.
   Models: Algo/RustExt.v (convert_rust_extension, name_match, Native arm of
   convert_ref_type), Algo/Semver.v (semver 1.0.26 eval.rs + the interval
   specification sat_cargo of Cargo's documented requirement semantics). *)
From Coq Require Import NArith List Bool.
From Typify Require Import Algo.Semver Algo.RustExt Proofs.SemverProofs Proofs.RustExtProofs.
Import ListNotations.
Open Scope N_scope.

Section C13.
Context {T : Type}.     (* converted parameters (type ids) *)
(* `syn::parse_str::<syn::TypePath>(&path).is_ok()`: the parser is not modelled;
   every theorem holds for an arbitrary predicate, and the check feeds the
   model the real parser's verdict on every tested path. *)
Context (tp : ustring -> bool).
Implicit Types (e : extension T) (x : ext_parse T) (cs : crates) (pol : unknown_policy).

(* First sentence of the property: the schema is replaced by the external type
   EXACTLY when the extension is well formed (record, requirement, path starts
   with the crate's identifier and is a type path), its parameters convert, and the crate is
   configured with a version matching the requirement, or with `*`, or is
   unconfigured under Allow. *)
Theorem C13_decide_spec : forall cs pol x,
  (exists p ps, decide tp cs pol x = Use p ps) <->
  (exists e rq, x = ExtOk e (Some rq)
     /\ starts_with (dash_to_us (x_crate e)) (x_path e)
     /\ tp (x_path e) = true
     /\ (forall q, In q (x_params e) -> q <> None)
     /\ ((exists v rn, lookup cs (x_crate e) = Some (CS (CVVersion v) rn) /\ matches_req rq v = true)
         \/ (exists rn, lookup cs (x_crate e) = Some (CS CVAny rn))
         \/ (lookup cs (x_crate e) = None /\ pol = PAllow))).
Proof. exact (decide_spec tp). Qed.

(* "generated when the crate is marked `!`" *)
Theorem C13_never_generates : forall cs pol e r rn,
  lookup cs (x_crate e) = Some (CS CVNever rn) -> decide tp cs pol (ExtOk e r) = Generate.
Proof. exact (never_generates tp). Qed.

(* "... the configured version does not satisfy the requirement" *)
Theorem C13_mismatch_generates : forall cs pol e rq v rn,
  lookup cs (x_crate e) = Some (CS (CVVersion v) rn) -> matches_req rq v = false ->
  decide tp cs pol (ExtOk e (Some rq)) = Generate.
Proof. exact (mismatch_generates tp). Qed.

(* "... the crate is unconfigured under Generate or Deny" *)
Theorem C13_unconfigured_generate_or_deny_generates : forall cs pol e r,
  lookup cs (x_crate e) = None -> pol <> PAllow -> decide tp cs pol (ExtOk e r) = Generate.
Proof. exact (unconfigured_generate_or_deny_generates tp). Qed.

(* "... or the extension is malformed (bad requirement, path not starting with
   the crate's identifier)"; also: absent, path that is not a type path, and an
   unconvertible parameter *)
Theorem C13_malformed_generates : forall cs pol,
  decide tp cs pol (@ExtAbsent T) = Generate
  /\ decide tp cs pol (@ExtMalformed T) = Generate
  /\ (forall e, decide tp cs pol (ExtOk e None) = Generate)
  /\ (forall e r, ~ starts_with (dash_to_us (x_crate e)) (x_path e) ->
        decide tp cs pol (ExtOk e r) = Generate)
  /\ (forall e r, tp (x_path e) = false -> decide tp cs pol (ExtOk e r) = Generate)
  /\ (forall e r, In None (x_params e) -> decide tp cs pol (ExtOk e r) = Generate).
Proof. exact (malformed_generates tp). Qed.

(* Second sentence: the substituted path is "::" ++ path with the first segment
   (what precedes the first "::", equal to the crate identifier) replaced by the
   configured rename ('-' -> '_'), parameters applied in order. *)
Theorem C13_decide_path : forall cs pol x p ps,
  decide tp cs pol x = Use p ps ->
  exists e rq rest,
    x = ExtOk e (Some rq)
    /\ x_path e = dash_to_us (x_crate e) ++ sep ++ rest
    /\ (forall a b, x_path e = a ++ sep ++ b -> (length (dash_to_us (x_crate e)) <= length a)%nat)
    /\ p = sep ++ head_segment cs (x_crate e) ++ sep ++ rest
    /\ map Some ps = x_params e.
Proof. exact (decide_path tp). Qed.

(* "a configured rename replaces the path's FIRST segment": everything from the
   first "::" on is the original text, so every later segment is unchanged
   (also when the crate's identifier occurs again in the path) *)
Theorem C13_rename_preserves_tail : forall cs pol x p ps,
  decide tp cs pol x = Use p ps ->
  exists e rq,
    x = ExtOk e (Some rq)
    /\ p = sep ++ head_segment cs (x_crate e)
              ++ skipn (length (dash_to_us (x_crate e))) (x_path e)
    /\ (no_colon (dash_to_us (x_crate e)) -> no_colon (head_segment cs (x_crate e)) ->
        exists tail,
          split_sep (x_path e) = dash_to_us (x_crate e) :: tail
          /\ split_sep (skipn 2 p) = head_segment cs (x_crate e) :: tail).
Proof. exact (rename_preserves_tail tp). Qed.

(* "declared type parameters are converted and applied in order": per
   occurrence - the substituted type carries exactly this occurrence's
   converted parameters, and neither the decision nor the path depends on them
   (two occurrences sharing crate, path and requirement but not parameters get
   the same path, each with its own parameters) *)
Theorem C13_parameters_applied_in_order : forall cs pol e rq p ps,
  decide tp cs pol (ExtOk e (Some rq)) = Use p ps ->
  x_params e = map Some ps
  /\ forall ps' : list T, decide tp cs pol (ExtOk (X (x_crate e) (x_path e) (map Some ps')) (Some rq)) = Use p ps'.
Proof. exact (parameters_applied_in_order tp). Qed.

(* "the schema's own structure is not generated": the structural conversion is
   reached exactly when the decision is Generate *)
Theorem C13_use_skips_structure : forall cs pol n x,
  (convert_ref_def tp cs pol n x = DefStructural <-> decide tp cs pol x = Generate)
  /\ (forall p ps, decide tp cs pol x = Use p ps ->
        convert_ref_def tp cs pol n x = DefNative p ps \/ convert_ref_def tp cs pol n x = DefNewtype p ps).
Proof. exact (use_skips_structure tp). Qed.

(* "directly, or through a transparent newtype named after the definition when
   the names differ": a newtype exactly when there are no parameters and the
   definition's name is not the path's last segment *)
Theorem C13_wrapper_iff_names_differ : forall cs pol n x p ps,
  decide tp cs pol x = Use p ps ->
  (convert_ref_def tp cs pol n x = DefNewtype p ps <-> ps = [] /\ n <> NRequired (last_segment p))
  /\ (convert_ref_def tp cs pol n x = DefNative p ps <-> ps <> [] \/ n = NRequired (last_segment p)).
Proof. exact (wrapper_iff_names_differ tp). Qed.

(* a configured version decides by Cargo's documented requirement semantics *)
Theorem C13_version_policy_is_cargo : forall cs pol e rq v rn,
  lookup cs (x_crate e) = Some (CS (CVVersion v) rn) ->
  forallb wf_comparator rq = true ->
  vpre v = [] \/ forallb is_full rq = true ->
  ((exists p ps, decide tp cs pol (ExtOk e (Some rq)) = Use p ps) <->
   starts_with (dash_to_us (x_crate e)) (x_path e)
   /\ tp (x_path e) = true
   /\ (forall q, In q (x_params e) -> q <> None)
   /\ sat_cargo rq v = true).
Proof. exact (version_policy_is_cargo tp). Qed.

(* Finding C13-F1, fixed by /repo 31fad76: before the fix this statement was
   refuted (`util::` was used and to_stream() panicked); it now holds. *)
Theorem C13_non_type_path_generates : forall cs pol e r,
  tp (x_path e) = false -> decide tp cs pol (ExtOk e r) = Generate.
Proof. exact (non_type_path_generates tp). Qed.

End C13.

Theorem C13_last_segment_spec : forall s,
  (forall a b, s = a ++ sep ++ b ->
     (forall a' b', s = a' ++ sep ++ b' -> (length b <= length b')%nat) -> last_segment s = b)
  /\ ((forall a b, s <> a ++ sep ++ b) -> last_segment s = s).
Proof. exact last_segment_spec. Qed.

(* semver's matcher (what typify calls) = Cargo's documented semantics
   (intervals + "a pre-release version only matches when some comparator with
   the same major.minor.patch carries a pre-release tag"), for every requirement
   the parser can produce and every release version, and for every version at
   all when the requirement is written with full versions. *)
Theorem C13_matches_is_cargo : forall (r : req) (v : version),
  forallb wf_comparator r = true ->
  vpre v = [] \/ forallb is_full r = true ->
  matches_req r v = sat_cargo r v.
Proof. exact matches_is_cargo. Qed.

(* Full strength (no side condition) is REFUTED by the model, and by the real
   semver crate on the same inputs (corpus/C13/semver_gap.json):
     forall r v, forallb wf_comparator r = true -> matches_req r v = sat_cargo r v.
   `>1.2, <1.3.0-b` matches 1.3.0-a although `>1.2` is documented as `>=1.3.0`;
   `>=1.2, <1.2.5-b` rejects 1.2.5-a although `>=1.2` is documented as `>=1.2.0`. *)
Theorem C13_matches_is_cargo_gap :
  (forallb wf_comparator gap_req_1 = true /\
   matches_req gap_req_1 gap_ver_1 = true /\ sat_cargo gap_req_1 gap_ver_1 = false) /\
  (forallb wf_comparator gap_req_2 = true /\
   matches_req gap_req_2 gap_ver_2 = false /\ sat_cargo gap_req_2 gap_ver_2 = true).
Proof. exact matches_is_cargo_gap. Qed.

Theorem C13_pre_compare_total_order :
  (forall a b, pre_compare a b = Eq <-> a = b) /\
  (forall a b, pre_compare b a = CompOpp (pre_compare a b)) /\
  (forall a b c, pre_compare a b = Lt -> pre_compare b c = Lt -> pre_compare a c = Lt) /\
  (forall a, a <> [] -> pre_compare a [] = Lt).
Proof. exact pre_compare_total_order. Qed.


(* The matcher is a conjunction: comparator order is irrelevant, a split
   requirement is the conjunction of its parts (plus ONE shared pre-release
   gate), more comparators never admit more for want of a match, and `*`
   admits exactly the releases.  All versions, all requirements. *)
From Coq Require Import Permutation.
Theorem C13_matches_order_irrelevant : forall r r' v,
  Permutation r r' -> matches_req r v = matches_req r' v.
Proof. exact matches_req_perm. Qed.

Theorem C13_matches_conjunction : forall r1 r2 v,
  matches_req (r1 ++ r2) v =
  forallb (fun c => matches_impl c v) r1 && forallb (fun c => matches_impl c v) r2
  && (pre_is_empty (vpre v) || existsb (fun c => pre_is_compatible c v) r1
      || existsb (fun c => pre_is_compatible c v) r2).
Proof. exact matches_req_app. Qed.

Theorem C13_matches_conjunction_release : forall r1 r2 v, vpre v = [] ->
  matches_req (r1 ++ r2) v = matches_req r1 v && matches_req r2 v.
Proof. exact matches_req_app_release. Qed.

Theorem C13_matches_star : forall v, matches_req [] v = pre_is_empty (vpre v).
Proof. exact matches_req_star. Qed.

(* ------------------------------------------------------------ non-vacuity *)
From Coq Require Import String.
Open Scope string_scope.
Definition ex_ext : extension ustring :=
  mk_ext "my-crate" "my_crate::m::Thing" [Some "i64"].
Definition ex_req : req := [C Caret 1 (Some 2) (Some 3) []].               (* "1.2.3" *)

Example ex_version_use :
  show_decision (decide (fun _ => true) (mk_crates [("my-crate", CVVersion (V 1 4 0 []), Some "re-named")]) PGenerate
                        (ExtOk ex_ext (Some ex_req)))
  = "use ::re_named::m::Thing<i64>".
Proof. vm_compute. reflexivity. Qed.

Example ex_version_mismatch :
  decide (fun _ => true) (mk_crates [("my-crate", CVVersion (V 2 0 0 []), None)]) PAllow (ExtOk ex_ext (Some ex_req)) = Generate.
Proof. vm_compute. reflexivity. Qed.

Example ex_allow_use :
  show_decision (decide (fun _ => true) [] PAllow (ExtOk ex_ext (Some ex_req))) = "use ::my_crate::m::Thing<i64>".
Proof. vm_compute. reflexivity. Qed.

Example ex_newtype :
  show_def (convert_ref_def (fun _ => true) (mk_crates [("my-crate", CVAny, None)]) PGenerate
              (NRequired (ustring_of_string "Alias"))
              (ExtOk (mk_ext "my-crate" "my_crate::m::Thing" []) (Some ex_req)))
  = "newtype ::my_crate::m::Thing".
Proof. vm_compute. reflexivity. Qed.

Example ex_rename_recurring_ident :
  show_decision (decide (fun _ => true) (mk_crates [("util", CVAny, Some "my-util")]) PGenerate
                        (ExtOk (mk_ext "util" "util::util_types::Wrap<util::Inner>" []) (Some ex_req)))
  = "use ::my_util::util_types::Wrap<util::Inner>".
Proof. vm_compute. reflexivity. Qed.

Example ex_split_sep :
  split_sep (ustring_of_string "util::util_types::Gizmo")
  = map ustring_of_string ["util"; "util_types"; "Gizmo"].
Proof. vm_compute. reflexivity. Qed.

(* two occurrences in one space sharing the path, with different parameters *)
Example ex_two_occurrences :
  let cs := mk_crates [("std", CVVersion (V 1 0 0 []), None)] in
  let occ ps := ExtOk (mk_ext "std" "std::collections::VecDeque" ps) (Some [C Caret 1 (Some 0) (Some 0) []]) in
  show_decision (decide (fun _ => true) cs PGenerate (occ [Some "::std::string::String"]))
    = "use ::std::collections::VecDeque<::std::string::String>"
  /\ show_decision (decide (fun _ => true) cs PGenerate (occ [Some "bool"]))
    = "use ::std::collections::VecDeque<bool>"
  /\ show_decision (decide (fun _ => true) cs PGenerate (occ [Some "bool"; Some "i64"]))
    = "use ::std::collections::VecDeque<bool,i64>".
Proof. vm_compute. repeat split. Qed.

Example ex_not_type_path :
  decide (fun _ => false) [] PAllow (ExtOk (mk_ext "util" "util::" []) (Some ex_req)) = Generate.
Proof. vm_compute. reflexivity. Qed.

Example ex_starts_with : starts_with (ustring_of_string "a") (ustring_of_string "a::b").
Proof. apply prefix_test. exists 1%nat. split; reflexivity. Qed.

Example ex_wf_full : forallb wf_comparator ex_req = true /\ forallb is_full ex_req = true.
Proof. split; reflexivity. Qed.
