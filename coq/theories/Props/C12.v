(* C12 — generated output is a deterministic function of settings and schema.
   Property theorems only.  Models: Algo/HashOrder.v; proofs: Proofs/HashOrderProofs.v;
   Gen/HashSites.v is regenerated from the Rust sources on every run (translator T3).

   A hasher is any [place : A -> list A -> list A] with
   [valid_place place := forall x s, Permutation (place x s) (x :: s)]:
   it puts a new element anywhere in the table's enumeration order and may
   reshuffle everything (growth).  "Order irrelevant" = the same result for
   every two valid hashers, i.e. for all enumeration orders. *)
From Coq Require Import List String Bool Arith Permutation Sorted.
From Typify Require Import Algo.HashOrder Gen.HashSites Proofs.HashOrderProofs.
Import ListNotations.

(* ---- the inventory ---- *)

(* every mention of a hash-ordered collection / env / clock / thread / random source in the
   non-test sources (as regenerated now) is one of the whitelisted (file, fn, kind, consumption)
   sites, each of which is assigned one of the classes proved order-irrelevant below *)
Theorem C12_hash_sites_covered : forallb covered hash_sites = true.
Proof. vm_compute. reflexivity. Qed.

(* ... and every whitelisted site still exists: the theorems below talk about code that is there *)
Theorem C12_known_sites_present : forallb (present hash_sites) known_sites = true.
Proof. vm_compute. reflexivity. Qed.

(* ---- one theorem per site class ---- *)

(* util.rs:781-788 unique(): ClsUniqueInsert *)
Theorem C12_unique_order_irrelevant :
  forall (A : Type) (eqb : A -> A -> bool) (p1 p2 : A -> list A -> list A) (items : list A),
    valid_place p1 -> valid_place p2 -> unique A eqb p1 items = unique A eqb p2 items.
Proof. exact unique_order_irrelevant. Qed.

Theorem C12_unique_is_nodup :
  forall (A : Type) (eqb : A -> A -> bool), (forall x y : A, eqb x y = true <-> x = y) ->
  forall (p : A -> list A -> list A) (items : list A),
    valid_place p -> (unique A eqb p items = true <-> NoDup items).
Proof. exact unique_spec. Qed.

(* enums.rs:195-205 variant_names.len() != proto_variants.len(): ClsLenOnly *)
Theorem C12_variant_names_order_irrelevant :
  forall (A : Type) (eqb : A -> A -> bool) (p1 p2 : A -> list A -> list A) (names : list A),
    valid_place p1 -> valid_place p2 ->
    variant_names_ok A eqb p1 names = variant_names_ok A eqb p2 names.
Proof. exact variant_names_order_irrelevant. Qed.

(* util.rs:363-379 object_schemas_mutually_exclusive: two sets, is_subset both ways: ClsSubset *)
Theorem C12_subset_order_irrelevant :
  forall (A : Type) (eqb : A -> A -> bool) (a a' b b' : list A),
    Permutation a a' -> Permutation b b' -> hs_is_subset A eqb a b = hs_is_subset A eqb a' b'.
Proof. exact is_subset_perm. Qed.

Theorem C12_mutually_exclusive_order_irrelevant :
  forall (A : Type) (eqb : A -> A -> bool) (pa pb pa' pb' : A -> list A -> list A) (xs ys : list A),
    valid_place pa -> valid_place pb -> valid_place pa' -> valid_place pb' ->
    fixed_props_exclusive A eqb pa pb xs ys = fixed_props_exclusive A eqb pa' pb' xs ys.
Proof. exact fixed_props_exclusive_order_irrelevant. Qed.

(* type_entry.rs:272-287 counts (entry/and_modify/or_insert, get) -> panic message: ClsCountsEntryGet *)
Theorem C12_counts_order_irrelevant :
  forall (K : Type) (eqb : K -> K -> bool), (forall x y : K, eqb x y = true <-> x = y) ->
  forall (R : Type) (p1 p2 : K * nat -> list (K * nat) -> list (K * nat)) (variants : list (K * R)),
    validM K p1 -> validM K p2 ->
    dup_raw_names K eqb p1 variants = dup_raw_names K eqb p2 variants.
Proof. exact dup_raw_names_order_irrelevant. Qed.

(* token_utils.rs:22-47 impls (since fix 9ffca46: BTreeSet -> Vec, ascending).  The Vec stored in
   TypeEntryNative.impls is a function of the resulting SET of impls: two macro entries whose impl
   sets are equal (however they were written: order of `+` items, redundant `?`) get the same Vec ... *)
Theorem C12_macro_impls_vec_determined_by_set :
  forall mods mods' : list (bool * timpl),
    (forall i, native_has_impl (macro_impls mods) i = native_has_impl (macro_impls mods') i) ->
    macro_impls mods = macro_impls mods'.
Proof. exact macro_impls_set_determines_vec. Qed.

(* ... hence the derived (order-sensitive) equality of TypeEntryNative used by assign_type
   (lib.rs:955 type_to_id) de-duplicates them: ONE type id, and the enum over them gets no
   `impl From<X>` in every process.  This is the statement that was refuted for the HashSet code
   (fixed finding C12-F1). *)
Theorem C12_macro_impls_dedup_deterministic :
  forall (n : string) (mods mods' : list (bool * timpl)),
    (forall i, native_has_impl (macro_impls mods) i = native_has_impl (macro_impls mods') i) ->
    assign_natives [] [(n, macro_impls mods); (n, macro_impls mods')] = [0; 0] /\
    from_impl_variants [0; 0] = [].
Proof. intros n mods mods' E. split; [exact (macro_impls_dedup n mods mods' E)|reflexivity]. Qed.

(* Regression witness (about the code BEFORE the fix, [macro_impls_hashset]): with a std HashSet the
   two Vecs are only permutations of each other, `contains` cannot tell, but assign_type can: ids
   [0;1] vs [0;0], i.e. two conflicting `impl From<X>` vs none.  This is why the inventory does NOT
   whitelist a HashSet in into_name_and_impls. *)
Theorem C12_macro_impls_hashset_regression_witness :
  exists (p1 p2 : timpl -> list timpl -> list timpl) (n : string),
    valid_place p1 /\ valid_place p2 /\
    Permutation (macro_impls_hashset p1 []) (macro_impls_hashset p2 []) /\
    (forall i, native_has_impl (macro_impls_hashset p1 []) i = native_has_impl (macro_impls_hashset p2 []) i) /\
    assign_natives [] [(n, macro_impls_hashset p1 []); (n, macro_impls_hashset p2 [])] = [0; 1] /\
    assign_natives [] [(n, macro_impls_hashset p1 []); (n, macro_impls_hashset p1 [])] = [0; 0] /\
    from_impl_variants [0; 1] = [0; 1] /\ from_impl_variants [0; 0] = [].
Proof.
  exists place_front, place_back, "X"%string.
  split; [exact place_front_valid|]. split; [exact place_back_valid|].
  split; [apply (macro_impls_hashset_perm place_front place_back [] place_front_valid place_back_valid)|].
  split; [intros i; apply (has_impl_hashset_order_irrelevant place_front place_back [] i place_front_valid place_back_valid)|].
  vm_compute; repeat split; reflexivity.
Qed.

(* macro lib.rs:201-208 patch / replace: HashMap (distinct keys by construction) -> BTreeMap: ClsSettingsInsert *)
Theorem C12_macro_patch_replace_order_irrelevant :
  forall (P : Type) (e e' : list (string * P)),
    Permutation e e' -> NoDup (map fst e) -> settings_patch e = settings_patch e'.
Proof. exact (@settings_patch_perm). Qed.

(* macro lib.rs:214-222 crates: the BTreeMap key is the ORIGINAL crate name: ClsCratesInsert.
   The hypothesis "original names pairwise distinct" is needed ... *)
Theorem C12_macro_crates_order_irrelevant :
  forall e e' : list (string * (option string * string)),
    Permutation e e' -> NoDup (map (fun x => fst (crate_entry x)) e) ->
    settings_crates e = settings_crates e'.
Proof. exact settings_crates_perm. Qed.

(* ... without it BTreeMap::insert is last-writer-wins over a hash order (DESIGN 3.7; recorded under C15) *)
Theorem C12_macro_crates_refuted :
  exists e e' : list (string * (option string * string)),
    Permutation e e' /\ NoDup (map fst e) /\ settings_crates e <> settings_crates e'.
Proof.
  exists [("a", (Some "x", "1.0.0")); ("b", (Some "x", "2.0.0"))]%string,
         [("b", (Some "x", "2.0.0")); ("a", (Some "x", "1.0.0"))]%string.
  split; [apply perm_swap|]. split.
  - simpl. constructor; [intros [H|[]]; discriminate|]. constructor; [intros []|constructor].
  - vm_compute. discriminate.
Qed.

(* ---- the thread-local FILLING stack of value.rs (ClsFillingStack) ---- *)

(* every call of the rendering leaves the stack exactly as it found it, whatever the outcome
   (tokens, `None`, panic = unwinding through the drop guards) *)
Theorem C12_filling_stack_balanced :
  forall (T key : Type) (key_eqb : key -> key -> bool) (body_of : key -> job T key)
         (fuel : nat) (st : list key) (j : job T key) (r : outcome T) (st' : list key),
    frender T key key_eqb body_of fuel st j = Some (r, st') -> st' = st.
Proof. exact frender_balanced. Qed.

(* consecutive top-level renderings on one thread (thread start: empty stack): the i-th result is
   what a fresh thread / fresh process computes for that job alone — it does not depend on what
   was rendered, failed or panicked before; the stack is empty again afterwards.  Hypothesis of the
   model (stated, not proved): [body_of] is fixed, i.e. the type space is not mutated during the
   renderings (`to_stream(&self)`, `output_value(&TypeSpace)`) *)
Theorem C12_filling_renderings_independent :
  forall (T key : Type) (key_eqb : key -> key -> bool) (body_of : key -> job T key)
         (fuel : nat) (js : list (job T key)),
    frender_seq T key key_eqb body_of fuel [] js =
    (map (fun j => option_map fst (frender T key key_eqb body_of fuel [] j)) js, []).
Proof. exact frender_seq_independent. Qed.

(* the fuel of the model is not observable: once there is an answer, more fuel gives the same *)
Theorem C12_filling_fuel_monotone :
  forall (T key : Type) (key_eqb : key -> key -> bool) (body_of : key -> job T key)
         (fuel : nat) (st : list key) (j : job T key) (x : outcome T * list key),
    frender T key key_eqb body_of fuel st j = Some x ->
    frender T key key_eqb body_of (S fuel) st j = Some x.
Proof. exact frender_mono. Qed.

(* the keys (type id, ADDRESS of the default value) are only compared for equality within one call
   tree: renaming them injectively — another process, another TypeSpace with the same content at
   other addresses — renders the same outcome *)
Theorem C12_filling_address_irrelevant :
  forall (T key key' : Type) (key_eqb : key -> key -> bool) (key_eqb' : key' -> key' -> bool) (ren : key -> key'),
    (forall a b, key_eqb' (ren a) (ren b) = key_eqb a b) ->
    forall (body_of : key -> job T key) (body_of' : key' -> job T key'),
    (forall k, body_of' (ren k) = rename_job ren (body_of k)) ->
    forall (fuel : nat) (st : list key) (j : job T key),
      frender T key' key_eqb' body_of' fuel (map ren st) (rename_job ren j) =
      rename_result ren (frender T key key_eqb body_of fuel st j).
Proof. exact frender_rename. Qed.

(* ---- sorted maps ---- *)

(* JSON object parsing: member order (and, trivially, whitespace: it is not in the parsed list)
   cannot matter once the document went through serde_json's / schemars' sorted maps *)
Theorem C12_parse_perm :
  forall (V : Type) (kvs kvs' : list (string * V)),
    Permutation kvs kvs' -> NoDup (map fst kvs) -> parse_obj kvs = parse_obj kvs'.
Proof. exact (@parse_obj_perm). Qed.

(* OutputSpace: items with the SAME (module, order hint) key are appended in insertion order;
   the rendered stream is invariant under every reordering of the add_item calls that keeps the
   relative order of equal keys (stated as: the per-key subsequences agree) *)
Theorem C12_output_sorted :
  forall (T : Type) (wrap : omod -> list T -> list T) (l l' : list (okey * list T)),
    (forall k : okey, filter (fun it => okeyeq k (fst it)) l = filter (fun it => okeyeq k (fst it)) l') ->
    render T wrap l = render T wrap l'.
Proof. exact render_same_key_order. Qed.

(* with pairwise distinct keys every permutation of the insertions renders the same stream *)
Theorem C12_output_perm_distinct_keys :
  forall (T : Type) (wrap : omod -> list T -> list T) (l l' : list (okey * list T)),
    Permutation l l' -> NoDup (map fst l) -> render T wrap l = render T wrap l'.
Proof. exact render_perm_distinct_keys. Qed.

(* and equal keys DO see insertion order (the hypothesis of C12_output_sorted is needed) *)
Theorem C12_output_same_key_order_matters :
  exists (l l' : list (okey * list nat)), Permutation l l' /\
    render nat (fun _ s => s) l <> render nat (fun _ s => s) l'.
Proof.
  exists [((MCrate, "A"%string), [1]); ((MCrate, "A"%string), [2])],
         [((MCrate, "A"%string), [2]); ((MCrate, "A"%string), [1])].
  split; [apply perm_swap|]. vm_compute. discriminate.
Qed.

(* to_stream iterates id_to_entry (a BTreeMap): the stream is a function of the id -> entry MAP,
   whatever the history of inserts *)
Theorem C12_to_stream_insert_history_irrelevant :
  forall (T : Type) (wrap : omod -> list T -> list T) (pre post : list (okey * list T)) (h h' : list (id_entry T)),
    Permutation h h' -> NoDup (map fst h) -> to_stream T wrap pre post h = to_stream T wrap pre post h'.
Proof. exact to_stream_history_irrelevant. Qed.

(* C12_output_sorted needs "same arrival order within each key".  In to_stream that arrival order is
   a function of the id table's ITERATION order: per key, the error item, then each entry's items
   under that key in ascending type id, then the shared defaults.  This is exactly the hypothesis a
   hash-ordered id table (id_to_entry : HashMap) breaks. *)
Theorem C12_output_same_key_arrival_order_by_id :
  forall (T : Type) (pre post : list (okey * list T)) (h : list (id_entry T)) (k : okey),
    let f := fun it : okey * list T => okeyeq k (fst it) in
    filter f (to_stream_items T pre post (id_table_of T h)) =
      (filter f pre ++ flat_map (fun e => filter f (snd e)) (id_table_of T h) ++ filter f post)%list
    /\ StronglySorted (fun a b => Nat.compare (fst a) (fst b) = Lt) (id_table_of T h).
Proof. exact to_stream_arrival_order. Qed.

(* witness: two entries filing an item under the SAME key (enum `Foo` variant `Bar` and struct
   `FooBar` both file their default fns under (Defaults, "FooBar")): iterating an enumeration of the
   table other than the id order renders other bytes *)
Theorem C12_output_hash_ordered_ids_observable :
  exists (tbl enum : list (id_entry nat)),
    Permutation tbl enum /\ tbl = id_table_of nat tbl /\
    to_stream_enumerated nat (fun _ s => s) [] [] tbl <> to_stream_enumerated nat (fun _ s => s) [] [] enum.
Proof.
  exists [(3, [((MCrate, "Foo"), [30]); ((MDefaults, "FooBar"), [31])]); (4, [((MCrate, "FooBar"), [40]); ((MDefaults, "FooBar"), [41])])]%string,
         [(4, [((MCrate, "FooBar"), [40]); ((MDefaults, "FooBar"), [41])]); (3, [((MCrate, "Foo"), [30]); ((MDefaults, "FooBar"), [31])])]%string.
  split; [apply perm_swap|]. split; [vm_compute; reflexivity|]. vm_compute. discriminate.
Qed.

(* rendering twice: in Gallina a function applied to the same state returns the same value; the
   statement is trivial here, its content on the real code is the in-process double render of the check *)
Theorem C12_render_twice :
  forall (T : Type) (wrap : omod -> list T -> list T) (sp : list (okey * list T)),
    into_stream T wrap sp = into_stream T wrap sp.
Proof. reflexivity. Qed.

(* ---- non-vacuity ---- *)
Example C12_ex_valid_place_front : valid_place (@place_front nat).
Proof. exact place_front_valid. Qed.
Example C12_ex_valid_place_back : valid_place (@place_back nat).
Proof. exact place_back_valid. Qed.
Example C12_ex_unique :
  unique nat Nat.eqb place_front [3; 1; 2] = true /\ unique nat Nat.eqb place_back [3; 1; 3] = false.
Proof. vm_compute. split; reflexivity. Qed.
Example C12_ex_macro_impls :
  macro_impls [] = [IFromStr; IDisplay] /\
  macro_impls [(true, IDefault); (false, IFromStr)] = [IDisplay; IDefault] /\
  macro_impls [(false, IFromStr); (true, IDefault); (true, IDisplay)] = [IDisplay; IDefault].
Proof. vm_compute. repeat split; reflexivity. Qed.
(* T { next: T default {} }: the member default contains itself; the guard cuts at the second level *)
Example C12_ex_filling :
  let body := fun _ : nat => JNode nat nat [10] [JLeaf nat nat [1]; JFill nat nat 0 [99]] in
  frender nat nat Nat.eqb body 10 [] (JFill nat nat 0 [99]) = Some (ROk nat [10; 1; 99], []) /\
  frender_seq nat nat Nat.eqb body 10 [] [JNode nat nat [7] [JFill nat nat 0 [99]; JPanic nat nat]; JFill nat nat 0 [99]]
    = ([Some (RPanic nat); Some (ROk nat [10; 1; 99])], []).
Proof. vm_compute. split; reflexivity. Qed.
Example C12_ex_parse :
  parse_obj [("b", 1); ("a", 2)]%string = [("a", 2); ("b", 1)]%string /\
  parse_obj [("a", 2); ("b", 1)]%string = [("a", 2); ("b", 1)]%string /\
  parse_obj [("a", 1); ("a", 2)]%string = [("a", 2)]%string.
Proof. vm_compute. repeat split; reflexivity. Qed.
Example C12_ex_exclusive :
  fixed_props_exclusive (string * string) (fun a b => String.eqb (fst a) (fst b) && String.eqb (snd a) (snd b))
    place_front place_back [("t", "a"); ("u", "x")]%string [("t", "b"); ("u", "x")]%string = true.
Proof. vm_compute. reflexivity. Qed.
Example C12_ex_output :
  render nat (fun m s => omod_rank m :: s)
    [((MCrate, "B"), [1]); ((MError, "e"), [9]); ((MCrate, "A"), [2]); ((MCrate, "B"), [3])]%string
  = [0; 9; 1; 2; 1; 3].
Proof. vm_compute. reflexivity. Qed.
