(* Props/C04F.v -- property C04 with the UNIVERSE quantifier closed on a fragment.  Statements only;
   proofs in Proofs/SchemarsProofs.v, RustIrProofs.v, ConvertSortedProofs.v, C04FProofs.v.

   Chain (every arrow is a model tied to the real code on every run, see py/c04f_tie.py):
     U : universe of Rust definitions          (Algo/RustDefs.v)
       --schema_of_rust-->  D : definitions    (Algo/Schemars.v = schemars 0.8.22 derive, tie S: exact JSON)
       --convert_doc----->  T : type space     (Algo/Convert.v  = typify add_ref_types / add_root_schema, tie K3: exact)
     ir_of_rust U : the original types in the same IR (tie K5-origin: compiled serde)
     IR/Serde.v de / ser : the behaviour of both sides (ties K5 / K5-origin)
   For EVERY universe of [rust_frag] and EVERY value of EVERY named type: the generated type accepts
   its serialisation and the original reads the re-serialisation back as the same value
   (C04F_fragment_wire_compat), and conversely; no exploration of universes is involved.

   The fragment [rust_frag] (decidable, Algo/Schemars.v): structs with named members and unit-only
   externally tagged enums, listed in name order; members of type bool / u8..u64 / i8..i64 / String /
   Vec<T> / HashMap|BTreeMap<String,T> / a named type / Option<X> with X one of bool, integer, String,
   Vec, map; rename / rename_all / deny_unknown_fields free, PROVIDED that the identifier typify derives
   from the wire name is the Rust identifier; members declared in identifier order with wire names in
   the same order (typify sorts members; serde writes them in declaration order; the two wire forms are
   EQUAL JSON texts only then); an Option member carries skip_serializing_if = "Option::is_none" (typify
   emits it for every non-required Option member); no `default`; Pascal-cased type names distinct; no
   type contains itself by value.  Outside: f32/f64 (`format: double` is not in the converter model),
   Option<named type> (schemars emits anyOf), tuples / arrays / unit / Box, newtype / tuple / unit
   structs (newtype structs ARE covered by the schemars model and C04F_schemars_in_frag: [rust_frag_s]),
   data-carrying enums, defaults. *)
From Coq Require Import String ZArith NArith QArith List Bool.
From Typify Require Import Base.Json Spec.Schema Spec.Valid IR.TypeIR IR.Serde.
From Typify Require Algo.Heck Algo.Sanitize.
From Typify Require Import Algo.Convert Algo.RustDefs Algo.Schemars Check.WireEquiv.
From Typify Require Import Proofs.RustDefsProofs Proofs.SchemarsProofs Proofs.ConvertSortedProofs Proofs.C04FProofs.
Import ListNotations.
Close Scope Q_scope.
Close Scope string_scope.
Open Scope list_scope.
Open Scope N_scope.

(* the schemas the schemars model emits are documents of the converter's fragment *)
Theorem C04F_schemars_in_frag :
  forall cls U, rust_frag_s cls U = true -> in_frag cls (schema_of_rust U) = true.
Proof. exact schemars_in_frag. Qed.

Theorem C04F_frag_narrower : forall cls U, rust_frag cls U = true -> rust_frag_s cls U = true.
Proof. exact rust_frag_wider. Qed.

(* typify (the converter model) never rejects them *)
Theorem C04F_convert_total :
  forall cls U, rust_frag_s cls U = true -> convert_doc cls (schema_of_rust U) <> None.
Proof. exact c04f_convert_total. Qed.

(* two facts about the converter model the shape specification does not state: members of every struct
   entry are strictly sorted by identifier with renames only where the wire name differs, and a
   definition whose own conversion is a struct / enum / newtype is stored as such *)
Theorem C04F_convert_structs_sorted :
  forall cls D T, convert_doc cls D = Some T ->
  forall i n dv ps deny, get_det T i = Some (DStruct n dv ps deny) ->
  keys_sorted (map p_name ps) = true /\ forall p, In p ps -> rn_ok p.
Proof. exact convert_structs_sorted. Qed.

(* the original types and the generated types are related by an explicit bisimulation that passes
   C14's one-step test [closed] (Check/WireEquiv.v) -- proved directly from the shape specification
   instead of through the worklist [build] of [wire_equiv], whose completeness is not proved *)
Theorem C04F_convert_bisim :
  forall cls U T, rust_frag cls U = true -> convert_doc cls (schema_of_rust U) = Some T ->
  exists A, closed (ir_of_rust U) T A = true /\
            forall j d, nth_error U j = Some d -> rel A (N.of_nat j + 1) (N.of_nat j + 1) = true.
Proof. exact c04f_convert_bisim. Qed.

(* hence: same acceptance and same wire output, for every JSON and every fuel *)
Theorem C04F_convert_same_wire :
  forall cls U T, rust_frag cls U = true -> convert_doc cls (schema_of_rust U) = Some T ->
  forall re_match native_ok j d, nth_error U j = Some d ->
  same_wire re_match native_ok (ir_of_rust U) (N.of_nat j + 1) T (N.of_nat j + 1).
Proof. exact fragment_same_wire. Qed.

(* THE property, for every universe of the fragment, every named type (the j-th, at id j+1 on both
   sides), every value x with canonical serialisation v *)
Theorem C04F_fragment_wire_compat :
  forall cls U T, rust_frag cls U = true -> convert_doc cls (schema_of_rust U) = Some T ->
  forall (re_match native_ok : ustring -> ustring -> bool) j d, nth_error U j = Some d ->
  let t := N.of_nat j + 1 in
  forall fuel x v,
    ser (ir_of_rust U) fuel t x = Some v ->
    de re_match native_ok (ir_of_rust U) fuel t v = Some x ->
    exists x', de re_match native_ok T fuel t v = Some x' /\
               exists v', ser T fuel t x' = Some v' /\
                          de re_match native_ok (ir_of_rust U) fuel t v' = Some x.
Proof. exact c04f_fragment_wire_compat. Qed.

(* and vice versa: every value of the generated type is a value of the original *)
Theorem C04F_fragment_wire_compat_converse :
  forall cls U T, rust_frag cls U = true -> convert_doc cls (schema_of_rust U) = Some T ->
  forall (re_match native_ok : ustring -> ustring -> bool) j d, nth_error U j = Some d ->
  let t := N.of_nat j + 1 in
  forall fuel x' v,
    ser T fuel t x' = Some v ->
    de re_match native_ok T fuel t v = Some x' ->
    exists x, de re_match native_ok (ir_of_rust U) fuel t v = Some x /\
              exists v', ser (ir_of_rust U) fuel t x = Some v' /\
                         de re_match native_ok T fuel t v' = Some x'.
Proof. exact c04f_fragment_wire_compat_converse. Qed.

(* ================================================================ example (non-vacuity)
   enum Color { DarkRed, #[serde(rename = "azure")] Blue }                 (rename_all = "snake_case")
   #[serde(rename_all = "camelCase", deny_unknown_fields)]
   struct Item { color: Color, first_name: String,
                 #[serde(skip_serializing_if = "Option::is_none")] opt_level: Option<u8>,
                 scores: HashMap<String, i64>, tags: Vec<String>, #[serde(rename = "type")] type_: bool } *)
Definition s (x : string) : ustring := ustr_of_string x.

Definition C04F_ex_U : universe :=
  [ RdEnum (s "Color") TagExternal RuSnake false
      [ mkRVariant (s "DarkRed") None RvUnit; mkRVariant (s "Blue") (Some (s "azure")) RvUnit ];
    RdStruct (s "Item") RuCamel true false
      [ mkRField (s "color") (RtRef (s "Color")) None false false None;
        mkRField (s "first_name") RtString None false false None;
        mkRField (s "opt_level") (RtOption (RtInt (s "u8"))) None false true None;
        mkRField (s "scores") (RtMap (RtInt (s "i64"))) None false false None;
        mkRField (s "tags") (RtVec RtString) None false false None;
        mkRField (s "type_") RtBool (Some (s "type")) false false None ] ].

Example C04F_ex_in_fragment : rust_frag Sanitize.ascii_classes C04F_ex_U = true.
Proof. vm_compute. reflexivity. Qed.

Definition C04F_ex_T : space :=
  match convert_doc Sanitize.ascii_classes (schema_of_rust C04F_ex_U) with Some T => T | None => ir_of_rust [] end.

Example C04F_ex_converts : convert_doc Sanitize.ascii_classes (schema_of_rust C04F_ex_U) = Some C04F_ex_T.
Proof. vm_compute. reflexivity. Qed.

(* the schema the model emits for Item's optLevel member: what schemars 0.8.22 writes *)
Example C04F_ex_schema_member :
  assoc (s "optLevel") (match assoc (s "Item") (schema_of_rust C04F_ex_U) with
                        | Some (SObj _ _ _ _ _ _ _ _ _ _ _ _ props _ _ _ _ _ _ _ _ _ _ _) => props | _ => [] end)
  = Some (sch_typed [TInteger; TNull] (Some (s "uint8")) nv_min0 ItemsAbsent [] None).
Proof. vm_compute. reflexivity. Qed.

Definition nore (_ _ : ustring) := false.

Definition C04F_ex_v : json :=
  JObj [ (s "color", JStr (s "azure")); (s "firstName", JStr (s "Ada"));
         (s "scores", JObj [(s "a", JInt (-3)%Z)]); (s "tags", JArr [JStr (s "x"); JStr (s "y")]); (s "type", JBool true) ].

(* the round trip of a value of Item (id 2 on both sides), computed: the generated type accepts the
   original's serialisation, writes the same JSON, and the original reads it back as the same value *)
Example C04F_ex_roundtrip :
  exists x x',
    de nore nore (ir_of_rust C04F_ex_U) 20 2 C04F_ex_v = Some x /\
    ser (ir_of_rust C04F_ex_U) 20 2 x = Some C04F_ex_v /\
    de nore nore C04F_ex_T 20 2 C04F_ex_v = Some x' /\
    ser C04F_ex_T 20 2 x' = Some C04F_ex_v /\
    de nore nore (ir_of_rust C04F_ex_U) 20 2 C04F_ex_v = Some x.
Proof.
  destruct (de nore nore (ir_of_rust C04F_ex_U) 20 2 C04F_ex_v) as [x|] eqn:E1; [|vm_compute in E1; discriminate E1].
  destruct (de nore nore C04F_ex_T 20 2 C04F_ex_v) as [x'|] eqn:E2; [|vm_compute in E2; discriminate E2].
  exists x, x'. split; [reflexivity|]. vm_compute in E1. injection E1 as <-. vm_compute in E2. injection E2 as <-.
  split; [vm_compute; reflexivity|]. split; [reflexivity|]. split; [vm_compute; reflexivity|reflexivity].
Qed.

(* the theorem instantiated on the example: for ALL values of Item *)
Example C04F_ex_all_values :
  forall fuel x v,
    ser (ir_of_rust C04F_ex_U) fuel 2 x = Some v -> de nore nore (ir_of_rust C04F_ex_U) fuel 2 v = Some x ->
    exists x', de nore nore C04F_ex_T fuel 2 v = Some x' /\
               exists v', ser C04F_ex_T fuel 2 x' = Some v' /\ de nore nore (ir_of_rust C04F_ex_U) fuel 2 v' = Some x.
Proof.
  exact (C04F_fragment_wire_compat Sanitize.ascii_classes C04F_ex_U C04F_ex_T C04F_ex_in_fragment C04F_ex_converts
           nore nore 1%nat _ eq_refl).
Qed.

(* outside the fragment: an Option member WITHOUT skip_serializing_if (the original writes `null`, the
   generated type omits the member: different wire texts, although each side reads the other's) *)
Definition C04F_out_U : universe :=
  [ RdStruct (s "P") RuNone false false [ mkRField (s "a") (RtOption RtBool) None false false None ] ].

Example C04F_ex_no_skip_out :
  rust_frag Sanitize.ascii_classes C04F_out_U = false /\
  exists T, convert_doc Sanitize.ascii_classes (schema_of_rust C04F_out_U) = Some T /\
            rt nore nore (ir_of_rust C04F_out_U) 10 1 (JObj []) = Some (JObj [(s "a", JNull)]) /\
            rt nore nore T 10 1 (JObj []) = Some (JObj []).
Proof.
  split; [vm_compute; reflexivity|]. eexists. split; [vm_compute; reflexivity|]. split; vm_compute; reflexivity.
Qed.
