(* C01 - every accepted schema yields Rust that compiles.  Property theorems only.

   FULL STATEMENT (not provable here: rustc's type checker and serde_derive's expansion are not
   formalised, and the schema converter is not modelled):
       forall settings history, ingest = Ok T ->
         to_stream T returns /\ parses as a file /\ rustc accepts it
   What is proved instead (level: proof for the sub-obligations, `_partial` overall):
     * [wf_module cls T] (Algo/RustStatic.v) is a decidable MODEL of the rejection causes the
       property names, one conjunct each.  `bin/check C01` evaluates it on the dumped IR of every
       generated module and compares it with rustc's verdict, both polarities (channel K6).
     * each boolean sub-checker is sound w.r.t. its Prop (NoDup, acyclicity, ...);
     * the judgment follows from the parts the sibling properties establish for typify's own
       construction (C08: identifiers, fields, variants; C16: one item per name; C07: acyclicity;
       C06: defaults render; C19: built-in derives are derivable) plus the residual conjuncts,
       each of which is the class of a recorded finding (findings/C01.json) or a condition the
       converter is responsible for;
     * every conjunct can fail (witness spaces), and the hypotheses are satisfiable. *)
From Coq Require Import String NArith List Bool.
From Typify Require Import Base.Json IR.TypeIR Algo.Heck Algo.HasImpl Algo.RustStatic Proofs.RustStaticProofs.
From Typify Require Algo.Sanitize Algo.Cycles Algo.Defaults Algo.Value Algo.Emit Algo.Space Algo.SettingsModel.
From Typify Require Proofs.EmitProofs Proofs.SanitizeProofs Proofs.CyclesProofs Proofs.CyclesSpecProofs Proofs.SpaceProofs.
From Typify Require Props.C06 Props.C07 Props.C08 Props.C16 Props.C19.
Import ListNotations.
Open Scope N_scope.

(* ---- the judgment ---- *)
Theorem C01_wf_module_sound : forall cls T, wf_module cls T = true <-> forall c, holds cls T c = true.
Proof. exact wf_module_sound. Qed.

(* the list of failing conjuncts the check prints is empty exactly when the judgment holds *)
Theorem C01_wf_report_nil : forall cls T, wf_report cls T = [] <-> wf_module cls T = true.
Proof. exact wf_report_nil. Qed.

(* composition: one item per name (C16), distinct fields / variants (C08), identifiers made by
   sanitize (C08), and the residual conjuncts decided on the IR  ==>  wf_module *)
Theorem C01_wf_from_parts : forall cls T,
  SanitizeProofs.ClassesOK cls ->
  NoDup (item_names T) ->
  Fields_unique T ->
  Variants_unique T ->
  (forall x, In x (all_idents T) -> exists s c, x = Sanitize.sanitize cls s c) ->
  (forall c, In c residual_conjuncts -> holds cls T c = true) ->
  wf_module cls T = true.
Proof. exact wf_from_parts. Qed.

(* PARTIAL (see the header): what the judgment guarantees at Prop level *)
Theorem C01_wf_module_partial : forall cls T, wf_module cls T = true ->
  NoDup (item_names T) /\
  (forall n, In n (item_names T) -> ~ In n (module_names T)) /\
  NoDup (default_fn_names cls T) /\
  Fields_unique T /\ Variants_unique T /\
  (forall x, In x (all_idents T) -> Sanitize.syn_ident_ok cls x = true) /\
  (forall n, ~ CyclesSpecProofs.spec_cyclic (graph_of_space T) n) /\
  (forall n, ~ CyclesProofs.cyclic (deref_graph T) n) /\
  (forall n df tag vs deny bes, In (DEnum n df tag vs deny bes) (named_dets T) ->
     NoDup (map (from_type_text T (fuel_of T)) (from_variants T vs))) /\
  (forall n df vs deny bes, In (DEnum n df TagUntagged vs deny bes) (named_dets T) -> (count_simple vs <= 1)%nat).
Proof. exact wf_module_guarantees. Qed.

(* ---- (a) unique item names ---- *)
Theorem C01_items_unique_sound : forall T, items_unique T = true <-> NoDup (item_names T).
Proof. exact items_unique_sound. Qed.

(* from C16: after every history in which each definition is inserted under a type name that is
   not registered at that moment, to_stream emits one definition per name.  (Stated over C16's
   allocation-level model; histories outside `fresh_history` are findings C16-1/C16-3 = C01-12.) *)
Theorem C01_items_unique_from_C16 : forall h : list Space.call,
  SpaceProofs.fresh_history Space.empty h -> NoDup (Space.def_names (Space.run_history Space.empty h)).
Proof. exact C16.C16_names_unique. Qed.

Theorem C01_modnames_free_sound : forall T, modnames_free T = true ->
  forall n, In n (item_names T) -> ~ In n (module_names T).
Proof. exact modnames_free_sound. Qed.

Theorem C01_defaultfns_unique_sound : forall cls T,
  defaultfns_unique cls T = true <-> NoDup (default_fn_names cls T).
Proof. exact defaultfns_unique_sound. Qed.

(* ---- (b) unique fields per struct / struct variant, unique variants per enum ---- *)
Theorem C01_members_unique_sound : forall T,
  (fields_unique T = true <-> Fields_unique T) /\ (variants_unique T = true <-> Variants_unique T).
Proof. intro T. split; [exact (fields_unique_sound T)|exact (variants_unique_sound T)]. Qed.

(* from C08: the variant identifiers typify computes (sanitize, X fallback, else panic) are distinct *)
Theorem C01_variants_unique : forall cls, SanitizeProofs.ClassesOK cls ->
  forall raws ids, Sanitize.variant_idents cls raws = Sanitize.Ok ids ->
  forall n df tag vs deny bes, map v_ident vs = ids ->
  variants_unique_det (DEnum n df tag vs deny bes) = true.
Proof. exact variants_unique_from_C08. Qed.

(* from C08 (fix 5896b59): the field identifiers of struct_members are distinct, else Err *)
Theorem C01_fields_unique : forall cls, SanitizeProofs.ClassesOK cls ->
  forall props ta fs fl, Sanitize.struct_members cls props ta = Sanitize.Ok (fs, fl) ->
  forall n df ps deny, map p_name ps = (map fst fs ++ fl)%list ->
  fields_unique_det (DStruct n df ps deny) = true.
Proof. exact fields_unique_from_C08. Qed.

(* ---- (d) identifiers ---- *)
Theorem C01_idents_valid_sound : forall cls T,
  idents_valid cls T = true <-> (forall x, In x (all_idents T) -> Sanitize.syn_ident_ok cls x = true).
Proof. exact idents_valid_sound. Qed.

(* from C08: names made by sanitize are accepted by syn (not keywords, lexically identifiers) *)
Theorem C01_idents_valid : forall cls, SanitizeProofs.ClassesOK cls -> forall T,
  (forall x, In x (all_idents T) -> exists s c, x = Sanitize.sanitize cls s c) ->
  idents_valid cls T = true.
Proof. exact idents_valid_from_C08. Qed.

(* ---- render_ok: the assert! of output_enum ---- *)
Theorem C01_untagged_simple_sound : forall T, untagged_simple_ok T = true ->
  forall n df vs deny bes, In (DEnum n df TagUntagged vs deny bes) (named_dets T) ->
  (count_simple vs <= 1)%nat.
Proof. exact untagged_simple_sound. Qed.

(* ---- (c) impl coherence ---- *)
Theorem C01_from_variants_coherent_sound : forall T, from_variants_coherent T = true ->
  forall n df tag vs deny bes, In (DEnum n df tag vs deny bes) (named_dets T) ->
  NoDup (map (from_type_text T (fuel_of T)) (from_variants T vs)) /\
  ~ In n (map (from_type_text T (fuel_of T)) (from_variants T vs)).
Proof. exact from_variants_coherent_sound. Qed.

(* mirror of convenience_from's de-duplication: a variant gets `impl From` only if no other
   variant has the same key (type ids) *)
Theorem C01_from_keys_once : forall T vs v, In v (from_variants T vs) ->
  In v vs /\ exists k, from_key v = Some k /\ key_count k vs = 1%nat.
Proof. exact from_variants_key_once. Qed.

(* `From<(T,)>` of a one-element tuple variant.  Since fix d9b019c (= patches/C01-1.diff) the body's
   arguments are the declared fields for every arity: the conjunct holds for EVERY space.  With
   the pre-fix body it held only without such variants (finding C01-6, now a regression case). *)
Theorem C01_from_tuple1_fixed : forall T, from_tuple1_ok T = true.
Proof. exact from_tuple1_fixed. Qed.

Theorem C01_from_tuple1_prefix_sound : forall T, from_tuple1_ok_cfg false T = true ->
  forall n df tag vs deny bes, In (DEnum n df tag vs deny bes) (named_dets T) ->
  forall v t, In v (from_variants T vs) -> v_det v <> VTuple [t].
Proof. exact from_tuple1_prefix_sound. Qed.

Theorem C01_from_tuple1_regression :
  from_tuple1_ok_cfg false (witness CFromTuple1) = false /\
  wf_module Sanitize.ascii_classes (witness CFromTuple1) = true.
Proof. exact from_tuple1_regression. Qed.

Theorem C01_deref_acyclic_sound : forall T, deref_acyclic T = true ->
  forall n, ~ CyclesProofs.cyclic (deref_graph T) n.
Proof. exact deref_acyclic_sound. Qed.

Theorem C01_tryfrom_string_sound : forall T, tryfrom_string_ok T = true ->
  forall n df inner nm impls ps, In (DNewtype n df inner CNone) (named_dets T) ->
  get_det T inner = Some (DNative nm impls ps) ->
  string_like_native nm = true -> mem_trait TFromStr impls = false.
Proof. exact tryfrom_string_sound. Qed.

(* TryFrom<&str> / TryFrom<String> / FromStr / Display / Default: at most once per type *)
Theorem C01_bespoke_once : forall T d, NoDup (bespoke_impls T d).
Proof. exact bespoke_once. Qed.

(* ---- (e) default expressions ---- *)
(* from C06: a validated default never makes to_stream panic in output_value().unwrap() *)
Theorem C01_defaults_rendered : forall (re : ustring -> ustring -> bool) T f t d k,
  Defaults.validate_value re T f t d = Defaults.ROk k -> Value.output_value T f t d <> Defaults.RErr.
Proof. exact C06.C06_validate_implies_output. Qed.

Theorem C01_defaults_ok_sound : forall T, defaults_ok T = true ->
  forall d, In d (named_dets T) -> forall np, In np (props_of_det d) -> forall p v, In p (snd np) ->
  p_state p = PDefault v ->
  Value.render_prop_default T (fuel_of T) (p_ty p) v = Defaults.ROk None \/
  exists e, Value.render_prop_default T (fuel_of T) (p_ty p) v = Defaults.ROk (Some e) /\
            default_typed_cfg default_variant_fixed T e (p_ty p) = true.
Proof. exact defaults_ok_sound. Qed.

(* the default of a one-element tuple variant.  Since fix 15ce314 (= patches/C06-7.diff) value.rs builds
   `E::V((x,))`: the conjunct holds for EVERY space.  With the pre-fix rendering `E::V(x)` it held only
   when no rendered default constructs such a variant (finding C01-16 = C06-F13, now a regression case). *)
Theorem C01_default_tuple1_fixed : forall T, default_tuple1_ok T = true.
Proof. exact default_tuple1_fixed. Qed.

Theorem C01_default_tuple1_prefix_sound : forall T, default_tuple1_ok_cfg false T = true ->
  forall d, In d (named_dets T) -> forall e, In e (rendered_defaults T d) ->
  Value.expr_any (tuple1_variant_expr_cfg false T) e = false.
Proof. exact default_tuple1_prefix_sound. Qed.

Theorem C01_default_tuple1_regression :
  default_tuple1_ok_cfg false (witness CDefaultTuple1) = false /\
  default_tuple1_ok (witness CDefaultTuple1) = true /\
  defaults_ok (witness CDefaultTuple1) = true.
Proof. exact default_tuple1_regression. Qed.

(* ---- (f) no infinitely sized types ---- *)
(* from C07: after break_cycles no node reachable from the new ids lies on a by-value cycle of the
   specification relation, outside class Known_2 (native type parameters, C07-2 = C01-14) *)
Theorem C01_acyclic : forall fuel (s : Cycles.space) lo hi s',
  CyclesProofs.wf s -> Cycles.break_cycles fuel s lo hi = Cycles.Done s' ->
  ~ CyclesSpecProofs.Known_2 (Cycles.sp_g s') ->
  forall n, CyclesSpecProofs.spec_reachable (Cycles.sp_g s') lo hi n ->
  ~ CyclesSpecProofs.spec_cyclic (Cycles.sp_g s') n.
Proof. exact C07.C07_acyclic_spec. Qed.

(* C07's proven checker, run on the containment graph of the dumped IR *)
Theorem C01_acyclic_sound : forall T, contain_acyclic T = true ->
  forall n, ~ CyclesSpecProofs.spec_cyclic (graph_of_space T) n.
Proof. exact contain_acyclic_sound. Qed.

(* ---- (g) serde_derive static rules, trait bounds of the derives ---- *)
Theorem C01_serde_rules_sound : forall T, serde_rules_ok T = true ->
  (forall n df t c vs deny bes, In (DEnum n df (TagAdjacent t c) vs deny bes) (named_dets T) -> t <> c) /\
  (forall n df t vs deny bes, In (DEnum n df (TagInternal t) vs deny bes) (named_dets T) ->
     forall v, In v vs ->
       (forall ts, v_det v <> VTuple ts) /\
       (forall ps p, v_det v = VStruct ps -> In p ps -> wire_name p <> Some t)) /\
  (forall n df ps, In (DStruct n df ps true) (named_dets T) -> forall p, In p ps -> p_rename p <> RFlatten).
Proof. exact serde_rules_sound. Qed.

Theorem C01_serde_default_sound : forall T, serde_default_ok T = true ->
  forall d, In d (named_dets T) -> forall np, In np (props_of_det d) -> forall p, In p (snd np) ->
  p_state p = POptional -> implements current T (fuel_of T) (p_ty p) TDefault = true.
Proof. exact serde_default_sound. Qed.

(* `skip_serializing_if = "P::f"` names a function of the field's rendered type *)
Theorem C01_skip_path_sound : forall T, skip_path_ok T = true ->
  forall d, In d (named_dets T) -> forall np, In np (props_of_det d) -> forall p, In p (snd np) ->
  skip_path_prop_ok T p = true.
Proof. exact skip_path_sound. Qed.

(* the two sites that decide about `::serde_json::Map` (structs.rs generate_serde_attr for the path,
   type_entry.rs type_ident for the type; C14's models of both) agree on EVERY optional map member *)
Theorem C01_skip_path_map_coherent : forall T p k v ty,
  get_det T (p_ty p) = Some (DMap k v) ->
  SettingsModel.type_ident T (fuel_of T) (p_ty p) = Some ty ->
  ~ In 60 (SettingsModel.map_path T) ->
  skip_path_prop_ok T p = true.
Proof. exact skip_path_map_coherent. Qed.

(* from C19: every derive typify adds by itself is satisfiable for that entry, outside C19's class of aggregates std /
   serde do not cover (arrays > 32, tuples > 12: finding C01-5, decided here by [derive_bounds_ok]) *)
Theorem C01_derive_bounds : forall T i e x fuel,
  ~ EmitProofs.Known_unsupported_aggregate T e ->
  get T i = Some e -> In x (Emit.builtin_derives T e) -> Emit.derivable x T (S fuel) i = true.
Proof. exact C19.C19_builtin_derives_derivable. Qed.

(* what C19's table does not see: serde / std cover arrays up to 32 and tuples up to 12 only *)
Theorem C01_derive_bounds_sound : forall T, derive_bounds_ok T = true ->
  forall d, In d (named_dets T) -> forall i, In i (field_types d) ->
  (forall t n, get_det T i = Some (DArray t n) -> n <= 32) /\
  (forall ts, get_det T i = Some (DTuple ts) -> (length ts <= 12)%nat).
Proof. exact derive_bounds_sound. Qed.

(* ---- prelude capture ---- *)
Theorem C01_prelude_clean_sound : forall T,
  prelude_default_ok T = true -> prelude_vec_ok T = true -> prelude_result_ok T = true ->
  (In (us "Default") (item_names T) -> forall d, In d (named_dets T) -> mentions_default_det T d = false) /\
  (In (us "Vec") (item_names T) -> has_set T = false) /\
  (newtype_named T "Ok" = true \/ newtype_named T "Err" = true ->
     forall d, In d (named_dets T) -> mentions_result_det T d = false).
Proof. exact prelude_sound. Qed.

(* ---- the recorded classes are inside the model: every conjunct that can fail has a failing space ---- *)
Theorem C01_known_classes_fail : forall c, c <> CFromTuple1 -> c <> CDefaultTuple1 ->
  holds Sanitize.ascii_classes (witness c) c = false.
Proof. exact known_classes_fail. Qed.

(* ---- non-vacuity ---- *)
Example C01_ex_wf : wf_module Sanitize.ascii_classes ex_ok = true.
Proof. exact ex_ok_wf. Qed.

Example C01_ex_parts_satisfiable :
  NoDup (item_names ex_ok) /\ Fields_unique ex_ok /\ Variants_unique ex_ok /\
  (forall c, In c residual_conjuncts -> holds Sanitize.ascii_classes ex_ok c = true).
Proof. exact ex_ok_parts. Qed.

Example C01_ex_classes_ok : SanitizeProofs.ClassesOK Sanitize.ascii_classes.
Proof. exact C08.C08_classes_satisfiable. Qed.

(* the finding witnesses as the model sees them: foo/Foo-style duplicate, A(Box<A>), Option<A> *)
Example C01_ex_reports :
  wf_report Sanitize.ascii_classes (witness CItems) = [CItems] /\
  wf_report Sanitize.ascii_classes (witness CDerefCycle) = [CDerefCycle] /\
  wf_report Sanitize.ascii_classes (witness CAcyclic) = [CAcyclic] /\
  wf_report Sanitize.ascii_classes (witness CFromTuple1) = [] /\
  wf_report Sanitize.ascii_classes (witness CPreludeVec) = [CPreludeVec].
Proof. repeat split; vm_compute; reflexivity. Qed.
