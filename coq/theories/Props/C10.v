(* C10 — property theorems only.  Each is closed by `exact <lemma>`;
   `bin/check C10` re-runs Print Assumptions on every one.

   Models: IntSelect.choose_integer   — convert_integer over Flocq binary64 (tied to the
                                         real code on the boundary lattice, every run);
           IntSelectZ.choose_integer_Z — the same control flow over Z.
   `_Z` theorems hold for ALL integer bounds / defaults / formats (the only finite thing
   is the regenerated table).  C10_refine proves the two models equal on safe_bounds
   (integral doubles |z| <= 2^53 or -2^63, 2^63, 2^64) and integral defaults; the theorems
   without suffix are the composition, on the Flocq model.

   NOT proved (stated here only): int_fits_general — the first sentence for bounds that
   are not safe (non-integral doubles, integral doubles beyond 2^53 other than the three
   limit constants), where `x + 1.0` / `x - 1.0` round.  It is FALSE for the NonZero
   sentence (C10_nonzero_refuted_F4); for the range sentence the lattice run of
   py/props/c10.py explores such bounds and has found no violation other than F6. *)
From Coq Require Import String ZArith List Bool Reals.
From Flocq Require Import Core BinarySingleNaN Binary Bits.
From Typify Require Import Gen.IntTable Algo.IntSelect Algo.IntSelectZ Spec.IntSpec
  Proofs.IntSelectProofs Proofs.IntSelectRefine Proofs.IntSelectC10.
Import ListNotations.
Open Scope string_scope.
Open Scope Z_scope.

(* ---- tables ---- *)

Theorem C10_string_format_table : string_formats = documented_string_formats.
Proof. exact string_format_table. Qed.

Theorem C10_string_unknown_is_String :
  forall f, (forall p, In p documented_string_formats -> fst p <> f) ->
            choose_string_format f = "String".
Proof. exact string_unknown_is_String. Qed.

Theorem C10_number_never_narrower :
  forall f, choose_number f = "f64" \/ (f = Some "float" /\ choose_number f = "f32").
Proof. exact number_never_narrower. Qed.

Theorem C10_table_ranges_exact :
  length int_formats_Z = length int_formats_raw /\ forallb row_ok int_formats_Z = true.
Proof. exact table_ranges_exact. Qed.

(* ---- integer-level model: every bound, default and format ---- *)

(* every admitted integer of the format's range fits the chosen type, except on
   the class of finding C10-F6.  admittedZ ignores multipleOf, which can only
   remove integers; add1/sub1 saturate outside +-2^53 exactly as the doubles do. *)
Theorem C10_int_fits_Z :
  forall fmt b d ty,
    choose_integer_Z fmt b d = Chosen ty ->
    ~ Known_F6 fmt b ->
    forall n, admittedZ b n -> in_base fmt n -> in_ty ty n.
Proof. exact int_fits_Z. Qed.

Theorem C10_Known_F6_decidable :
  forall fmt b, Known_F6 fmt b <-> known_F6b fmt b = true.
Proof. exact Known_F6_dec. Qed.

Theorem C10_int_fits_Z_refuted_F6 :
  exists fmt b d ty n,
    choose_integer_Z fmt b d = Chosen ty /\ known_F6b fmt b = true /\
    admittedZb b n = true /\ in_base fmt n /\ ~ in_ty ty n.
Proof. exact int_fits_Z_refuted_F6. Qed.

(* the exclusion is exact: every member of the class fails *)
Theorem C10_F6_class_fails :
  forall fmt b,
    Known_F6 fmt b -> zb_mult b = false ->
    choose_integer_Z fmt b None = Chosen "i64" /\
    admittedZ b (2^63) /\ in_base fmt (2^63) /\ ~ in_ty "i64" (2^63).
Proof. exact F6_class_fails. Qed.

Theorem C10_nonzero_only_if_zero_excluded_Z :
  forall fmt b d ty,
    choose_integer_Z fmt b d = Chosen ty -> nonzero_ty ty -> ~ admittedZ b 0.
Proof. exact nonzero_only_if_zero_excluded_Z. Qed.

(* what convert_integer itself guarantees about a default (add-time check inside
   convert_integer only):
   (1) below the normalised minimum / above the normalised maximum: rejected on every path;
   (2) exact-format path: outside the format's limits (as doubles): rejected;
   (3) off the exact path the format's limit is enforced only on a side the schema
       leaves unbounded;
   (4) an accepted default with chosen type u64 is not negative (covers the u64 fallback);
   (5) a non-numeric default is rejected everywhere but on the exact path. *)
Theorem C10_default_out_of_range_rejected_Z :
  forall fmt b v,
  ((exists m, znorm_min b = Some m /\ v < m) \/ (exists m, znorm_max b = Some m /\ m < v) ->
     choose_integer_Z fmt b (Some (Some v)) = ErrInvalidValue) /\
  (forall r, row_of fmt = Some r -> exact_path r b = true -> v < z_lo r \/ z_hi r < v ->
     choose_integer_Z fmt b (Some (Some v)) = ErrInvalidValue) /\
  (forall r, row_of fmt = Some r -> exact_path r b = false ->
     (znorm_min b = None /\ v < z_lo r) \/ (znorm_max b = None /\ z_hi r < v) ->
     choose_integer_Z fmt b (Some (Some v)) = ErrInvalidValue) /\
  (choose_integer_Z fmt b (Some (Some v)) = Chosen "u64" -> 0 <= v) /\
  (forall ty, choose_integer_Z fmt b (Some None) = Chosen ty ->
     exists r, row_of fmt = Some r /\ exact_path r b = true).
Proof. exact default_out_of_range_rejected_Z. Qed.

Theorem C10_default_not_admitted_rejected_Z :
  forall fmt b v,
    small_exclusive b -> ~ admittedZ b v ->
    choose_integer_Z fmt b (Some (Some v)) = ErrInvalidValue.
Proof. exact default_not_admitted_rejected_Z. Qed.

Theorem C10_never_narrower_than_format :
  forall fmt, choose_integer_Z fmt no_bounds None = Chosen (base_ty fmt).
Proof. exact never_narrower_than_format. Qed.

(* ---- refinement: Flocq model = integer-level model on safe inputs ---- *)

Theorem C10_refine :
  forall fmt b d,
    safe_bounds b -> safe_default d ->
    choose_integer fmt b d = choose_integer_Z fmt (zb_of b) (zd_of d).
Proof. exact choose_integer_refines. Qed.

(* the domain of C10_refine is decidable by the test the correspondence run uses *)
Theorem C10_safe_decidable :
  forall b d, (safe_bounds b <-> safe_boundsb b = true) /\ (safe_default d <-> safe_defaultb d = true).
Proof. exact (fun b d => conj (safe_bounds_b b) (safe_default_b d)). Qed.

(* ---- the property on the Flocq model (admitted: exact real comparisons against the
        stored doubles, multipleOf included; any default) ---- *)

Theorem C10_int_fits :
  forall fmt b d ty,
    safe_bounds b -> choose_integer fmt b d = Chosen ty -> ~ Known_F6 fmt (zb_of b) ->
    forall n, admitted b n -> in_base fmt n -> in_ty ty n.
Proof. exact int_fits. Qed.

Theorem C10_int_fits_refuted_F6 :
  exists fmt b ty n,
    safe_bounds b /\ known_F6b fmt (zb_of b) = true /\ choose_integer fmt b None = Chosen ty /\
    admitted b n /\ in_base fmt n /\ ~ in_ty ty n.
Proof. exact int_fits_refuted_F6. Qed.

Theorem C10_nonzero_only_if_zero_excluded :
  forall fmt b d ty,
    safe_bounds b -> choose_integer fmt b d = Chosen ty -> nonzero_ty ty -> ~ admitted b 0.
Proof. exact nonzero_only_if_zero_excluded. Qed.

(* finding C10-F4: without safe_bounds the previous statement is false *)
Theorem C10_nonzero_refuted_F4 :
  exists b ty, choose_integer None b None = Chosen ty /\ nonzero_ty ty /\ admitted b 0 /\ ~ safe_bounds b.
Proof. exact nonzero_refuted_F4. Qed.

Theorem C10_default_out_of_range_rejected :
  forall fmt b v z,
    safe_bounds b -> exact v z ->
    choose_integer fmt b (Some (Some v)) = choose_integer_Z fmt (zb_of b) (Some (Some z)).
Proof. exact default_out_of_range_rejected. Qed.

Theorem C10_default_not_admitted_rejected :
  forall fmt b v z,
    safe_bounds b -> exact v z -> small_exclusive (zb_of b) -> ~ admittedZ (zb_of b) z ->
    choose_integer fmt b (Some (Some v)) = ErrInvalidValue.
Proof. exact default_not_admitted_rejected. Qed.

Theorem C10_never_narrower_than_format_f :
  forall fmt, choose_integer fmt no_fbounds None = Chosen (base_ty fmt).
Proof. exact never_narrower_than_format_f. Qed.

(* ---- non-vacuity: the hypotheses are satisfiable and the outcomes occur ---- *)

(* minimum 1, maximum 200, format uint8 *)
Definition ex_b1 : bounds := mkb (Some 4607182418800017408) (Some 4641240890982006784) None None None.
Example C10_ex_safe : safe_bounds ex_b1 /\ ~ Known_F6 (Some "uint8") (zb_of ex_b1).
Proof.
  split; [apply safe_bounds_b; vm_compute; reflexivity|].
  intros H. apply Known_F6_dec in H. vm_compute in H. discriminate H.
Qed.
Example C10_ex_nonzero : choose_integer (Some "uint8") ex_b1 None = Chosen "::std::num::NonZeroU8".
Proof. vm_compute. reflexivity. Qed.
Example C10_ex_admitted : admittedZ (zb_of ex_b1) 200 /\ in_base (Some "uint8") 200 /\ ~ admittedZ (zb_of ex_b1) 0.
Proof.
  split; [|split].
  - unfold admittedZ, ole, oge, olt, ogt. repeat split; intros m Hm; vm_compute in Hm; inversion Hm; subst; intro; discriminate.
  - unfold in_base, in_ty. vm_compute. split; intro; discriminate.
  - intros (H & _). specialize (H 1 eq_refl). vm_compute in H. apply H. reflexivity.
Qed.
(* a lone maximum of 255 no longer selects u8 (typify e147660) *)
Example C10_ex_lone_max :
  choose_integer_Z None {| zb_min := None; zb_max := Some 255; zb_emin := None; zb_emax := None; zb_mult := false |} None
  = Chosen "i64".
Proof. vm_compute. reflexivity. Qed.
(* format uint8, minimum 10, default 5 is rejected (typify e726c03) *)
Example C10_ex_default :
  choose_integer_Z (Some "uint8") {| zb_min := Some 10; zb_max := None; zb_emin := None; zb_emax := None; zb_mult := false |}
    (Some (Some 5)) = ErrInvalidValue.
Proof. vm_compute. reflexivity. Qed.
(* a negative default on the u64 fallback is rejected (typify 36ec009) *)
Example C10_ex_u64_fallback :
  choose_integer_Z (Some "uint64") {| zb_min := None; zb_max := None; zb_emin := None; zb_emax := None; zb_mult := true |}
    (Some (Some (-1))) = ErrInvalidValue
  /\ choose_integer_Z (Some "uint64") {| zb_min := None; zb_max := Some 5; zb_emin := None; zb_emax := None; zb_mult := true |}
    (Some (Some 3)) = Chosen "u64".
Proof. split; vm_compute; reflexivity. Qed.
