(* C10 — property theorems only.  Each is closed by `exact <lemma>` and pinned
   by `Check`; `bin/check C10` re-runs Print Assumptions on every one. *)
From Coq Require Import String ZArith List Bool.
From Typify Require Import Gen.IntTable Algo.IntSelect Algo.IntSelectZ Spec.IntSpec Proofs.IntSelectProofs.
Import ListNotations.
Open Scope string_scope.
Open Scope Z_scope.

Theorem C10_string_format_table : string_formats = documented_string_formats.
Proof. exact string_format_table. Qed.

Theorem C10_string_unknown_is_String :
  forall f, (forall p, In p documented_string_formats -> fst p <> f) ->
            choose_string_format f = "String".
Proof. exact string_unknown_is_String. Qed.

Theorem C10_number_never_narrower :
  forall f, choose_number f = "f64" \/ (f = Some "float" /\ choose_number f = "f32").
Proof. exact number_never_narrower. Qed.

Theorem C10_table_ranges_exact :
  length int_formats_Z = length int_formats_raw /\ forallb row_ok int_formats_Z = true.
Proof. exact table_ranges_exact. Qed.
