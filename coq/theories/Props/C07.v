(* C07 — property theorems only (recursive schemas produce finitely sized
   types).  Model: Algo/Cycles.v (break_cycles / id_to_box / get_child_ids of
   typify-impl, line by line).  Proofs: Proofs/Cycles{,Frame,Fuel}Proofs.v.

   Vocabulary
     space            = (id_to_entry as graph, Box slice of type_to_id, next_id)
     edge g a b       = b is a by-value child slot of a (get_child_ids kinds;
                        Box/Vec/Set/Map/leaf have none)
     cyclic g n       = n ->+ n along by-value edges
     reachable g lo hi n = r ->* n for some root lo <= r < hi
     wf s             = box index consistent with entries, all ids < next_id
     closed s lo hi   = every by-value child id and every root resolves
   All theorems quantify over ALL graphs, ranges and (where present) fuel. *)
From Coq Require Import NArith List Bool String Relations.
From Typify Require Import Algo.Cycles Proofs.CyclesProofs Proofs.CyclesFrameProofs Proofs.CyclesFuelProofs
  Proofs.CyclesSpecProofs.
Import ListNotations.
Open Scope N_scope.

(* (a) every containment cycle is cut: after a normal return no node reachable
   from the roots lies on a by-value cycle.  (Closedness is not needed: an
   unresolved id makes the run Panic, never Done.) *)
Theorem C07_acyclic : forall fuel s lo hi s',
    wf s -> break_cycles fuel s lo hi = Done s' ->
    forall n, reachable (sp_g s') lo hi n -> ~ cyclic (sp_g s') n.
Proof. exact break_cycles_acyclic. Qed.

(* (b) fuel: with fuel_bound s = 3*slots+4 per root (or more) a closed
   well-formed space never runs out of fuel and never panics (assert!/unwrap) *)
Theorem C07_fuel : forall fuel s lo hi,
    wf s -> closed s lo hi -> (fuel_bound s <= fuel)%nat ->
    exists s', break_cycles fuel s lo hi = Done s'.
Proof. exact break_cycles_total. Qed.

(* (a)+(b) headline *)
Theorem C07_recursive_finite : forall s lo hi,
    wf s -> closed s lo hi ->
    exists s', break_cycles (fuel_bound s) s lo hi = Done s' /\
               forall n, reachable (sp_g s') lo hi n -> ~ cyclic (sp_g s') n.
Proof.
  intros s lo hi Hwf Hcl.
  destruct (break_cycles_total (fuel_bound s) s lo hi Hwf Hcl (le_n _)) as [s' H].
  exists s'. split; [exact H|]. exact (break_cycles_acyclic _ _ _ _ _ Hwf H).
Qed.

(* (c) indirection only to cut a cycle: no by-value cycle reachable from the
   roots => the whole space (entries, box index, next_id) is returned unchanged *)
Theorem C07_minimal : forall fuel s lo hi s',
    wf s -> break_cycles fuel s lo hi = Done s' ->
    (forall n, reachable (sp_g s) lo hi n -> ~ cyclic (sp_g s) n) ->
    s' = s.
Proof. exact break_cycles_minimal. Qed.

(* (d) frame: new entries are Boxes; every old entry keeps its shape and each
   child slot c is either unchanged or now points to a Box of c, and then
   c ->* n in the INPUT graph (c was on the DFS stack when n was entered), so
   the slot n -> c lay on an input cycle reachable from the roots *)
Theorem C07_frame : forall fuel s lo hi s',
    wf s -> break_cycles fuel s lo hi = Done s' ->
    (forall n, lookup (sp_g s) n = None ->
               lookup (sp_g s') n = None \/ exists t, lookup (sp_g s') n = Some (NBox t)) /\
    (forall n nd, lookup (sp_g s) n = Some nd ->
       exists f, lookup (sp_g s') n = Some (map_children f nd) /\
                 forall c, In c (children nd) ->
                           f c = c \/
                           (lookup (sp_g s') (f c) = Some (NBox c) /\
                            clos_refl_trans N (edge (sp_g s)) c n /\
                            reachable (sp_g s) lo hi n)) /\
    sp_next s <= sp_next s'.
Proof. exact break_cycles_frame. Qed.

(* proven checkers evaluated by bin/check on real type spaces *)
Theorem C07_acyclic_check_sound : forall g,
    acyclic_check g = true -> forall n, ~ cyclic g n.
Proof. exact acyclic_check_sound. Qed.

Theorem C07_wf_check_sound : forall s, bidx_ok_b s && fresh_b s = true -> wf s.
Proof. exact wf_check_sound. Qed.

Theorem C07_closed_check_sound : forall s lo hi, closed_b s lo hi = true -> closed s lo hi.
Proof. exact closed_check_sound. Qed.

(* ---- algorithm's child relation (get_child_ids) vs. the SPECIFICATION's
   by-value containment of the generated Rust (spec_children: additionally the
   type parameters of a native generic type, x-rust-type `parameters`).

   Full statement wanted:  forall nd, children nd = spec_children nd,  hence
   C07_acyclic for spec_cyclic on every graph.  REFUTED by the code as it is
   (finding C07-2): get_child_ids ignores Native parameters, so
   `struct A { f: ::std::option::Option<A> }` is emitted (rustc E0072). *)
Theorem C07_children_eq_spec_partial : forall nd,
    (forall ps, nd = NNative ps -> ps = []) -> children nd = spec_children nd.
Proof. exact children_eq_spec_partial. Qed.

Theorem C07_children_eq_spec_refuted : exists nd, children nd <> spec_children nd.
Proof. exact children_eq_spec_refuted. Qed.

(* (a) for the specification relation, with the exclusion of class Known_2
   (some entry is a native type with a non-empty parameter list) *)
Theorem C07_acyclic_spec : forall fuel s lo hi s',
    wf s -> break_cycles fuel s lo hi = Done s' ->
    ~ Known_2 (sp_g s') ->
    forall n, spec_reachable (sp_g s') lo hi n -> ~ spec_cyclic (sp_g s') n.
Proof. exact break_cycles_acyclic_spec. Qed.

(* the exclusion is not vacuous and not wider than the defect: inside the
   class the property fails on the witness of findings/C07.json *)
Theorem C07_Known_2_fails :
  exists s lo hi s',
    wf s /\ closed s lo hi /\ break_cycles (fuel_bound s) s lo hi = Done s' /\
    Known_2 (sp_g s') /\
    exists n, spec_reachable (sp_g s') lo hi n /\ spec_cyclic (sp_g s') n.
Proof. exact known_2_fails. Qed.

Theorem C07_spec_acyclic_check_sound : forall g,
    spec_acyclic_check g = true -> forall n, ~ spec_cyclic g n.
Proof. exact spec_acyclic_check_sound. Qed.

(* ------------------------------------------------------------ non-vacuity *)

(* A{b: B?}, B{next: B?} with the shared Option<B> node (DESIGN 3.7) *)
Definition ex_AB : space :=
  mkSpace [(0, NStruct [2]); (1, NStruct [2]); (2, NOption 1)] [] 3.

Example C07_ex_AB_hyps : wf ex_AB /\ closed ex_AB 0 2.
Proof.
  split; [apply wf_check_sound|apply closed_check_sound]; vm_compute; reflexivity.
Qed.

Example C07_ex_AB_cyclic_before : cyclic (sp_g ex_AB) 1.
Proof.
  unfold cyclic. apply t_trans with (y := 2); apply t_step; vm_compute; auto.
Qed.

Example C07_ex_AB_result :
  break_cycles (fuel_bound ex_AB) ex_AB 0 2 =
  Done (mkSpace [(0, NStruct [2]); (1, NStruct [3]); (2, NOption 1); (3, NBox 2)] [(2, 3)] 4).
Proof. vm_compute. reflexivity. Qed.

(* diamond: acyclic, so the hypothesis of C07_minimal is satisfiable *)
Definition ex_diamond : space :=
  mkSpace [(0, NStruct [1; 2]); (1, NStruct [3]); (2, NEnum [VSimple; VItem 3]); (3, NLeaf)] [] 4.

Example C07_ex_diamond_acyclic :
  wf ex_diamond /\ forall n, reachable (sp_g ex_diamond) 0 4 n -> ~ cyclic (sp_g ex_diamond) n.
Proof.
  split; [apply wf_check_sound; vm_compute; reflexivity|].
  intros n _. apply acyclic_check_sound. vm_compute. reflexivity.
Qed.

Example C07_ex_diamond_unchanged :
  break_cycles (fuel_bound ex_diamond) ex_diamond 0 4 = Done ex_diamond.
Proof. vm_compute. reflexivity. Qed.

(* Known finding C07-1 (findings/C07.json): the schema {BXy:{q:b}, b:{xy:{z}}}
   has no containment cycle, but the converter aliases b.xy's inline object to
   the definition BXy.  The IR handed to break_cycles then really IS cyclic, so
   the Box is what C07_frame prescribes; the defect is upstream (assign_type),
   outside this model.  Pre-snapshot of the witness: *)
Definition ex_known1 : space :=
  mkSpace [(1, NStruct [2]); (2, NStruct [1]); (3, NLeaf)] [] 4.

Example C07_known_1_ir_has_cycle :
  cyclic (sp_g ex_known1) 1 /\
  break_cycles (fuel_bound ex_known1) ex_known1 1 3 =
  Done (mkSpace [(1, NStruct [2]); (2, NStruct [4]); (3, NLeaf); (4, NBox 1)] [(1, 4)] 5).
Proof.
  split.
  - unfold cyclic. apply t_trans with (y := 2); apply t_step; vm_compute; auto.
  - vm_compute. reflexivity.
Qed.
