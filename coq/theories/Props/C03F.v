(* Props/C03F.v -- C03 (round trip) with the quantifier over SCHEMAS closed on
   the converter fragment.  Statements only (proofs: Proofs/ConvertShapeProofs.v,
   Proofs/ConvertRtProofs.v; model: Algo/Convert.v; report: notes/Convert.md).

   For every document of the fragment, the set of ALL type ids of the space the
   modelled converter produces is closed under children and every entry
   satisfies the local condition [node_ok] of C03's class
   (C03F_convert_rt_set), and the class [rt_simple] of C03 itself holds for
   every type (C03F_convert_rt_simple: the worklist of [rt_simple] is proved to
   compute a closed set on these spaces).  Hence, for EVERY type of EVERY
   fragment document and every instance it accepts: serialisation succeeds, the
   output re-deserialises to the SAME value at every larger fuel, `null` only
   comes from `null` (C03F_fragment_roundtrip), and declared data is kept
   (C03F_fragment_contains) - the statements of C03_rt_fixed_point /
   C03_ser_total / C03_rt_idempotent / C03_rt_contains, obtained from the same
   cores (rt_core, contains_core), with no fragment kind excluded. *)
From Coq Require Import String ZArith NArith QArith List Bool.
From Typify Require Import Base.Json Spec.Schema Spec.Valid IR.TypeIR IR.Serde Check.RoundTrip.
From Typify Require Algo.Heck Algo.Sanitize.
From Typify Require Import Algo.Convert Proofs.ConvertRtProofs.
Import ListNotations.
Close Scope Q_scope.
Close Scope string_scope.
Open Scope list_scope.
Open Scope nat_scope.

Theorem C03F_convert_rt_set :
  forall (cls : Heck.CharClasses) (D : defs) (T : space),
    in_frag cls D = true -> convert_doc cls D = Some T -> rt_set T (all_ids T) = true.
Proof. exact convert_rt_set. Qed.

(* the checker-defined class of C03, literally: [rt_simple] (whose worklist [reach] is proved here to
   compute a closed set on these spaces) answers `true` on EVERY type of EVERY fragment document, so
   C03_ser_total, C03_rt_idempotent, C03_rt_fixed_point, C03_rt_contains, C03_rt_null_only_from_null
   apply as they stand *)
Theorem C03F_convert_rt_simple :
  forall (cls : Heck.CharClasses) (D : defs) (T : space),
    in_frag cls D = true -> convert_doc cls D = Some T ->
    forall t, get T t <> None -> rt_simple T t = true.
Proof. exact convert_rt_simple. Qed.

Theorem C03F_fragment_roundtrip :
  forall (cls : Heck.CharClasses) (re native : ustring -> ustring -> bool) (D : defs) (T : space),
    in_frag cls D = true -> convert_doc cls D = Some T ->
    forall t, get T t <> None ->
    forall f v x, de re native T f t v = Some x ->
    exists w, (forall g, f < g -> ser T g t x = Some w /\ de re native T g t w = Some x)
              /\ (w = JNull -> v = JNull).
Proof. exact fragment_roundtrip. Qed.

Theorem C03F_fragment_contains :
  forall (cls : Heck.CharClasses) (re native : ustring -> ustring -> bool) (D : defs) (T : space),
    in_frag cls D = true -> convert_doc cls D = Some T ->
    forall t, get T t <> None ->
    forall f v x, de re native T f t v = Some x -> decl_only T f t v = true ->
    forall g w, f < g -> ser T g t x = Some w -> contained (prune v) (prune w).
Proof. exact fragment_contains. Qed.

(* ------------------------------------------------------------------ non-vacuity: the tree document of Props/C02F.v *)
Definition D_ex : defs := [([67; 111; 108; 111; 114]%N, (SObj (Some [TString]) None (Some [(JStr [114; 101; 100]%N); (JStr [100; 97; 114; 107; 45; 98; 108; 117; 101]%N)]) None (mkNumv None None None None None) (mkStrv None None None) ItemsAbsent (@nil schema) None None None false (@nil (ustring * schema)) (@nil ustring) None None None None None None None None None None)); ([78; 111; 100; 101]%N, (SObj (Some [TObject]) None None None (mkNumv None None None None None) (mkStrv None None None) ItemsAbsent (@nil schema) None None None false [([99; 104; 105; 108; 100; 114; 101; 110]%N, (SObj (Some [TArray]) None None None (mkNumv None None None None None) (mkStrv None None None) ItemsSingle [(SObj None None None None (mkNumv None None None None None) (mkStrv None None None) ItemsAbsent (@nil schema) None None None false (@nil (ustring * schema)) (@nil ustring) None None None None None None None (Some [78; 111; 100; 101]%N) None None)] None None None false (@nil (ustring * schema)) (@nil ustring) None None None None None None None None None None)); ([99; 111; 108; 111; 114]%N, (SObj None None None None (mkNumv None None None None None) (mkStrv None None None) ItemsAbsent (@nil schema) None None None false (@nil (ustring * schema)) (@nil ustring) None None None None None None None (Some [67; 111; 108; 111; 114]%N) None None)); ([108; 97; 98; 101; 108]%N, (SObj (Some [TString; TNull]) None None None (mkNumv None None None None None) (mkStrv None None None) ItemsAbsent (@nil schema) None None None false (@nil (ustring * schema)) (@nil ustring) None None None None None None None None None None)); ([109; 101; 116; 97]%N, (SObj (Some [TObject]) None None None (mkNumv None None None None None) (mkStrv None None None) ItemsAbsent (@nil schema) None None None false (@nil (ustring * schema)) (@nil ustring) (Some (SObj (Some [TInteger]) (Some [105; 110; 116; 51; 50]%N) None None (mkNumv None None None None None) (mkStrv None None None) ItemsAbsent (@nil schema) None None None false (@nil (ustring * schema)) (@nil ustring) None None None None None None None None None None)) None None None None None None None None None)); ([112; 111; 115]%N, (SObj (Some [TObject]) None None None (mkNumv None None None None None) (mkStrv None None None) ItemsAbsent (@nil schema) None None None false [([120]%N, (SObj (Some [TNumber]) None None None (mkNumv None None None None None) (mkStrv None None None) ItemsAbsent (@nil schema) None None None false (@nil (ustring * schema)) (@nil ustring) None None None None None None None None None None)); ([121]%N, (SObj (Some [TNumber]) None None None (mkNumv None None None None None) (mkStrv None None None) ItemsAbsent (@nil schema) None None None false (@nil (ustring * schema)) (@nil ustring) None None None None None None None None None None))] [[120]%N; [121]%N] (Some (SBool false)) None None None None None None None None None))] [[99; 111; 108; 111; 114]%N] None None None None None None None None None None)); ([84; 97; 103]%N, (SObj (Some [TString; TNull]) None None None (mkNumv None None None None None) (mkStrv None None None) ItemsAbsent (@nil schema) None None None false (@nil (ustring * schema)) (@nil ustring) None None None None None None None None None None))].
Definition T_ex : space := (mkSpace [(1%N, (mkEntry (DEnum [67; 111; 108; 111; 114]%N None TagExternal [(mkVariant [114; 101; 100]%N [82; 101; 100]%N VSimple); (mkVariant [100; 97; 114; 107; 45; 98; 108; 117; 101]%N [68; 97; 114; 107; 66; 108; 117; 101]%N VSimple)] false [AllSimpleVariants]) (@nil ustring))); (2%N, (mkEntry (DStruct [78; 111; 100; 101]%N None [(mkProp [99; 104; 105; 108; 100; 114; 101; 110]%N RNone POptional 4%N); (mkProp [99; 111; 108; 111; 114]%N RNone PRequired 1%N); (mkProp [108; 97; 98; 101; 108]%N RNone POptional 6%N); (mkProp [109; 101; 116; 97]%N RNone POptional 8%N); (mkProp [112; 111; 115]%N RNone POptional 11%N)] false) (@nil ustring))); (3%N, (mkEntry (DNewtype [84; 97; 103]%N None 6%N CNone) (@nil ustring))); (4%N, (mkEntry (DVec 2%N) (@nil ustring))); (5%N, (mkEntry DString (@nil ustring))); (6%N, (mkEntry (DOption 5%N) (@nil ustring))); (7%N, (mkEntry (DInteger [105; 51; 50]%N) (@nil ustring))); (8%N, (mkEntry (DMap 5%N 7%N) (@nil ustring))); (9%N, (mkEntry (DFloat [102; 54; 52]%N) (@nil ustring))); (10%N, (mkEntry (DStruct [78; 111; 100; 101; 80; 111; 115]%N None [(mkProp [120]%N RNone PRequired 9%N); (mkProp [121]%N RNone PRequired 9%N)] true) (@nil ustring))); (11%N, (mkEntry (DOption 10%N) (@nil ustring)))] 12%N (mkSettings None (@nil ustring) false [58; 58; 32; 115; 116; 100; 32; 58; 58; 32; 99; 111; 108; 108; 101; 99; 116; 105; 111; 110; 115; 32; 58; 58; 32; 72; 97; 115; 104; 77; 97; 112]%N) false false false false (@nil ustring)).
Definition v_ex : json := (JObj [([99; 104; 105; 108; 100; 114; 101; 110]%N, (JArr [(JObj [([99; 104; 105; 108; 100; 114; 101; 110]%N, (JArr (@nil json))); ([99; 111; 108; 111; 114]%N, (JStr [100; 97; 114; 107; 45; 98; 108; 117; 101]%N))])])); ([99; 111; 108; 111; 114]%N, (JStr [114; 101; 100]%N)); ([108; 97; 98; 101; 108]%N, JNull); ([109; 101; 116; 97]%N, (JObj [([97]%N, (JInt (1)%Z))])); ([112; 111; 115]%N, (JObj [([120]%N, (JInt (1)%Z)); ([121]%N, (JFlt (Qmake (5)%Z 2%positive)))]))]).

Definition no_re3 : ustring -> ustring -> bool := fun _ _ => false.

Example C03F_ex_in_frag : in_frag Sanitize.ascii_classes D_ex = true.
Proof. vm_compute. reflexivity. Qed.

Example C03F_ex_convert : convert_doc Sanitize.ascii_classes D_ex = Some T_ex.
Proof. vm_compute. reflexivity. Qed.

(* the checker-defined class of C03 agrees on this space: every type is rt_simple *)
Example C03F_ex_rt_simple : forallb (rt_simple T_ex) (all_ids T_ex) = true.
Proof. vm_compute. reflexivity. Qed.

(* the instance is accepted, its output is a fixed point and contains the (pruned) input;
   the output differs from the input (the null member is omitted) *)
Example C03F_ex_roundtrip :
  exists x w, de no_re3 no_re3 T_ex 20 2%N v_ex = Some x /\
    (forall g, 20 < g -> ser T_ex g 2%N x = Some w /\ de no_re3 no_re3 T_ex g 2%N w = Some x) /\
    contained (prune v_ex) (prune w) /\ json_eqb v_ex w = false.
Proof.
  destruct (de no_re3 no_re3 T_ex 20 2%N v_ex) as [x|] eqn:Hd; [|vm_compute in Hd; discriminate].
  destruct (C03F_fragment_roundtrip Sanitize.ascii_classes no_re3 no_re3 D_ex T_ex C03F_ex_in_frag C03F_ex_convert
              2%N ltac:(vm_compute; discriminate) 20 v_ex x Hd) as (w & Hw & _).
  exists x, w. split; [reflexivity|]. split; [exact Hw|].
  destruct (Hw 21 (Nat.lt_succ_diag_r 20)) as [Hs _].
  split.
  - apply (C03F_fragment_contains Sanitize.ascii_classes no_re3 no_re3 D_ex T_ex C03F_ex_in_frag C03F_ex_convert
             2%N ltac:(vm_compute; discriminate) 20 v_ex x Hd ltac:(vm_compute; reflexivity) 21 w
             (Nat.lt_succ_diag_r 20) Hs).
  - vm_compute in Hd. injection Hd as <-. vm_compute in Hs. injection Hs as <-. vm_compute. reflexivity.
Qed.

(* ------------------------------------------------------------------ oneOf -> externally tagged enums
   (corpus/convert/enum_external_example.json, T_enum = the REAL type space): unit, newtype, struct and tuple
   variants, a nullable payload, recursion through a Vec *)
Definition D_enum : defs := [([80]%N, (SObj (Some [TObject]) None None None (mkNumv None None None None None) (mkStrv None None None) ItemsAbsent (@nil schema) None None None false [([122]%N, (SObj (Some [TBoolean]) None None None (mkNumv None None None None None) (mkStrv None None None) ItemsAbsent (@nil schema) None None None false (@nil (ustring * schema)) (@nil ustring) None None None None None None None None None None))] [[122]%N] None None None None None None None None None None)); ([83; 104; 97; 112; 101]%N, (SObj None None None None (mkNumv None None None None None) (mkStrv None None None) ItemsAbsent (@nil schema) None None None false (@nil (ustring * schema)) (@nil ustring) None None None None None (Some [(SObj (Some [TString]) None (Some [(JStr [117; 110; 105; 116]%N); (JStr [111; 116; 104; 101; 114; 45; 111; 110; 101]%N)]) None (mkNumv None None None None None) (mkStrv None None None) ItemsAbsent (@nil schema) None None None false (@nil (ustring * schema)) (@nil ustring) None None None None None None None None None None); (SObj (Some [TObject]) None None None (mkNumv None None None None None) (mkStrv None None None) ItemsAbsent (@nil schema) None None None false [([99; 105; 114; 99; 108; 101]%N, (SObj (Some [TNumber]) None None None (mkNumv None None None None None) (mkStrv None None None) ItemsAbsent (@nil schema) None None None false (@nil (ustring * schema)) (@nil ustring) None None None None None None None None None None))] [[99; 105; 114; 99; 108; 101]%N] (Some (SBool false)) None None None None None None None None None); (SObj (Some [TObject]) None None None (mkNumv None None None None None) (mkStrv None None None) ItemsAbsent (@nil schema) None None None false [([114; 101; 99; 116]%N, (SObj (Some [TObject]) None None None (mkNumv None None None None None) (mkStrv None None None) ItemsAbsent (@nil schema) None None None false [([104]%N, (SObj (Some [TInteger]) None None None (mkNumv None None None None None) (mkStrv None None None) ItemsAbsent (@nil schema) None None None false (@nil (ustring * schema)) (@nil ustring) None None None None None None None None None None)); ([119]%N, (SObj (Some [TInteger]) None None None (mkNumv None None None None None) (mkStrv None None None) ItemsAbsent (@nil schema) None None None false (@nil (ustring * schema)) (@nil ustring) None None None None None None None None None None))] [[104]%N; [119]%N] (Some (SBool false)) None None None None None None None None None))] [[114; 101; 99; 116]%N] (Some (SBool false)) None None None None None None None None None); (SObj (Some [TObject]) None None None (mkNumv None None None None None) (mkStrv None None None) ItemsAbsent (@nil schema) None None None false [([112; 97; 105; 114]%N, (SObj (Some [TArray]) None None None (mkNumv None None None None None) (mkStrv None None None) ItemsTuple [(SObj (Some [TString]) None None None (mkNumv None None None None None) (mkStrv None None None) ItemsAbsent (@nil schema) None None None false (@nil (ustring * schema)) (@nil ustring) None None None None None None None None None None); (SObj (Some [TInteger]) None None None (mkNumv None None None None None) (mkStrv None None None) ItemsAbsent (@nil schema) None None None false (@nil (ustring * schema)) (@nil ustring) None None None None None None None None None None)] None (Some 2%N) (Some 2%N) false (@nil (ustring * schema)) (@nil ustring) None None None None None None None None None None))] [[112; 97; 105; 114]%N] (Some (SBool false)) None None None None None None None None None); (SObj (Some [TObject]) None None None (mkNumv None None None None None) (mkStrv None None None) ItemsAbsent (@nil schema) None None None false [([108; 97; 98; 101; 108]%N, (SObj (Some [TString; TNull]) None None None (mkNumv None None None None None) (mkStrv None None None) ItemsAbsent (@nil schema) None None None false (@nil (ustring * schema)) (@nil ustring) None None None None None None None None None None))] [[108; 97; 98; 101; 108]%N] (Some (SBool false)) None None None None None None None None None); (SObj (Some [TObject]) None None None (mkNumv None None None None None) (mkStrv None None None) ItemsAbsent (@nil schema) None None None false [([115; 117; 98]%N, (SObj None None None None (mkNumv None None None None None) (mkStrv None None None) ItemsAbsent (@nil schema) None None None false (@nil (ustring * schema)) (@nil ustring) None None None None None None None (Some [80]%N) None None))] [[115; 117; 98]%N] (Some (SBool false)) None None None None None None None None None); (SObj (Some [TObject]) None None None (mkNumv None None None None None) (mkStrv None None None) ItemsAbsent (@nil schema) None None None false [([109; 97; 110; 121]%N, (SObj (Some [TArray]) None None None (mkNumv None None None None None) (mkStrv None None None) ItemsSingle [(SObj None None None None (mkNumv None None None None None) (mkStrv None None None) ItemsAbsent (@nil schema) None None None false (@nil (ustring * schema)) (@nil ustring) None None None None None None None (Some [83; 104; 97; 112; 101]%N) None None)] None None None false (@nil (ustring * schema)) (@nil ustring) None None None None None None None None None None))] [[109; 97; 110; 121]%N] (Some (SBool false)) None None None None None None None None None)]) None None None None)); ([85; 115; 101; 114]%N, (SObj (Some [TObject]) None None None (mkNumv None None None None None) (mkStrv None None None) ItemsAbsent (@nil schema) None None None false [([105; 110; 108; 105; 110; 101]%N, (SObj None None None None (mkNumv None None None None None) (mkStrv None None None) ItemsAbsent (@nil schema) None None None false (@nil (ustring * schema)) (@nil ustring) None None None None None (Some [(SObj (Some [TString]) None (Some [(JStr [111; 110]%N); (JStr [111; 102; 102]%N)]) None (mkNumv None None None None None) (mkStrv None None None) ItemsAbsent (@nil schema) None None None false (@nil (ustring * schema)) (@nil ustring) None None None None None None None None None None); (SObj (Some [TObject]) None None None (mkNumv None None None None None) (mkStrv None None None) ItemsAbsent (@nil schema) None None None false [([108; 101; 118; 101; 108]%N, (SObj (Some [TInteger]) (Some [117; 105; 110; 116; 56]%N) None None (mkNumv None None None None None) (mkStrv None None None) ItemsAbsent (@nil schema) None None None false (@nil (ustring * schema)) (@nil ustring) None None None None None None None None None None))] [[108; 101; 118; 101; 108]%N] (Some (SBool false)) None None None None None None None None None)]) None None None None)); ([115; 104; 97; 112; 101]%N, (SObj None None None None (mkNumv None None None None None) (mkStrv None None None) ItemsAbsent (@nil schema) None None None false (@nil (ustring * schema)) (@nil ustring) None None None None None None None (Some [83; 104; 97; 112; 101]%N) None None))] [[105; 110; 108; 105; 110; 101]%N; [115; 104; 97; 112; 101]%N] None None None None None None None None None None))].
Definition T_enum : space := (mkSpace [(1%N, (mkEntry (DStruct [80]%N None [(mkProp [122]%N RNone PRequired 4%N)] false) (@nil ustring))); (2%N, (mkEntry (DEnum [83; 104; 97; 112; 101]%N None TagExternal [(mkVariant [117; 110; 105; 116]%N [85; 110; 105; 116]%N VSimple); (mkVariant [111; 116; 104; 101; 114; 45; 111; 110; 101]%N [79; 116; 104; 101; 114; 79; 110; 101]%N VSimple); (mkVariant [99; 105; 114; 99; 108; 101]%N [67; 105; 114; 99; 108; 101]%N (VItem 5%N)); (mkVariant [114; 101; 99; 116]%N [82; 101; 99; 116]%N (VStruct [(mkProp [104]%N RNone PRequired 6%N); (mkProp [119]%N RNone PRequired 6%N)])); (mkVariant [112; 97; 105; 114]%N [80; 97; 105; 114]%N (VTuple [7%N; 6%N])); (mkVariant [108; 97; 98; 101; 108]%N [76; 97; 98; 101; 108]%N (VItem 8%N)); (mkVariant [115; 117; 98]%N [83; 117; 98]%N (VItem 1%N)); (mkVariant [109; 97; 110; 121]%N [77; 97; 110; 121]%N (VItem 9%N))] true (@nil bespoke)) (@nil ustring))); (3%N, (mkEntry (DStruct [85; 115; 101; 114]%N None [(mkProp [105; 110; 108; 105; 110; 101]%N RNone PRequired 11%N); (mkProp [115; 104; 97; 112; 101]%N RNone PRequired 2%N)] false) (@nil ustring))); (4%N, (mkEntry DBoolean (@nil ustring))); (5%N, (mkEntry (DFloat [102; 54; 52]%N) (@nil ustring))); (6%N, (mkEntry (DInteger [105; 54; 52]%N) (@nil ustring))); (7%N, (mkEntry DString (@nil ustring))); (8%N, (mkEntry (DOption 7%N) (@nil ustring))); (9%N, (mkEntry (DVec 2%N) (@nil ustring))); (10%N, (mkEntry (DInteger [117; 56]%N) (@nil ustring))); (11%N, (mkEntry (DEnum [85; 115; 101; 114; 73; 110; 108; 105; 110; 101]%N None TagExternal [(mkVariant [111; 110]%N [79; 110]%N VSimple); (mkVariant [111; 102; 102]%N [79; 102; 102]%N VSimple); (mkVariant [108; 101; 118; 101; 108]%N [76; 101; 118; 101; 108]%N (VItem 10%N))] false (@nil bespoke)) (@nil ustring)))] 12%N (mkSettings None (@nil ustring) false [58; 58; 32; 115; 116; 100; 32; 58; 58; 32; 99; 111; 108; 108; 101; 99; 116; 105; 111; 110; 115; 32; 58; 58; 32; 72; 97; 115; 104; 77; 97; 112]%N) false false false false (@nil ustring)).
Definition v_enum : json := (JObj [([105; 110; 108; 105; 110; 101]%N, (JStr [111; 102; 102]%N)); ([115; 104; 97; 112; 101]%N, (JObj [([109; 97; 110; 121]%N, (JArr [(JStr [117; 110; 105; 116]%N); (JObj [([112; 97; 105; 114]%N, (JArr [(JStr [97]%N); (JInt (7)%Z)]))]); (JObj [([108; 97; 98; 101; 108]%N, JNull)]); (JObj [([115; 117; 98]%N, (JObj [([122]%N, (JBool true))]))]); (JObj [([114; 101; 99; 116]%N, (JObj [([104]%N, (JInt (1)%Z)); ([119]%N, (JInt (2)%Z))]))])]))]))]).

Example C03F_enum_in_frag : in_frag Sanitize.ascii_classes D_enum = true.
Proof. vm_compute. reflexivity. Qed.

Example C03F_enum_convert : convert_doc Sanitize.ascii_classes D_enum = Some T_enum.
Proof. vm_compute. reflexivity. Qed.

Example C03F_enum_rt_simple : forallb (rt_simple T_enum) (all_ids T_enum) = true.
Proof. vm_compute. reflexivity. Qed.

Example C03F_enum_roundtrip :
  exists x w, de no_re3 no_re3 T_enum 20 3%N v_enum = Some x /\
    (forall g, 20 < g -> ser T_enum g 3%N x = Some w /\ de no_re3 no_re3 T_enum g 3%N w = Some x) /\
    contained (prune v_enum) (prune w).
Proof.
  destruct (de no_re3 no_re3 T_enum 20 3%N v_enum) as [x|] eqn:Hd; [|vm_compute in Hd; discriminate].
  destruct (C03F_fragment_roundtrip Sanitize.ascii_classes no_re3 no_re3 D_enum T_enum C03F_enum_in_frag C03F_enum_convert
              3%N ltac:(vm_compute; discriminate) 20 v_enum x Hd) as (w & Hw & _).
  exists x, w. split; [reflexivity|]. split; [exact Hw|].
  destruct (Hw 21 (Nat.lt_succ_diag_r 20)) as [Hs _].
  apply (C03F_fragment_contains Sanitize.ascii_classes no_re3 no_re3 D_enum T_enum C03F_enum_in_frag C03F_enum_convert
           3%N ltac:(vm_compute; discriminate) 20 v_enum x Hd ltac:(vm_compute; reflexivity) 21 w
           (Nat.lt_succ_diag_r 20) Hs).
Qed.
