(* Props/C05F.v -- C05 ("represented constraints cannot be bypassed") with the
   quantifier over SCHEMAS closed on the converter fragment.  Statements only
   (proofs: Proofs/ConvertShapeProofs.v, Proofs/ConvertExactProofs.v; model:
   Algo/Convert.v; report: notes/Convert.md).

   For every document D of the fragment without a nullable string enum
   ([in_frag_exact cls D = true]) the proven transfer validator of C05
   (Check/Exact.v) answers `true` on the type space the modelled converter
   produces (C05F_convert_exact); with C05_exact_sound_partial: EVERY instance
   that violates a constraint of the enforced kinds - required member missing,
   extra member of a closed object, wrong JSON type, string outside the enum -
   at the root or at any position reached through "$ref" / properties / items /
   additionalProperties values is rejected by the generated Deserialize at
   every fuel (C05F_fragment_no_bypass).  Integer format ranges: the Rust type
   chosen for a format has exactly the range of the format
   (C05F_int_format_range_exact; C05_integer_range_enforced is the type side).
   The side condition is necessary: C05F_nullable_enum_refuted. *)
From Coq Require Import String ZArith NArith QArith List Bool.
From Typify Require Import Base.Json Spec.Schema Spec.Valid IR.TypeIR IR.Serde Check.Covers Check.Exact.
From Typify Require Algo.Heck Algo.Sanitize.
From Typify Require Import Algo.Convert Proofs.ConvertProofs Proofs.ConvertShapeProofs Proofs.ConvertExactProofs.
Import ListNotations.
Close Scope Q_scope.
Close Scope string_scope.
Open Scope list_scope.

(* the validator succeeds on every such document *)
Theorem C05F_convert_exact :
  forall (cls : Heck.CharClasses) (re : ustring -> ustring -> bool) (D : defs) (T : space),
    in_frag_exact cls D = true -> convert_doc cls D = Some T ->
    exact_all re D T (pairs_of D) = true.
Proof. exact convert_exact. Qed.

(* ... hence no instance violating an enforced-kind constraint is accepted *)
Theorem C05F_fragment_no_bypass :
  forall (cls : Heck.CharClasses) (re native : ustring -> ustring -> bool) (D : defs) (T : space),
    in_frag_exact cls D = true -> convert_doc cls D = Some T ->
    forall r t s, In (r, t) (pairs_of D) -> resolve_ref D r = Some s ->
    forall v, viol re D s v ->
    forall f, de re native T f t v = None.
Proof. exact fragment_no_bypass. Qed.

(* the specification both C02F-style results rest on: the type of every
   definition has the shape the fragment converter chooses for its schema *)
Theorem C05F_convert_shape :
  forall (cls : Heck.CharClasses) (D : defs) (T : space),
    in_frag cls D = true -> convert_doc cls D = Some T ->
    (forall j d sch, nth_error D j = Some (d, sch) -> topshape cls D T sch (N.of_nat j + 1)) /\
    ents_ok (N.of_nat (length D)) (get T) /\ DefsNamed D T.
Proof. exact convert_shape. Qed.

(* integer formats: the chosen Rust type has exactly the range of the format *)
Theorem C05F_int_format_range_exact :
  forall r, In r int_rows ->
    exists hi nz, int_range_u (ir_ty r) = Some (ir_lo r, hi, nz) /\
                  int_format_range (ir_fmt r) = Some (ir_lo r, hi).
Proof. exact int_format_range_exact. Qed.

(* ------------------------------------------------------------------ non-vacuity
   D5: a string enum `Level`, and a CLOSED struct `Rec` with a required uint8
   member, a required reference to the enum and an optional array of strings.
   T5 is the type space the REAL typify produced
   (corpus/convert/c05f_example.json, re-compared on every run). *)
Definition D5 : defs := [([76; 101; 118; 101; 108]%N, (SObj (Some [TString]) None (Some [(JStr [108; 111; 119]%N); (JStr [104; 105; 103; 104]%N)]) None (mkNumv None None None None None) (mkStrv None None None) ItemsAbsent (@nil schema) None None None false (@nil (ustring * schema)) (@nil ustring) None None None None None None None None None None)); ([82; 101; 99]%N, (SObj (Some [TObject]) None None None (mkNumv None None None None None) (mkStrv None None None) ItemsAbsent (@nil schema) None None None false [([97; 103; 101]%N, (SObj (Some [TInteger]) (Some [117; 105; 110; 116; 56]%N) None None (mkNumv None None None None None) (mkStrv None None None) ItemsAbsent (@nil schema) None None None false (@nil (ustring * schema)) (@nil ustring) None None None None None None None None None None)); ([108; 101; 118; 101; 108]%N, (SObj None None None None (mkNumv None None None None None) (mkStrv None None None) ItemsAbsent (@nil schema) None None None false (@nil (ustring * schema)) (@nil ustring) None None None None None None None (Some [76; 101; 118; 101; 108]%N) None None)); ([116; 97; 103; 115]%N, (SObj (Some [TArray]) None None None (mkNumv None None None None None) (mkStrv None None None) ItemsSingle [(SObj (Some [TString]) None None None (mkNumv None None None None None) (mkStrv None None None) ItemsAbsent (@nil schema) None None None false (@nil (ustring * schema)) (@nil ustring) None None None None None None None None None None)] None None None false (@nil (ustring * schema)) (@nil ustring) None None None None None None None None None None))] [[97; 103; 101]%N; [108; 101; 118; 101; 108]%N] (Some (SBool false)) None None None None None None None None None))].
Definition T5 : space := (mkSpace [(1%N, (mkEntry (DEnum [76; 101; 118; 101; 108]%N None TagExternal [(mkVariant [108; 111; 119]%N [76; 111; 119]%N VSimple); (mkVariant [104; 105; 103; 104]%N [72; 105; 103; 104]%N VSimple)] false [AllSimpleVariants]) (@nil ustring))); (2%N, (mkEntry (DStruct [82; 101; 99]%N None [(mkProp [97; 103; 101]%N RNone PRequired 3%N); (mkProp [108; 101; 118; 101; 108]%N RNone PRequired 1%N); (mkProp [116; 97; 103; 115]%N RNone POptional 5%N)] true) (@nil ustring))); (3%N, (mkEntry (DInteger [117; 56]%N) (@nil ustring))); (4%N, (mkEntry DString (@nil ustring))); (5%N, (mkEntry (DVec 4%N) (@nil ustring)))] 6%N (mkSettings None (@nil ustring) false [58; 58; 32; 115; 116; 100; 32; 58; 58; 32; 99; 111; 108; 108; 101; 99; 116; 105; 111; 110; 115; 32; 58; 58; 32; 72; 97; 115; 104; 77; 97; 112]%N) false false false false (@nil ustring)).
Definition v_ok : json := (JObj [([97; 103; 101]%N, (JInt (7)%Z)); ([108; 101; 118; 101; 108]%N, (JStr [108; 111; 119]%N)); ([116; 97; 103; 115]%N, (JArr [(JStr [97]%N)]))]).
Definition v_missing : json := (JObj [([108; 101; 118; 101; 108]%N, (JStr [108; 111; 119]%N))]).
Definition v_extra : json := (JObj [([97; 103; 101]%N, (JInt (1)%Z)); ([108; 101; 118; 101; 108]%N, (JStr [108; 111; 119]%N)); ([122; 122]%N, (JInt (1)%Z))]).
Definition v_type : json := (JObj [([97; 103; 101]%N, (JStr [120]%N)); ([108; 101; 118; 101; 108]%N, (JStr [108; 111; 119]%N))]).
Definition v_enum : json := (JObj [([97; 103; 101]%N, (JInt (1)%Z)); ([108; 101; 118; 101; 108]%N, (JStr [109; 105; 100]%N))]).
Definition v_range : json := (JObj [([97; 103; 101]%N, (JInt (300)%Z)); ([108; 101; 118; 101; 108]%N, (JStr [108; 111; 119]%N))]).
Definition v_item : json := (JObj [([97; 103; 101]%N, (JInt (1)%Z)); ([108; 101; 118; 101; 108]%N, (JStr [108; 111; 119]%N)); ([116; 97; 103; 115]%N, (JArr [(JStr [97]%N); (JInt (5)%Z)]))]).
Definition D_nen : defs := [([78]%N, (SObj (Some [TString; TNull]) None (Some [(JStr [120]%N); (JStr [121]%N)]) None (mkNumv None None None None None) (mkStrv None None None) ItemsAbsent (@nil schema) None None None false (@nil (ustring * schema)) (@nil ustring) None None None None None None None None None None))].
Definition T_nen : space := (mkSpace [(1%N, (mkEntry (DNewtype [78]%N None 3%N CNone) (@nil ustring))); (2%N, (mkEntry (DEnum [78; 73; 110; 110; 101; 114]%N None TagExternal [(mkVariant [120]%N [88]%N VSimple); (mkVariant [121]%N [89]%N VSimple)] false [AllSimpleVariants]) (@nil ustring))); (3%N, (mkEntry (DOption 2%N) (@nil ustring)))] 4%N (mkSettings None (@nil ustring) false [58; 58; 32; 115; 116; 100; 32; 58; 58; 32; 99; 111; 108; 108; 101; 99; 116; 105; 111; 110; 115; 32; 58; 58; 32; 72; 97; 115; 104; 77; 97; 112]%N) false false false false (@nil ustring)).

Definition nore : ustring -> ustring -> bool := fun _ _ => false.
Definition k_Rec : ustring := [82; 101; 99]%N.
Definition k_Level : ustring := [76; 101; 118; 101; 108]%N.
Definition s_Rec : schema := match resolve_ref D5 k_Rec with Some s => s | None => SBool true end.
Definition s_Level : schema := match resolve_ref D5 k_Level with Some s => s | None => SBool true end.

Example C05F_ex_in_frag : in_frag_exact Sanitize.ascii_classes D5 = true.
Proof. vm_compute. reflexivity. Qed.

Example C05F_ex_convert : convert_doc Sanitize.ascii_classes D5 = Some T5.
Proof. vm_compute. reflexivity. Qed.

Example C05F_ex_accepts_valid : de nore nore T5 20 2%N v_ok <> None.
Proof. vm_compute. discriminate. Qed.

Lemma C05F_ex_reject (v : json) : viol nore D5 s_Rec v -> forall f, de nore nore T5 f 2%N v = None.
Proof.
  intros Hv. apply (C05F_fragment_no_bypass Sanitize.ascii_classes nore nore D5 T5 C05F_ex_in_frag C05F_ex_convert
                      k_Rec 2%N s_Rec); [vm_compute; right; left; reflexivity|reflexivity|exact Hv].
Qed.

(* required member missing *)
Example C05F_ex_missing_rejected : forall f, de nore nore T5 f 2%N v_missing = None.
Proof. apply C05F_ex_reject. apply V_here; vm_compute; reflexivity. Qed.

(* extra member of the closed object *)
Example C05F_ex_extra_rejected : forall f, de nore nore T5 f 2%N v_extra = None.
Proof. apply C05F_ex_reject. apply V_here; vm_compute; reflexivity. Qed.

(* wrong JSON type of a member *)
Example C05F_ex_type_rejected : forall f, de nore nore T5 f 2%N v_type = None.
Proof.
  apply C05F_ex_reject.
  eapply (V_prop nore D5 s_Rec [97; 103; 101]%N); [reflexivity|left; reflexivity|reflexivity|discriminate|].
  apply V_here; vm_compute; reflexivity.
Qed.

(* string outside the enum, through the "$ref" *)
Example C05F_ex_enum_rejected : forall f, de nore nore T5 f 2%N v_enum = None.
Proof.
  apply C05F_ex_reject.
  eapply (V_prop nore D5 s_Rec [108; 101; 118; 101; 108]%N); [reflexivity|right; left; reflexivity|reflexivity|discriminate|].
  eapply (V_ref nore D5 _ k_Level s_Level); [reflexivity|reflexivity|discriminate|].
  apply V_here; vm_compute; reflexivity.
Qed.

(* wrong type of an array element of an optional member *)
Example C05F_ex_item_rejected : forall f, de nore nore T5 f 2%N v_item = None.
Proof.
  apply C05F_ex_reject.
  eapply (V_prop nore D5 s_Rec [116; 97; 103; 115]%N); [reflexivity|right; right; left; reflexivity|reflexivity|discriminate|].
  eapply (V_item nore D5 _ _ _ (JInt 5)); [reflexivity|reflexivity|right; left; reflexivity|discriminate|].
  apply V_here; vm_compute; reflexivity.
Qed.

(* an integer outside the uint8 range (the type side: u8) *)
Example C05F_ex_range_rejected : de nore nore T5 20 2%N v_range = None.
Proof. vm_compute. reflexivity. Qed.

(* ------------------------------------------------------------------ constrained strings
   corpus/convert/strings_example.json (see Props/C02F.v): a string longer than maxLength (counted in
   Unicode scalar values) is rejected at the inline newtype `P.code` and inside the array `P.names`
   (through the "$ref" to `Name`), for every regex engine. *)
Definition D_str : defs := [([78; 97; 109; 101]%N, (SObj (Some [TString]) None None None (mkNumv None None None None None) (mkStrv (Some 3%N) (Some 1%N) (Some [94; 97; 98]%N)) ItemsAbsent (@nil schema) None None None false (@nil (ustring * schema)) (@nil ustring) None None None None None None None None None None)); ([80]%N, (SObj (Some [TObject]) None None None (mkNumv None None None None None) (mkStrv None None None) ItemsAbsent (@nil schema) None None None false [([99; 111; 100; 101]%N, (SObj (Some [TString]) None None None (mkNumv None None None None None) (mkStrv (Some 2%N) None None) ItemsAbsent (@nil schema) None None None false (@nil (ustring * schema)) (@nil ustring) None None None None None None None None None None)); ([110; 97; 109; 101; 115]%N, (SObj (Some [TArray]) None None None (mkNumv None None None None None) (mkStrv None None None) ItemsSingle [(SObj None None None None (mkNumv None None None None None) (mkStrv None None None) ItemsAbsent (@nil schema) None None None false (@nil (ustring * schema)) (@nil ustring) None None None None None None None (Some [78; 97; 109; 101]%N) None None)] None (Some 1%N) (Some 5%N) false (@nil (ustring * schema)) (@nil ustring) None None None None None None None None None None))] [[99; 111; 100; 101]%N] None None None None None None None None None None))].
Definition T_str : space := (mkSpace [(1%N, (mkEntry (DNewtype [78; 97; 109; 101]%N None 3%N (CString (Some 3%N) (Some 1%N) (Some [94; 97; 98]%N))) (@nil ustring))); (2%N, (mkEntry (DStruct [80]%N None [(mkProp [99; 111; 100; 101]%N RNone PRequired 4%N); (mkProp [110; 97; 109; 101; 115]%N RNone POptional 5%N)] false) (@nil ustring))); (3%N, (mkEntry DString (@nil ustring))); (4%N, (mkEntry (DNewtype [80; 67; 111; 100; 101]%N None 3%N (CString (Some 2%N) None None)) (@nil ustring))); (5%N, (mkEntry (DVec 1%N) (@nil ustring)))] 6%N (mkSettings None (@nil ustring) false [58; 58; 32; 115; 116; 100; 32; 58; 58; 32; 99; 111; 108; 108; 101; 99; 116; 105; 111; 110; 115; 32; 58; 58; 32; 72; 97; 115; 104; 77; 97; 112]%N) false false false true (@nil ustring)).
Definition v_str_ok : json := (JObj [([99; 111; 100; 101]%N, (JStr [120; 121]%N)); ([110; 97; 109; 101; 115]%N, (JArr [(JStr [97; 98]%N); (JStr [97; 98; 99]%N)]))]).
Definition v_str_long : json := (JObj [([99; 111; 100; 101]%N, (JStr [120; 121; 122]%N))]).
Definition v_str_item : json := (JObj [([99; 111; 100; 101]%N, (JStr [120]%N)); ([110; 97; 109; 101; 115]%N, (JArr [(JStr [97; 98; 99; 100]%N)]))]).

Example C05F_str_in_frag : in_frag_exact Sanitize.ascii_classes D_str = true.
Proof. vm_compute. reflexivity. Qed.

Example C05F_str_convert : convert_doc Sanitize.ascii_classes D_str = Some T_str.
Proof. vm_compute. reflexivity. Qed.

Definition s_P : schema := match resolve_ref D_str [80]%N with Some s => s | None => SBool true end.

Example C05F_str_long_rejected : forall re f, de re nore T_str f 2%N v_str_long = None.
Proof.
  intros re. apply (C05F_fragment_no_bypass Sanitize.ascii_classes re nore D_str T_str C05F_str_in_frag C05F_str_convert
                      [80]%N 2%N s_P); [vm_compute; right; left; reflexivity|reflexivity|].
  eapply (V_prop re D_str s_P [99; 111; 100; 101]%N); [reflexivity|left; reflexivity|reflexivity|discriminate|].
  apply V_here; vm_compute; reflexivity.
Qed.

Example C05F_str_item_rejected : forall re f, de re nore T_str f 2%N v_str_item = None.
Proof.
  intros re. apply (C05F_fragment_no_bypass Sanitize.ascii_classes re nore D_str T_str C05F_str_in_frag C05F_str_convert
                      [80]%N 2%N s_P); [vm_compute; right; left; reflexivity|reflexivity|].
  eapply (V_prop re D_str s_P [110; 97; 109; 101; 115]%N); [reflexivity|right; left; reflexivity|reflexivity|discriminate|].
  eapply (V_item re D_str _ _ _ (JStr [97; 98; 99; 100]%N)); [reflexivity|reflexivity|left; reflexivity|discriminate|].
  eapply (V_ref re D_str _ [78; 97; 109; 101]%N); [reflexivity|reflexivity|discriminate|].
  apply V_here; vm_compute; reflexivity.
Qed.

(* ------------------------------------------------------------------ tuples and fixed-length arrays
   corpus/convert/seq_example.json (see Props/C02F.v): a wrong tuple arity (through the "$ref"), a wrong
   array length and a wrong tuple element type are rejected at every fuel. *)
Definition D_seq : defs := [([80; 116]%N, (SObj (Some [TArray]) None None None (mkNumv None None None None None) (mkStrv None None None) ItemsTuple [(SObj (Some [TNumber]) None None None (mkNumv None None None None None) (mkStrv None None None) ItemsAbsent (@nil schema) None None None false (@nil (ustring * schema)) (@nil ustring) None None None None None None None None None None); (SObj (Some [TNumber]) None None None (mkNumv None None None None None) (mkStrv None None None) ItemsAbsent (@nil schema) None None None false (@nil (ustring * schema)) (@nil ustring) None None None None None None None None None None)] None (Some 2%N) (Some 2%N) false (@nil (ustring * schema)) (@nil ustring) None None None None None None None None None None)); ([81]%N, (SObj (Some [TObject]) None None None (mkNumv None None None None None) (mkStrv None None None) ItemsAbsent (@nil schema) None None None false [([97; 116]%N, (SObj None None None None (mkNumv None None None None None) (mkStrv None None None) ItemsAbsent (@nil schema) None None None false (@nil (ustring * schema)) (@nil ustring) None None None None None None None (Some [80; 116]%N) None None)); ([114; 103; 98]%N, (SObj (Some [TArray]) None None None (mkNumv None None None None None) (mkStrv None None None) ItemsSingle [(SObj (Some [TInteger]) (Some [117; 105; 110; 116; 56]%N) None None (mkNumv None None None None None) (mkStrv None None None) ItemsAbsent (@nil schema) None None None false (@nil (ustring * schema)) (@nil ustring) None None None None None None None None None None)] None (Some 3%N) (Some 3%N) false (@nil (ustring * schema)) (@nil ustring) None None None None None None None None None None)); ([116; 97; 103; 115]%N, (SObj (Some [TArray]) None None None (mkNumv None None None None None) (mkStrv None None None) ItemsSingle [(SObj (Some [TString]) None None None (mkNumv None None None None None) (mkStrv None None None) ItemsAbsent (@nil schema) None None None false (@nil (ustring * schema)) (@nil ustring) None None None None None None None None None None)] None None None true (@nil (ustring * schema)) (@nil ustring) None None None None None None None None None None))] [[97; 116]%N; [114; 103; 98]%N] None None None None None None None None None None))].
Definition T_seq : space := (mkSpace [(1%N, (mkEntry (DNewtype [80; 116]%N None 4%N CNone) (@nil ustring))); (2%N, (mkEntry (DStruct [81]%N None [(mkProp [97; 116]%N RNone PRequired 1%N); (mkProp [114; 103; 98]%N RNone PRequired 6%N); (mkProp [116; 97; 103; 115]%N RNone POptional 9%N)] false) (@nil ustring))); (3%N, (mkEntry (DFloat [102; 54; 52]%N) (@nil ustring))); (4%N, (mkEntry (DTuple [3%N; 3%N]) (@nil ustring))); (5%N, (mkEntry (DInteger [117; 56]%N) (@nil ustring))); (6%N, (mkEntry (DArray 5%N 3%N) (@nil ustring))); (7%N, (mkEntry DString (@nil ustring))); (8%N, (mkEntry (DSet 7%N) (@nil ustring))); (9%N, (mkEntry (DOption 8%N) (@nil ustring)))] 10%N (mkSettings None (@nil ustring) false [58; 58; 32; 115; 116; 100; 32; 58; 58; 32; 99; 111; 108; 108; 101; 99; 116; 105; 111; 110; 115; 32; 58; 58; 32; 72; 97; 115; 104; 77; 97; 112]%N) false false false false (@nil ustring)).
Definition v_seq_ok : json := (JObj [([97; 116]%N, (JArr [(JInt (1)%Z); (JFlt (Qmake (5)%Z 2%positive))])); ([114; 103; 98]%N, (JArr [(JInt (0)%Z); (JInt (128)%Z); (JInt (255)%Z)])); ([116; 97; 103; 115]%N, (JArr [(JStr [97]%N); (JStr [98]%N)]))]).
Definition v_seq_arity : json := (JObj [([97; 116]%N, (JArr [(JInt (1)%Z)])); ([114; 103; 98]%N, (JArr [(JInt (0)%Z); (JInt (1)%Z); (JInt (2)%Z)]))]).
Definition v_seq_rgb : json := (JObj [([97; 116]%N, (JArr [(JInt (1)%Z); (JInt (2)%Z)])); ([114; 103; 98]%N, (JArr [(JInt (0)%Z); (JInt (1)%Z)]))]).
Definition v_seq_elem : json := (JObj [([97; 116]%N, (JArr [(JInt (1)%Z); (JStr [120]%N)])); ([114; 103; 98]%N, (JArr [(JInt (0)%Z); (JInt (1)%Z); (JInt (2)%Z)]))]).

Example C05F_seq_in_frag : in_frag_exact Sanitize.ascii_classes D_seq = true.
Proof. vm_compute. reflexivity. Qed.

Example C05F_seq_convert : convert_doc Sanitize.ascii_classes D_seq = Some T_seq.
Proof. vm_compute. reflexivity. Qed.

Definition s_Q : schema := match resolve_ref D_seq [81]%N with Some s => s | None => SBool true end.
Definition s_Pt : schema := match resolve_ref D_seq [80; 116]%N with Some s => s | None => SBool true end.

Lemma C05F_seq_reject (v : json) : viol nore D_seq s_Q v -> forall f, de nore nore T_seq f 2%N v = None.
Proof.
  intros Hv. apply (C05F_fragment_no_bypass Sanitize.ascii_classes nore nore D_seq T_seq C05F_seq_in_frag C05F_seq_convert
                      [81]%N 2%N s_Q); [vm_compute; right; left; reflexivity|reflexivity|exact Hv].
Qed.

Example C05F_seq_tuple_arity_rejected : forall f, de nore nore T_seq f 2%N v_seq_arity = None.
Proof.
  apply C05F_seq_reject.
  eapply (V_prop nore D_seq s_Q [97; 116]%N); [reflexivity|left; reflexivity|reflexivity|discriminate|].
  eapply (V_ref nore D_seq _ [80; 116]%N s_Pt); [reflexivity|reflexivity|discriminate|].
  apply V_here; vm_compute; reflexivity.
Qed.

Example C05F_seq_array_length_rejected : forall f, de nore nore T_seq f 2%N v_seq_rgb = None.
Proof.
  apply C05F_seq_reject.
  eapply (V_prop nore D_seq s_Q [114; 103; 98]%N); [reflexivity|right; left; reflexivity|reflexivity|discriminate|].
  apply V_here; vm_compute; reflexivity.
Qed.

Example C05F_seq_tuple_element_rejected : forall f, de nore nore T_seq f 2%N v_seq_elem = None.
Proof.
  apply C05F_seq_reject.
  eapply (V_prop nore D_seq s_Q [97; 116]%N); [reflexivity|left; reflexivity|reflexivity|discriminate|].
  eapply (V_ref nore D_seq _ [80; 116]%N s_Pt); [reflexivity|reflexivity|discriminate|].
  eapply (V_tuple nore D_seq s_Pt _ _ 1%nat); [reflexivity|reflexivity|reflexivity|reflexivity|discriminate|].
  apply V_here; vm_compute; reflexivity.
Qed.

(* ------------------------------------------------------------------ oneOf -> externally tagged enums
   (corpus/convert/enum_external_example.json, T_enum = the REAL type space).  Check/Exact.v claims for such a
   union: no null branch, no common tag, every branch names variants of the right kind (unit for the listed
   strings, a closed one-member object for the others); the payloads are the business of their own types.
   [viol] has no constructor for "no branch matches", so the rejections below are direct evaluations. *)
Definition D_enum : defs := [([80]%N, (SObj (Some [TObject]) None None None (mkNumv None None None None None) (mkStrv None None None) ItemsAbsent (@nil schema) None None None false [([122]%N, (SObj (Some [TBoolean]) None None None (mkNumv None None None None None) (mkStrv None None None) ItemsAbsent (@nil schema) None None None false (@nil (ustring * schema)) (@nil ustring) None None None None None None None None None None))] [[122]%N] None None None None None None None None None None)); ([83; 104; 97; 112; 101]%N, (SObj None None None None (mkNumv None None None None None) (mkStrv None None None) ItemsAbsent (@nil schema) None None None false (@nil (ustring * schema)) (@nil ustring) None None None None None (Some [(SObj (Some [TString]) None (Some [(JStr [117; 110; 105; 116]%N); (JStr [111; 116; 104; 101; 114; 45; 111; 110; 101]%N)]) None (mkNumv None None None None None) (mkStrv None None None) ItemsAbsent (@nil schema) None None None false (@nil (ustring * schema)) (@nil ustring) None None None None None None None None None None); (SObj (Some [TObject]) None None None (mkNumv None None None None None) (mkStrv None None None) ItemsAbsent (@nil schema) None None None false [([99; 105; 114; 99; 108; 101]%N, (SObj (Some [TNumber]) None None None (mkNumv None None None None None) (mkStrv None None None) ItemsAbsent (@nil schema) None None None false (@nil (ustring * schema)) (@nil ustring) None None None None None None None None None None))] [[99; 105; 114; 99; 108; 101]%N] (Some (SBool false)) None None None None None None None None None); (SObj (Some [TObject]) None None None (mkNumv None None None None None) (mkStrv None None None) ItemsAbsent (@nil schema) None None None false [([114; 101; 99; 116]%N, (SObj (Some [TObject]) None None None (mkNumv None None None None None) (mkStrv None None None) ItemsAbsent (@nil schema) None None None false [([104]%N, (SObj (Some [TInteger]) None None None (mkNumv None None None None None) (mkStrv None None None) ItemsAbsent (@nil schema) None None None false (@nil (ustring * schema)) (@nil ustring) None None None None None None None None None None)); ([119]%N, (SObj (Some [TInteger]) None None None (mkNumv None None None None None) (mkStrv None None None) ItemsAbsent (@nil schema) None None None false (@nil (ustring * schema)) (@nil ustring) None None None None None None None None None None))] [[104]%N; [119]%N] (Some (SBool false)) None None None None None None None None None))] [[114; 101; 99; 116]%N] (Some (SBool false)) None None None None None None None None None); (SObj (Some [TObject]) None None None (mkNumv None None None None None) (mkStrv None None None) ItemsAbsent (@nil schema) None None None false [([112; 97; 105; 114]%N, (SObj (Some [TArray]) None None None (mkNumv None None None None None) (mkStrv None None None) ItemsTuple [(SObj (Some [TString]) None None None (mkNumv None None None None None) (mkStrv None None None) ItemsAbsent (@nil schema) None None None false (@nil (ustring * schema)) (@nil ustring) None None None None None None None None None None); (SObj (Some [TInteger]) None None None (mkNumv None None None None None) (mkStrv None None None) ItemsAbsent (@nil schema) None None None false (@nil (ustring * schema)) (@nil ustring) None None None None None None None None None None)] None (Some 2%N) (Some 2%N) false (@nil (ustring * schema)) (@nil ustring) None None None None None None None None None None))] [[112; 97; 105; 114]%N] (Some (SBool false)) None None None None None None None None None); (SObj (Some [TObject]) None None None (mkNumv None None None None None) (mkStrv None None None) ItemsAbsent (@nil schema) None None None false [([108; 97; 98; 101; 108]%N, (SObj (Some [TString; TNull]) None None None (mkNumv None None None None None) (mkStrv None None None) ItemsAbsent (@nil schema) None None None false (@nil (ustring * schema)) (@nil ustring) None None None None None None None None None None))] [[108; 97; 98; 101; 108]%N] (Some (SBool false)) None None None None None None None None None); (SObj (Some [TObject]) None None None (mkNumv None None None None None) (mkStrv None None None) ItemsAbsent (@nil schema) None None None false [([115; 117; 98]%N, (SObj None None None None (mkNumv None None None None None) (mkStrv None None None) ItemsAbsent (@nil schema) None None None false (@nil (ustring * schema)) (@nil ustring) None None None None None None None (Some [80]%N) None None))] [[115; 117; 98]%N] (Some (SBool false)) None None None None None None None None None); (SObj (Some [TObject]) None None None (mkNumv None None None None None) (mkStrv None None None) ItemsAbsent (@nil schema) None None None false [([109; 97; 110; 121]%N, (SObj (Some [TArray]) None None None (mkNumv None None None None None) (mkStrv None None None) ItemsSingle [(SObj None None None None (mkNumv None None None None None) (mkStrv None None None) ItemsAbsent (@nil schema) None None None false (@nil (ustring * schema)) (@nil ustring) None None None None None None None (Some [83; 104; 97; 112; 101]%N) None None)] None None None false (@nil (ustring * schema)) (@nil ustring) None None None None None None None None None None))] [[109; 97; 110; 121]%N] (Some (SBool false)) None None None None None None None None None)]) None None None None)); ([85; 115; 101; 114]%N, (SObj (Some [TObject]) None None None (mkNumv None None None None None) (mkStrv None None None) ItemsAbsent (@nil schema) None None None false [([105; 110; 108; 105; 110; 101]%N, (SObj None None None None (mkNumv None None None None None) (mkStrv None None None) ItemsAbsent (@nil schema) None None None false (@nil (ustring * schema)) (@nil ustring) None None None None None (Some [(SObj (Some [TString]) None (Some [(JStr [111; 110]%N); (JStr [111; 102; 102]%N)]) None (mkNumv None None None None None) (mkStrv None None None) ItemsAbsent (@nil schema) None None None false (@nil (ustring * schema)) (@nil ustring) None None None None None None None None None None); (SObj (Some [TObject]) None None None (mkNumv None None None None None) (mkStrv None None None) ItemsAbsent (@nil schema) None None None false [([108; 101; 118; 101; 108]%N, (SObj (Some [TInteger]) (Some [117; 105; 110; 116; 56]%N) None None (mkNumv None None None None None) (mkStrv None None None) ItemsAbsent (@nil schema) None None None false (@nil (ustring * schema)) (@nil ustring) None None None None None None None None None None))] [[108; 101; 118; 101; 108]%N] (Some (SBool false)) None None None None None None None None None)]) None None None None)); ([115; 104; 97; 112; 101]%N, (SObj None None None None (mkNumv None None None None None) (mkStrv None None None) ItemsAbsent (@nil schema) None None None false (@nil (ustring * schema)) (@nil ustring) None None None None None None None (Some [83; 104; 97; 112; 101]%N) None None))] [[105; 110; 108; 105; 110; 101]%N; [115; 104; 97; 112; 101]%N] None None None None None None None None None None))].
Definition T_enum : space := (mkSpace [(1%N, (mkEntry (DStruct [80]%N None [(mkProp [122]%N RNone PRequired 4%N)] false) (@nil ustring))); (2%N, (mkEntry (DEnum [83; 104; 97; 112; 101]%N None TagExternal [(mkVariant [117; 110; 105; 116]%N [85; 110; 105; 116]%N VSimple); (mkVariant [111; 116; 104; 101; 114; 45; 111; 110; 101]%N [79; 116; 104; 101; 114; 79; 110; 101]%N VSimple); (mkVariant [99; 105; 114; 99; 108; 101]%N [67; 105; 114; 99; 108; 101]%N (VItem 5%N)); (mkVariant [114; 101; 99; 116]%N [82; 101; 99; 116]%N (VStruct [(mkProp [104]%N RNone PRequired 6%N); (mkProp [119]%N RNone PRequired 6%N)])); (mkVariant [112; 97; 105; 114]%N [80; 97; 105; 114]%N (VTuple [7%N; 6%N])); (mkVariant [108; 97; 98; 101; 108]%N [76; 97; 98; 101; 108]%N (VItem 8%N)); (mkVariant [115; 117; 98]%N [83; 117; 98]%N (VItem 1%N)); (mkVariant [109; 97; 110; 121]%N [77; 97; 110; 121]%N (VItem 9%N))] true (@nil bespoke)) (@nil ustring))); (3%N, (mkEntry (DStruct [85; 115; 101; 114]%N None [(mkProp [105; 110; 108; 105; 110; 101]%N RNone PRequired 11%N); (mkProp [115; 104; 97; 112; 101]%N RNone PRequired 2%N)] false) (@nil ustring))); (4%N, (mkEntry DBoolean (@nil ustring))); (5%N, (mkEntry (DFloat [102; 54; 52]%N) (@nil ustring))); (6%N, (mkEntry (DInteger [105; 54; 52]%N) (@nil ustring))); (7%N, (mkEntry DString (@nil ustring))); (8%N, (mkEntry (DOption 7%N) (@nil ustring))); (9%N, (mkEntry (DVec 2%N) (@nil ustring))); (10%N, (mkEntry (DInteger [117; 56]%N) (@nil ustring))); (11%N, (mkEntry (DEnum [85; 115; 101; 114; 73; 110; 108; 105; 110; 101]%N None TagExternal [(mkVariant [111; 110]%N [79; 110]%N VSimple); (mkVariant [111; 102; 102]%N [79; 102; 102]%N VSimple); (mkVariant [108; 101; 118; 101; 108]%N [76; 101; 118; 101; 108]%N (VItem 10%N))] false (@nil bespoke)) (@nil ustring)))] 12%N (mkSettings None (@nil ustring) false [58; 58; 32; 115; 116; 100; 32; 58; 58; 32; 99; 111; 108; 108; 101; 99; 116; 105; 111; 110; 115; 32; 58; 58; 32; 72; 97; 115; 104; 77; 97; 112]%N) false false false false (@nil ustring)).
Definition v_enum_good : json := (JObj [([114; 101; 99; 116]%N, (JObj [([104]%N, (JInt (1)%Z)); ([119]%N, (JInt (2)%Z))]))]).
Definition v_enum_bogus : json := (JStr [98; 111; 103; 117; 115]%N).
Definition v_enum_extra : json := (JObj [([114; 101; 99; 116]%N, (JObj [([104]%N, (JInt (1)%Z)); ([119]%N, (JInt (2)%Z)); ([120]%N, (JInt (3)%Z))]))]).
Definition v_enum_two : json := (JObj [([99; 105; 114; 99; 108; 101]%N, (JFlt (Qmake (3)%Z 2%positive))); ([108; 97; 98; 101; 108]%N, (JStr [120]%N))]).

Example C05F_enum_in_frag : in_frag_exact Sanitize.ascii_classes D_enum = true.
Proof. vm_compute. reflexivity. Qed.

Example C05F_enum_convert : convert_doc Sanitize.ascii_classes D_enum = Some T_enum.
Proof. vm_compute. reflexivity. Qed.

Example C05F_enum_exact : exact_all nore D_enum T_enum (pairs_of D_enum) = true.
Proof. exact (C05F_convert_exact Sanitize.ascii_classes nore D_enum T_enum C05F_enum_in_frag C05F_enum_convert). Qed.

Example C05F_enum_accepts_valid : de nore nore T_enum 20 2%N v_enum_good <> None.
Proof. vm_compute. discriminate. Qed.
(* a string naming no unit variant / an undeclared member of the closed struct variant / two variants at once *)
Example C05F_enum_bogus_rejected : de nore nore T_enum 20 2%N v_enum_bogus = None.
Proof. vm_compute. reflexivity. Qed.
Example C05F_enum_extra_rejected : de nore nore T_enum 20 2%N v_enum_extra = None.
Proof. vm_compute. reflexivity. Qed.
Example C05F_enum_two_rejected : de nore nore T_enum 20 2%N v_enum_two = None.
Proof. vm_compute. reflexivity. Qed.

(* ------------------------------------------------------------------ internally / adjacently tagged enums
   (corpus/convert/enum_tagged_example.json, T_tag = the REAL type space): here [viol] speaks - a tag value that
   no branch pins is a violation (V_tag), so the rejection comes from the theorem *)
Definition D_tag : defs := [([69; 118]%N, (SObj None None None None (mkNumv None None None None None) (mkStrv None None None) ItemsAbsent (@nil schema) None None None false (@nil (ustring * schema)) (@nil ustring) None None None None None (Some [(SObj (Some [TObject]) None None None (mkNumv None None None None None) (mkStrv None None None) ItemsAbsent (@nil schema) None None None false [([97; 116]%N, (SObj (Some [TInteger]) None None None (mkNumv None None None None None) (mkStrv None None None) ItemsAbsent (@nil schema) None None None false (@nil (ustring * schema)) (@nil ustring) None None None None None None None None None None)); ([116; 97; 103; 103]%N, (SObj (Some [TString]) None (Some [(JStr [115; 116; 97; 114; 116]%N)]) None (mkNumv None None None None None) (mkStrv None None None) ItemsAbsent (@nil schema) None None None false (@nil (ustring * schema)) (@nil ustring) None None None None None None None None None None)); ([119; 104; 111]%N, (SObj (Some [TString]) None None None (mkNumv None None None None None) (mkStrv None None None) ItemsAbsent (@nil schema) None None None false (@nil (ustring * schema)) (@nil ustring) None None None None None None None None None None))] [[97; 116]%N; [116; 97; 103; 103]%N] (Some (SBool false)) None None None None None None None None None); (SObj (Some [TObject]) None None None (mkNumv None None None None None) (mkStrv None None None) ItemsAbsent (@nil schema) None None None false [([116; 97; 103; 103]%N, (SObj (Some [TString]) None (Some [(JStr [115; 116; 111; 112]%N)]) None (mkNumv None None None None None) (mkStrv None None None) ItemsAbsent (@nil schema) None None None false (@nil (ustring * schema)) (@nil ustring) None None None None None None None None None None))] [[116; 97; 103; 103]%N] (Some (SBool false)) None None None None None None None None None); (SObj (Some [TObject]) None None None (mkNumv None None None None None) (mkStrv None None None) ItemsAbsent (@nil schema) None None None false [([115; 117; 98]%N, (SObj None None None None (mkNumv None None None None None) (mkStrv None None None) ItemsAbsent (@nil schema) None None None false (@nil (ustring * schema)) (@nil ustring) None None None None None None None (Some [80]%N) None None)); ([116; 97; 103; 103]%N, (SObj (Some [TString]) None (Some [(JStr [110; 111; 116; 101; 45; 105; 116]%N)]) None (mkNumv None None None None None) (mkStrv None None None) ItemsAbsent (@nil schema) None None None false (@nil (ustring * schema)) (@nil ustring) None None None None None None None None None None)); ([116; 101; 120; 116]%N, (SObj (Some [TString]) None None None (mkNumv None None None None None) (mkStrv (Some 5%N) None None) ItemsAbsent (@nil schema) None None None false (@nil (ustring * schema)) (@nil ustring) None None None None None None None None None None))] [[115; 117; 98]%N; [116; 97; 103; 103]%N; [116; 101; 120; 116]%N] (Some (SBool false)) None None None None None None None None None)]) None None None None)); ([77; 115; 103]%N, (SObj None None None None (mkNumv None None None None None) (mkStrv None None None) ItemsAbsent (@nil schema) None None None false (@nil (ustring * schema)) (@nil ustring) None None None None None (Some [(SObj (Some [TObject]) None None None (mkNumv None None None None None) (mkStrv None None None) ItemsAbsent (@nil schema) None None None false [([99]%N, (SObj (Some [TString]) None None None (mkNumv None None None None None) (mkStrv None None None) ItemsAbsent (@nil schema) None None None false (@nil (ustring * schema)) (@nil ustring) None None None None None None None None None None)); ([116]%N, (SObj (Some [TString]) None (Some [(JStr [116; 101; 120; 116]%N)]) None (mkNumv None None None None None) (mkStrv None None None) ItemsAbsent (@nil schema) None None None false (@nil (ustring * schema)) (@nil ustring) None None None None None None None None None None))] [[99]%N; [116]%N] (Some (SBool false)) None None None None None None None None None); (SObj (Some [TObject]) None None None (mkNumv None None None None None) (mkStrv None None None) ItemsAbsent (@nil schema) None None None false [([99]%N, (SObj (Some [TObject]) None None None (mkNumv None None None None None) (mkStrv None None None) ItemsAbsent (@nil schema) None None None false [([120]%N, (SObj (Some [TInteger]) None None None (mkNumv None None None None None) (mkStrv None None None) ItemsAbsent (@nil schema) None None None false (@nil (ustring * schema)) (@nil ustring) None None None None None None None None None None)); ([121]%N, (SObj (Some [TInteger]) None None None (mkNumv None None None None None) (mkStrv None None None) ItemsAbsent (@nil schema) None None None false (@nil (ustring * schema)) (@nil ustring) None None None None None None None None None None))] [[120]%N; [121]%N] (Some (SBool false)) None None None None None None None None None)); ([116]%N, (SObj (Some [TString]) None (Some [(JStr [112; 111; 105; 110; 116]%N)]) None (mkNumv None None None None None) (mkStrv None None None) ItemsAbsent (@nil schema) None None None false (@nil (ustring * schema)) (@nil ustring) None None None None None None None None None None))] [[99]%N; [116]%N] (Some (SBool false)) None None None None None None None None None); (SObj (Some [TObject]) None None None (mkNumv None None None None None) (mkStrv None None None) ItemsAbsent (@nil schema) None None None false [([99]%N, (SObj (Some [TArray]) None None None (mkNumv None None None None None) (mkStrv None None None) ItemsTuple [(SObj (Some [TString]) None None None (mkNumv None None None None None) (mkStrv None None None) ItemsAbsent (@nil schema) None None None false (@nil (ustring * schema)) (@nil ustring) None None None None None None None None None None); (SObj (Some [TBoolean]) None None None (mkNumv None None None None None) (mkStrv None None None) ItemsAbsent (@nil schema) None None None false (@nil (ustring * schema)) (@nil ustring) None None None None None None None None None None)] None (Some 2%N) (Some 2%N) false (@nil (ustring * schema)) (@nil ustring) None None None None None None None None None None)); ([116]%N, (SObj (Some [TString]) None (Some [(JStr [112; 97; 105; 114]%N)]) None (mkNumv None None None None None) (mkStrv None None None) ItemsAbsent (@nil schema) None None None false (@nil (ustring * schema)) (@nil ustring) None None None None None None None None None None))] [[99]%N; [116]%N] (Some (SBool false)) None None None None None None None None None); (SObj (Some [TObject]) None None None (mkNumv None None None None None) (mkStrv None None None) ItemsAbsent (@nil schema) None None None false [([116]%N, (SObj (Some [TString]) None (Some [(JStr [112; 105; 110; 103]%N)]) None (mkNumv None None None None None) (mkStrv None None None) ItemsAbsent (@nil schema) None None None false (@nil (ustring * schema)) (@nil ustring) None None None None None None None None None None))] [[116]%N] (Some (SBool false)) None None None None None None None None None)]) None None None None)); ([80]%N, (SObj (Some [TObject]) None None None (mkNumv None None None None None) (mkStrv None None None) ItemsAbsent (@nil schema) None None None false [([122]%N, (SObj (Some [TBoolean]) None None None (mkNumv None None None None None) (mkStrv None None None) ItemsAbsent (@nil schema) None None None false (@nil (ustring * schema)) (@nil ustring) None None None None None None None None None None))] [[122]%N] None None None None None None None None None None)); ([84; 111; 112]%N, (SObj (Some [TObject]) None None None (mkNumv None None None None None) (mkStrv None None None) ItemsAbsent (@nil schema) None None None false [([101; 118]%N, (SObj None None None None (mkNumv None None None None None) (mkStrv None None None) ItemsAbsent (@nil schema) None None None false (@nil (ustring * schema)) (@nil ustring) None None None None None None None (Some [69; 118]%N) None None)); ([109; 115; 103; 115]%N, (SObj (Some [TArray]) None None None (mkNumv None None None None None) (mkStrv None None None) ItemsSingle [(SObj None None None None (mkNumv None None None None None) (mkStrv None None None) ItemsAbsent (@nil schema) None None None false (@nil (ustring * schema)) (@nil ustring) None None None None None None None (Some [77; 115; 103]%N) None None)] None None None false (@nil (ustring * schema)) (@nil ustring) None None None None None None None None None None))] [[101; 118]%N; [109; 115; 103; 115]%N] None None None None None None None None None None))].
Definition T_tag : space := (mkSpace [(1%N, (mkEntry (DEnum [69; 118]%N None (TagInternal [116; 97; 103; 103]%N) [(mkVariant [115; 116; 97; 114; 116]%N [83; 116; 97; 114; 116]%N (VStruct [(mkProp [97; 116]%N RNone PRequired 5%N); (mkProp [119; 104; 111]%N RNone POptional 7%N)])); (mkVariant [115; 116; 111; 112]%N [83; 116; 111; 112]%N VSimple); (mkVariant [110; 111; 116; 101; 45; 105; 116]%N [78; 111; 116; 101; 73; 116]%N (VStruct [(mkProp [115; 117; 98]%N RNone PRequired 3%N); (mkProp [116; 101; 120; 116]%N RNone PRequired 8%N)]))] true (@nil bespoke)) (@nil ustring))); (2%N, (mkEntry (DEnum [77; 115; 103]%N None (TagAdjacent [116]%N [99]%N) [(mkVariant [116; 101; 120; 116]%N [84; 101; 120; 116]%N (VItem 6%N)); (mkVariant [112; 111; 105; 110; 116]%N [80; 111; 105; 110; 116]%N (VStruct [(mkProp [120]%N RNone PRequired 5%N); (mkProp [121]%N RNone PRequired 5%N)])); (mkVariant [112; 97; 105; 114]%N [80; 97; 105; 114]%N (VTuple [6%N; 9%N])); (mkVariant [112; 105; 110; 103]%N [80; 105; 110; 103]%N VSimple)] true (@nil bespoke)) (@nil ustring))); (3%N, (mkEntry (DStruct [80]%N None [(mkProp [122]%N RNone PRequired 9%N)] false) (@nil ustring))); (4%N, (mkEntry (DStruct [84; 111; 112]%N None [(mkProp [101; 118]%N RNone PRequired 1%N); (mkProp [109; 115; 103; 115]%N RNone PRequired 10%N)] false) (@nil ustring))); (5%N, (mkEntry (DInteger [105; 54; 52]%N) (@nil ustring))); (6%N, (mkEntry DString (@nil ustring))); (7%N, (mkEntry (DOption 6%N) (@nil ustring))); (8%N, (mkEntry (DNewtype [69; 118; 84; 101; 120; 116]%N None 6%N (CString (Some 5%N) None None)) (@nil ustring))); (9%N, (mkEntry DBoolean (@nil ustring))); (10%N, (mkEntry (DVec 2%N) (@nil ustring)))] 11%N (mkSettings None (@nil ustring) false [58; 58; 32; 115; 116; 100; 32; 58; 58; 32; 99; 111; 108; 108; 101; 99; 116; 105; 111; 110; 115; 32; 58; 58; 32; 72; 97; 115; 104; 77; 97; 112]%N) false false false false (@nil ustring)).
Definition v_tag_good : json := (JObj [([101; 118]%N, (JObj [([97; 116]%N, (JInt (3)%Z)); ([116; 97; 103; 103]%N, (JStr [115; 116; 97; 114; 116]%N))])); ([109; 115; 103; 115]%N, (JArr [(JObj [([99]%N, (JStr [104; 105]%N)); ([116]%N, (JStr [116; 101; 120; 116]%N))]); (JObj [([99]%N, (JObj [([120]%N, (JInt (1)%Z)); ([121]%N, (JInt (2)%Z))])); ([116]%N, (JStr [112; 111; 105; 110; 116]%N))]); (JObj [([99]%N, (JArr [(JStr [97]%N); (JBool true)])); ([116]%N, (JStr [112; 97; 105; 114]%N))]); (JObj [([116]%N, (JStr [112; 105; 110; 103]%N))])]))]).
Definition v_tag_bogus : json := (JObj [([101; 118]%N, (JObj [([116; 97; 103; 103]%N, (JStr [98; 111; 103; 117; 115]%N))])); ([109; 115; 103; 115]%N, (JArr (@nil json)))]).
Definition v_tag_missing : json := (JObj [([101; 118]%N, (JObj [([116; 97; 103; 103]%N, (JStr [115; 116; 111; 112]%N))])); ([109; 115; 103; 115]%N, (JArr [(JObj [([99]%N, (JObj [([120]%N, (JInt (1)%Z))])); ([116]%N, (JStr [112; 111; 105; 110; 116]%N))])]))]).
Definition k_Ev : ustring := [69; 118]%N.
Definition s_Ev : schema := match resolve_ref D_tag k_Ev with Some s => s | None => SBool true end.

Example C05F_tag_in_frag : in_frag_exact Sanitize.ascii_classes D_tag = true.
Proof. vm_compute. reflexivity. Qed.

Example C05F_tag_convert : convert_doc Sanitize.ascii_classes D_tag = Some T_tag.
Proof. vm_compute. reflexivity. Qed.

Example C05F_tag_exact : exact_all nore D_tag T_tag (pairs_of D_tag) = true.
Proof. exact (C05F_convert_exact Sanitize.ascii_classes nore D_tag T_tag C05F_tag_in_frag C05F_tag_convert). Qed.

Example C05F_tag_accepts_valid : de (fun _ _ => true) nore T_tag 20 4%N v_tag_good <> None.
Proof. vm_compute. discriminate. Qed.

(* an unknown tag value, by the theorem *)
Example C05F_tag_bogus_rejected : forall f, de nore nore T_tag f 1%N (JObj [([116; 97; 103; 103]%N, JStr [98; 111; 103; 117; 115]%N)]) = None.
Proof.
  apply (C05F_fragment_no_bypass Sanitize.ascii_classes nore nore D_tag T_tag C05F_tag_in_frag C05F_tag_convert
           k_Ev 1%N s_Ev); [vm_compute; left; reflexivity|reflexivity|].
  eapply V_tag; [reflexivity|vm_compute; reflexivity|eexists; reflexivity|vm_compute; reflexivity].
Qed.

(* a missing member of a struct content, by evaluation *)
Example C05F_tag_missing_rejected : de nore nore T_tag 20 4%N v_tag_missing = None.
Proof. vm_compute. reflexivity. Qed.

(* ------------------------------------------------------------------ untagged enums over plain scalar arms
   (corpus/convert/enum_untagged_example.json): Check/Exact.v claims of such a union only that it is neither a
   nullable nor a tagged one *)
Definition D_unt : defs := [([85]%N, (SObj None None None None (mkNumv None None None None None) (mkStrv None None None) ItemsAbsent (@nil schema) None None None false (@nil (ustring * schema)) (@nil ustring) None None None None None (Some [(SObj (Some [TString]) None None None (mkNumv None None None None None) (mkStrv None None None) ItemsAbsent (@nil schema) None None None false (@nil (ustring * schema)) (@nil ustring) None None None None None None None None None None); (SObj (Some [TInteger]) (Some [105; 110; 116; 51; 50]%N) None None (mkNumv None None None None None) (mkStrv None None None) ItemsAbsent (@nil schema) None None None false (@nil (ustring * schema)) (@nil ustring) None None None None None None None None None None); (SObj (Some [TBoolean]) None None None (mkNumv None None None None None) (mkStrv None None None) ItemsAbsent (@nil schema) None None None false (@nil (ustring * schema)) (@nil ustring) None None None None None None None None None None)]) None None None None)); ([87]%N, (SObj (Some [TObject]) None None None (mkNumv None None None None None) (mkStrv None None None) ItemsAbsent (@nil schema) None None None false [([110]%N, (SObj None None None None (mkNumv None None None None None) (mkStrv None None None) ItemsAbsent (@nil schema) None None None false (@nil (ustring * schema)) (@nil ustring) None None None None None (Some [(SObj (Some [TNumber]) None None None (mkNumv None None None None None) (mkStrv None None None) ItemsAbsent (@nil schema) None None None false (@nil (ustring * schema)) (@nil ustring) None None None None None None None None None None); (SObj (Some [TString]) None None None (mkNumv None None None None None) (mkStrv None None None) ItemsAbsent (@nil schema) None None None false (@nil (ustring * schema)) (@nil ustring) None None None None None None None None None None)]) None None None None)); ([117; 115]%N, (SObj (Some [TArray]) None None None (mkNumv None None None None None) (mkStrv None None None) ItemsSingle [(SObj None None None None (mkNumv None None None None None) (mkStrv None None None) ItemsAbsent (@nil schema) None None None false (@nil (ustring * schema)) (@nil ustring) None None None None None None None (Some [85]%N) None None)] None None None false (@nil (ustring * schema)) (@nil ustring) None None None None None None None None None None))] [[110]%N; [117; 115]%N] None None None None None None None None None None))].
Definition T_unt : space := (mkSpace [(1%N, (mkEntry (DEnum [85]%N None TagUntagged [(mkVariant [86; 97; 114; 105; 97; 110; 116; 48]%N [86; 97; 114; 105; 97; 110; 116; 48]%N (VItem 3%N)); (mkVariant [86; 97; 114; 105; 97; 110; 116; 49]%N [86; 97; 114; 105; 97; 110; 116; 49]%N (VItem 4%N)); (mkVariant [86; 97; 114; 105; 97; 110; 116; 50]%N [86; 97; 114; 105; 97; 110; 116; 50]%N (VItem 5%N))] false [UntaggedFromStr; UntaggedDisplay]) (@nil ustring))); (2%N, (mkEntry (DStruct [87]%N None [(mkProp [110]%N RNone PRequired 7%N); (mkProp [117; 115]%N RNone PRequired 8%N)] false) (@nil ustring))); (3%N, (mkEntry DString (@nil ustring))); (4%N, (mkEntry (DInteger [105; 51; 50]%N) (@nil ustring))); (5%N, (mkEntry DBoolean (@nil ustring))); (6%N, (mkEntry (DFloat [102; 54; 52]%N) (@nil ustring))); (7%N, (mkEntry (DEnum [87; 78]%N None TagUntagged [(mkVariant [86; 97; 114; 105; 97; 110; 116; 48]%N [86; 97; 114; 105; 97; 110; 116; 48]%N (VItem 6%N)); (mkVariant [86; 97; 114; 105; 97; 110; 116; 49]%N [86; 97; 114; 105; 97; 110; 116; 49]%N (VItem 3%N))] false [UntaggedFromStr; UntaggedDisplay]) (@nil ustring))); (8%N, (mkEntry (DVec 1%N) (@nil ustring)))] 9%N (mkSettings None (@nil ustring) false [58; 58; 32; 115; 116; 100; 32; 58; 58; 32; 99; 111; 108; 108; 101; 99; 116; 105; 111; 110; 115; 32; 58; 58; 32; 72; 97; 115; 104; 77; 97; 112]%N) false false false false (@nil ustring)).

Example C05F_unt_in_frag : in_frag_exact Sanitize.ascii_classes D_unt = true.
Proof. vm_compute. reflexivity. Qed.

Example C05F_unt_convert : convert_doc Sanitize.ascii_classes D_unt = Some T_unt.
Proof. vm_compute. reflexivity. Qed.

Example C05F_unt_exact : exact_all nore D_unt T_unt (pairs_of D_unt) = true.
Proof. exact (C05F_convert_exact Sanitize.ascii_classes nore D_unt T_unt C05F_unt_in_frag C05F_unt_convert). Qed.

(* a value of none of the arms' types, by evaluation *)
Example C05F_unt_rejected : de nore nore T_unt 20 1%N (JArr []) = None.
Proof. vm_compute. reflexivity. Qed.

(* the side condition: ONE typed branch whose payload is a one-string enum reads as a tagged union keyed on
   the variant name (Check/Exact.v common_tag); the converter makes it an external enum: outside in_frag_exact *)
Definition D_pin : defs := [([69]%N, (SObj None None None None (mkNumv None None None None None) (mkStrv None None None) ItemsAbsent (@nil schema) None None None false (@nil (ustring * schema)) (@nil ustring) None None None None None (Some [(SObj (Some [TObject]) None None None (mkNumv None None None None None) (mkStrv None None None) ItemsAbsent (@nil schema) None None None false [([98]%N, (SObj (Some [TString]) None (Some [(JStr [107]%N)]) None (mkNumv None None None None None) (mkStrv None None None) ItemsAbsent (@nil schema) None None None false (@nil (ustring * schema)) (@nil ustring) None None None None None None None None None None))] [[98]%N] (Some (SBool false)) None None None None None None None None None)]) None None None None))].
Example C05F_pinned_out : in_frag Sanitize.ascii_classes D_pin = true /\ in_frag_exact Sanitize.ascii_classes D_pin = false.
Proof. split; vm_compute; reflexivity. Qed.

(* ------------------------------------------------------------------ the side condition is necessary
   `{"type":["string","null"],"enum":["x","y"]}` is in the C02 fragment; typify
   generates Option<enum>, which accepts `null`; `null` is not one of the
   enumerated values, so it is INVALID: the enum constraint is bypassed (a
   violation of C05 by the real code; corpus/convert/nullable_enum_witness.json;
   T_nen is the real dump).  The validator refuses the shape. *)
Example C05F_nullable_enum_refuted :
  in_frag Sanitize.ascii_classes D_nen = true /\
  in_frag_exact Sanitize.ascii_classes D_nen = false /\
  convert_doc Sanitize.ascii_classes D_nen = Some T_nen /\
  exact_all nore D_nen T_nen (pairs_of D_nen) = false /\
  verdict nore nore D_nen 3 (SRef [78]%N) JNull = Some false /\
  de nore nore T_nen 10 1%N JNull <> None.
Proof. repeat split; try (vm_compute; reflexivity). vm_compute. discriminate. Qed.
