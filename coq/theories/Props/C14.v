(* C14 — replacement, conversion, patch, derive and map-type settings apply everywhere;
   none of them, nor the builder flag, changes what the remaining types accept or emit.
   Property theorems only (each closed by `exact <lemma>`); `bin/check C14` re-runs
   Print Assumptions on every one.

   Division of labour (DESIGN 4 C14):
   * what typify DOES with each setting at the place where it reads it is a theorem about
     Algo/SettingsModel.v / Algo/Emit.v (tied to the code by the K4 correspondence of every run:
     the model's type spelling, skip paths and derive lists evaluated on the real dump = syn scan);
   * "everywhere" for replacement / conversion, i.e. that every use site of the schema goes
     through that place, needs a model of the whole converter, which does not exist
     (theorems named _partial): it is decided per explored document by the schema-directed
     walk of py/props/c14.py on the real IR;
   * "does not change the remaining types" is decided by the PROVEN validator [wire_equiv]
     (C14_wire_equiv_sound: for every JSON instance), evaluated on the two real dumps. *)
From Coq Require Import String ZArith NArith QArith List Bool.
From Typify Require Import Base.Json Spec.Schema IR.TypeIR IR.Serde Algo.Emit Algo.SettingsModel Check.WireEquiv
  Proofs.EmitProofs Proofs.SettingsProofs.
From Typify Require Algo.Sanitize Proofs.SanitizeProofs.
Import ListNotations.
Close Scope Q_scope.
Close Scope string_scope.
Open Scope list_scope.

(* ---- globally requested derives appear on every type generated for a schema
        (C19's lemma, re-exported: [named e] = the entry is emitted as an item) *)
Theorem C14_derives_everywhere : forall T e, named e ->
  forall x, In x (s_derives (sp_settings T)) -> In x (derives_of T e).
Proof. exact extra_derives_everywhere. Qed.

(* derive strings are identified only when EQUAL AS STRINGS (strings_to_derives collects a
   BTreeSet<&str>): a requested derive is in the list, next to any built-in derive that merely shares
   its last path segment (`::rkyv::Serialize` and `::serde::Serialize`, `::stable_hash::Hash` and
   `Hash`), each exactly once *)
Theorem C14_derives_are_full_paths : forall T e, named e ->
  (forall x, In x (derives_of T e) <->
             In x (builtin_derives T e) \/ In x (s_derives (sp_settings T)) \/ In x (e_derives e)) /\
  NoDup (derives_of T e) /\
  (forall x y, (In x (s_derives (sp_settings T)) \/ In x (e_derives e)) -> In y (builtin_derives T e) -> x <> y ->
               In x (derives_of T e) /\ In y (derives_of T e) /\
               exists l1 l2 l3, (derives_of T e = l1 ++ x :: l2 ++ y :: l3 \/ derives_of T e = l1 ++ y :: l2 ++ x :: l3)).
Proof. exact derives_are_full_paths. Qed.

(* ---- patch: every named constructor stores type_patch's result (type_entry.rs:293..510) *)
Theorem C14_patch_derives : forall T m n sh p x,
  assoc n m = Some p -> In x (pa_derives p) -> In x (derives_of T (new_named m n sh)).
Proof. exact patch_derives. Qed.

(* ... also after the schema's `default` has been recorded on the type (convert_ref_type /
   id_for_schema set details.default in place): name and derive list are unchanged *)
Theorem C14_patch_derives_survive_default : forall T m n sh p x df,
  assoc n m = Some p -> In x (pa_derives p) ->
  In x (derives_of T (record_default (new_named m n sh) df)) /\
  det_name (e_det (record_default (new_named m n sh) df)) = det_name (e_det (new_named m n sh)).
Proof. exact patch_derives_survive_default. Qed.

(* the entry carries the NEW name (the old one is not stored anywhere in the entry) ... *)
Theorem C14_patch_apply : forall m n sh,
  det_name (e_det (new_named m n sh)) =
  Some (match assoc n m with
        | Some p => match pa_rename p with Some r => r | None => n end
        | None => n
        end).
Proof. exact patch_apply. Qed.

(* the rename target is used verbatim, whatever identifier shape it has (IPAddr, Address_V2, fooBar,
   _Private, a non-ASCII name ...): util.rs type_patch applies no sanitisation / re-casing *)
Theorem C14_patch_rename_verbatim : forall m n sh p r,
  assoc n m = Some p -> pa_rename p = Some r ->
  fst (type_patch m n) = r /\
  det_name (e_det (new_named m n sh)) = Some r /\
  (forall T f i, get_det T i = Some (e_det (new_named m n sh)) -> s_type_mod (sp_settings T) = None ->
                 type_ident T (S f) i = Some r).
Proof. exact patch_rename_verbatim. Qed.

(* ... and every use site spells the name stored in the entry: uses are ids *)
Theorem C14_patch_use_sites : forall T f i d n,
  get_det T i = Some d -> det_name d = Some n -> s_type_mod (sp_settings T) = None ->
  type_ident T (S f) i = Some n.
Proof. exact named_use_is_entry_name. Qed.

(* ---- map type: every Map entry is spelled with the configured map type, at any depth
        (type_ident is compositional), except String -> JsonValue *)
Theorem C14_map_type_everywhere : forall T f k v a b,
  get_det T k <> None -> get_det T v <> None -> is_json_map T k v = false ->
  type_ident T f k = Some a -> type_ident T f v = Some b ->
  forall i, get_det T i = Some (DMap k v) ->
  type_ident T (S f) i = Some (map_path T ++ u "<" ++ a ++ u "," ++ b ++ u ">").
Proof. exact map_type_everywhere. Qed.

Theorem C14_map_json_exception : forall T f k v i,
  get_det T i = Some (DMap k v) -> is_json_map T k v = true ->
  type_ident T (S f) i = Some json_map_ty.
Proof. exact map_json_exception. Qed.

(* the exception needs BOTH tests: constrained keys (propertyNames -> newtype / enum / native key
   type) keep the configured map type and their key type even when the value is JsonValue, in
   the type spelling and in the is_empty path *)
Theorem C14_map_constrained_keys_use_map_type : forall T f k v dk a b,
  get_det T k = Some dk -> dk <> DString -> get_det T v <> None ->
  type_ident T f k = Some a -> type_ident T f v = Some b ->
  (forall i, get_det T i = Some (DMap k v) ->
     type_ident T (S f) i = Some (map_path T ++ u "<" ++ a ++ u "," ++ b ++ u ">")) /\
  (forall p, p_state p = POptional -> get_det T (p_ty p) = Some (DMap k v) ->
     skip_path T p = map_path T ++ u "::is_empty").
Proof. exact map_constrained_keys_use_map_type. Qed.

(* ... and serde_json::Map<String, Value> is spelled only for key = String and value = JsonValue
   (or when the configured map type and the member spellings happen to concatenate to that text) *)
Theorem C14_json_map_only_string_any : forall T f i k v,
  get_det T i = Some (DMap k v) -> type_ident T (S f) i = Some json_map_ty ->
  (get_det T k = Some DString /\ get_det T v = Some DJsonValue) \/
  (exists a b, type_ident T f k = Some a /\ type_ident T f v = Some b /\
               map_path T ++ u "<" ++ a ++ u "," ++ b ++ u ">" = json_map_ty).
Proof. exact json_map_only_string_any. Qed.

Theorem C14_map_is_empty_path : forall T p k v,
  p_state p = POptional -> get_det T (p_ty p) = Some (DMap k v) ->
  skip_path T p = if is_json_map T k v then u "::serde_json::Map::is_empty" else map_path T ++ u "::is_empty".
Proof. exact map_is_empty_path. Qed.

(* the spelling of a type depends on the settings only through map_type and type_mod *)
Theorem C14_type_ident_settings : forall T s f i,
  s_map_type s = s_map_type (sp_settings T) -> s_type_mod s = s_type_mod (sp_settings T) ->
  type_ident (with_settings T s) f i = type_ident T f i.
Proof. exact type_ident_settings. Qed.

(* ---- replacement: the key is the SANITISED definition name (C08's statement, lib.rs:650-655) *)
Theorem C14_replace_lookup :
  forall cls X (repl : list (Heck.ustring * X)) (d : Heck.ustring),
    (Sanitize.replace_lookup cls repl d <> None <->
     In (Sanitize.sanitize cls d Sanitize.Pascal) (List.map fst repl)) /\
    (forall d', Sanitize.sanitize cls d' Sanitize.Pascal = Sanitize.sanitize cls d Sanitize.Pascal ->
                Sanitize.replace_lookup cls repl d' = Sanitize.replace_lookup cls repl d).
Proof. exact SanitizeProofs.replace_lookup_spec. Qed.

(* a replaced definition gets the native entry whatever its schema: no item is emitted
   (det_name = None, C19_unnamed_emit_nothing) and every $ref to it resolves to this id *)
Theorem C14_replace_entry : forall sanitize repl convert d r,
  assoc (sanitize d) repl = Some r ->
  replace_def sanitize repl convert d = mkEntry (DNative (rp_type r) (rp_impls r) []) [] /\
  det_name (e_det (replace_def sanitize repl convert d)) = None.
Proof. exact replace_entry. Qed.

(* the key is the sanitised definition NAME; the schema's metadata (title) plays no part:
   a titled definition named in a replacement is replaced, a definition merely TITLED like a
   replacement key is not; the key is what Name::Required naming gives the definition's own type *)
Theorem C14_replace_lookup_ignores_title : forall sanitize repl convert n t,
  replace_key sanitize (mkDef n t) = sanitize n /\
  get_type_name sanitize (NRequired n) t = Some (replace_key sanitize (mkDef n t)) /\
  (forall r, assoc (sanitize n) repl = Some r ->
     replace_definition sanitize repl convert (mkDef n t) = native_entry r) /\
  (assoc (sanitize n) repl = None ->
     replace_definition sanitize repl convert (mkDef n t) = convert (mkDef n t)) /\
  (forall t', (exists r, replace_definition sanitize repl convert (mkDef n t) = native_entry r /\
                         assoc (sanitize n) repl = Some r) <->
              (exists r, replace_definition sanitize repl (fun d => convert (mkDef (d_name d) t)) (mkDef n t') = native_entry r /\
                         assoc (sanitize n) repl = Some r)).
Proof. exact replace_lookup_ignores_title. Qed.

(* non-vacuity / sensitivity: deriving the key with Name::Suggested (title first) is another function *)
Theorem C14_replace_key_suggested_differs : exists (sanitize : ustring -> ustring) (repl : list (ustring * replacement)) n t (r : replacement),
  assoc (sanitize n) repl = Some r /\
  get_type_name sanitize (NSuggested n) t <> Some (replace_key sanitize (mkDef n t)) /\
  (match get_type_name sanitize (NSuggested n) t with Some k => assoc k repl | None => None end) = None.
Proof. exact suggested_key_differs. Qed.

(* ---- conversion: FULL statement (not provable without a model of the converter):
          forall document, forall subschema s' at a type position, strip s' = strip s ->
          the type id typify assigns to s' is the native entry of the conversion.
        Proved: the cache consulted at convert_schema is insensitive to annotations and
        honours the first matching conversion.  [strip], [seqb] are section variables
        (without_metadata = metadata removed at every depth since a0b7480, derived PartialEq)
        with the hypotheses shown. *)
Theorem C14_convert_lookup_ignores_annotations :
  forall (Sch : Type) (strip : Sch -> Sch) (seqb : Sch -> Sch -> bool) c s s',
    strip s = strip s' -> cache_lookup Sch strip seqb c s = cache_lookup Sch strip seqb c s'.
Proof. exact cache_lookup_ignores_annotations. Qed.

Theorem C14_convert_everywhere_partial :
  forall (Sch : Type) (strip : Sch -> Sch) (seqb : Sch -> Sch -> bool),
    (forall a b, seqb a b = true <-> a = b) ->
    forall before s r after s',
      strip s' = strip s ->
      (forall sr, In sr before -> strip (fst sr) <> strip s) ->
      forall conv_obj,
        convert_schema Sch strip seqb (cache_of Sch strip (before ++ (s, r) :: after)) conv_obj s' = native_entry r.
Proof. exact convert_first_wins. Qed.

(* [strip] concretely on the schema AST of Spec/Schema.v (by schema_ind'): after stripping NO
   annotation is left at any position of the AST (items single / tuple, additionalItems,
   properties.*, additionalProperties, allOf / anyOf / oneOf members, not), stripping is
   idempotent, and the cache lookup keyed by it does not distinguish schemas that agree up to
   annotations anywhere.  Positions the AST does not represent (propertyNames, patternProperties,
   contains) are covered on the real code by the position-complete occurrences of every run. *)
Theorem C14_conversion_lookup_ignores_annotations_everywhere :
  (forall s, annotation_free (strip_annotations s) = true) /\
  (forall s, strip_annotations (strip_annotations s) = strip_annotations s) /\
  (forall (seqb : schema -> schema -> bool) c s s',
     strip_annotations s = strip_annotations s' ->
     cache_lookup schema strip_annotations seqb c s = cache_lookup schema strip_annotations seqb c s').
Proof.
  exact (conj strip_annotation_free (conj strip_annotations_idem conversion_lookup_ignores_annotations_everywhere)).
Qed.

(* Former finding C14-F1 (fixed in /repo by a0b7480): the strip is now recursive, so the
   lookup ignores annotations at EVERY depth.  Instance of the theorems above on a toy schema
   type with the deep strip [toy_deep]; [toy_top] is the strip of the code before the fix. *)
Theorem C14_convert_ignores_nested_annotations : forall before s r after s' conv_obj,
  toy_deep s' = toy_deep s ->
  (forall sr, In sr before -> toy_deep (fst sr) <> toy_deep s) ->
  convert_schema toy toy_deep toy_eqb (cache_of toy toy_deep (before ++ (s, r) :: after)) conv_obj s' = native_entry r.
Proof. exact convert_ignores_nested_annotations. Qed.

Theorem C14_top_level_strip_misses : exists s s' r,
  toy_deep s = toy_deep s' /\
  cache_lookup toy toy_top toy_eqb (cache_of toy toy_top [(s, r)]) s' = None /\
  cache_lookup toy toy_deep toy_eqb (cache_of toy toy_deep [(s, r)]) s' = Some (native_entry r).
Proof. exact top_level_strip_misses. Qed.

(* ---- none of the settings is read by the semantics of the generated code *)
Theorem C14_settings_irrelevant_de : forall re_match native_ok T s,
  de re_match native_ok (with_settings T s) = de re_match native_ok T.
Proof. exact settings_irrelevant_de. Qed.

Theorem C14_settings_irrelevant_ser : forall T s, ser (with_settings T s) = ser T.
Proof. exact settings_irrelevant_ser. Qed.

Theorem C14_builder_flag_irrelevant : forall re_match native_ok T b,
  de re_match native_ok (set_builder T b) = de re_match native_ok T /\
  ser (set_builder T b) = ser T /\
  sp_entries (set_builder T b) = sp_entries T /\
  (forall e, derives_of (set_builder T b) e = derives_of T e) /\
  (forall f i, type_ident (set_builder T b) f i = type_ident T f i).
Proof. exact builder_flag_irrelevant. Qed.

(* ---- the validator: same acceptance, same value, same serialisation, for EVERY instance *)
Theorem C14_wire_equiv_sound : forall re_match native_ok T T' t t',
  wire_equiv T t T' t' = true ->
  forall f v,
    de re_match native_ok T f t v = de re_match native_ok T' f t' v /\
    (de re_match native_ok T f t v = None <-> de re_match native_ok T' f t' v = None) /\
    (forall f2 x, ser T f2 t x = ser T' f2 t' x) /\
    (forall f2, match de re_match native_ok T f t v, de re_match native_ok T' f t' v with
                | Some x, Some x' => ser T f2 t x = ser T' f2 t' x'
                | None, None => True
                | _, _ => False
                end).
Proof. exact wire_equiv_sound. Qed.

Theorem C14_wire_equiv_all_sound : forall re_match native_ok T T' roots,
  wire_equiv_all T T' roots = true ->
  forall t t', In (t, t') roots -> forall f,
    (forall v, de re_match native_ok T f t v = de re_match native_ok T' f t' v) /\
    (forall x, ser T f t x = ser T' f t' x).
Proof. exact wire_equiv_all_sound. Qed.

(* Former finding C14-F2 (fixed in /repo by b9da3ef): Box<Option<T>> vs Option<Box<T>> now
   round-trip alike; the structural validator does not identify them (incompleteness, not
   unsoundness): such definitions are compared on compiled code only. *)
Theorem C14_box_option_incomplete :
  wire_equiv f2_base 2%N f2_sigma 2%N = false /\
  rt f2_base 2%N (JObj []) = Some (JObj []) /\
  rt f2_sigma 2%N (JObj []) = Some (JObj []).
Proof. exact box_option_incomplete. Qed.

(* ---- non-vacuity ------------------------------------------------------------------- *)
(* the same two types under default settings and under
   {map_type BTreeMap, derives [PartialEq], builder, patch Foo -> Bar + Eq}: other ids,
   other names, other derives, other settings; a replaced neighbour (id 9 / 3) that the
   compared types do not contain *)
Definition ex_base : space :=
  mkSpace [ (1%N, mkEntry (DStruct (u "Foo") None
                             [mkProp (u "m") RNone POptional 4%N; mkProp (u "k") (RRename (u "type")) PRequired 2%N] true) [])
          ; (2%N, mkEntry (DEnum (u "Kind") None TagExternal
                             [mkVariant (u "a") (u "A") VSimple; mkVariant (u "b") (u "B") (VItem 5%N)] false []) [])
          ; (3%N, mkEntry DString []); (4%N, mkEntry (DMap 3%N 5%N) []); (5%N, mkEntry (DInteger (u "i64")) [])
          ; (9%N, mkEntry (DStruct (u "Gone") None [] false) []) ]
          10%N (mkSettings None [] false (u "::std::collections::HashMap")) false false false false [].

Definition ex_sigma : space :=
  mkSpace [ (3%N, mkEntry (DNative (u "::std::string::String") [TDisplay] []) [])
          ; (11%N, mkEntry (DStruct (u "Bar") None
                             [mkProp (u "m") RNone POptional 14%N; mkProp (u "k") (RRename (u "type")) PRequired 12%N] true) [u "Eq"])
          ; (12%N, mkEntry (DEnum (u "Kind") None TagExternal
                             [mkVariant (u "a") (u "A") VSimple; mkVariant (u "b") (u "B") (VItem 15%N)] false []) [])
          ; (13%N, mkEntry DString []); (14%N, mkEntry (DMap 13%N 15%N) []); (15%N, mkEntry (DInteger (u "i64")) []) ]
          16%N (mkSettings None [u "PartialEq"] true (u ":: std :: collections :: BTreeMap")) false false false false [].

Example ex_wire_equiv_holds : wire_equiv ex_base 1%N ex_sigma 11%N = true.
Proof. vm_compute. reflexivity. Qed.

Example ex_wire_equiv_discriminates :
  wire_equiv ex_base 1%N ex_sigma 12%N = false /\         (* struct vs enum *)
  wire_equiv ex_base 9%N ex_sigma 3%N = false /\          (* the replaced definition *)
  wire_equiv ex_base 4%N ex_sigma 13%N = false.
Proof. repeat split; vm_compute; reflexivity. Qed.

Example ex_same_answers : forall re_match native_ok f v,
  de re_match native_ok ex_base f 1%N v = de re_match native_ok ex_sigma f 11%N v.
Proof. intros. apply (C14_wire_equiv_sound re_match native_ok _ _ _ _ ex_wire_equiv_holds f v). Qed.

Example ex_map_type_and_skip_path :
  type_ident ex_sigma 5 14%N = Some (u "::std::collections::BTreeMap<::std::string::String,i64>") /\
  type_ident ex_base 5 4%N = Some (u "::std::collections::HashMap<::std::string::String,i64>") /\
  option_map (fun e => match e_det e with DStruct _ _ (p :: _) _ => skip_path ex_sigma p | _ => [] end) (get ex_sigma 11%N)
    = Some (u "::std::collections::BTreeMap::is_empty") /\
  option_map (derives_of ex_sigma) (get ex_sigma 11%N) =
    Some (map u ["::serde::Deserialize"; "::serde::Serialize"; "Clone"; "Debug"; "Eq"; "PartialEq"]%string).
Proof. repeat split; vm_compute; reflexivity. Qed.

Example ex_colliding_last_segments :
  derives_of (mkSpace [] 0%N (mkSettings None [u "::rkyv::Serialize"; u "::stable_hash::Hash"] false (u "M")) false false false false [])
             (mkEntry (DEnum (u "E") None TagExternal [mkVariant (u "a") (u "A") VSimple] false []) [u "::enum_ordinalize::Ord"]) =
  map u ["::enum_ordinalize::Ord"; "::rkyv::Serialize"; "::serde::Deserialize"; "::serde::Serialize";
         "::stable_hash::Hash"; "Clone"; "Copy"; "Debug"; "Eq"; "Hash"; "Ord"; "PartialEq"; "PartialOrd"]%string.
Proof. vm_compute. reflexivity. Qed.

Example ex_rename_shapes_verbatim :
  map (fun r => det_name (e_det (new_named [(u "Addr", mkPatch (Some (u r)) [])] (u "Addr") (NStruct None [] false))))
      ["IPAddr"; "Address_V2"; "_Private"; "snake_case"; "fooBar"; "T"]%string =
  map (fun r => Some (u r)) ["IPAddr"; "Address_V2"; "_Private"; "snake_case"; "fooBar"; "T"]%string.
Proof. vm_compute. reflexivity. Qed.

Example ex_patch :
  new_named [(u "Foo", mkPatch (Some (u "Bar")) [u "Eq"])] (u "Foo") (NStruct None [] false) =
  mkEntry (DStruct (u "Bar") None [] false) [u "Eq"] /\
  new_named [(u "Foo", mkPatch (Some (u "Bar")) [u "Eq"])] (u "Other") (NStruct None [] false) =
  mkEntry (DStruct (u "Other") None [] false) [].
Proof. split; vm_compute; reflexivity. Qed.
