(* Property C08 — arbitrary JSON names map to valid identifiers and exact
   wire names.  ONLY the property theorems; proofs are in
   Proofs/SanitizeProofs.v, the model in Algo/Heck.v and Algo/Sanitize.v.

   Every theorem quantifies over ALL strings (lists of scalar values of any
   length) and over EVERY character classification `cls` satisfying
   `ClassesOK cls` (the hypotheses are audited exhaustively against Rust on
   every check run). *)
From Coq Require Import NArith List Bool String.
From Typify Require Import Algo.Heck Algo.Sanitize Proofs.SanitizeProofs.
Import ListNotations.
Open Scope N_scope.

(* The output of sanitize is non-empty, starts with an XID_Start scalar (never
   even '_') and consists of XID_Continue scalars: lexically an identifier. *)
Theorem C08_sanitize_lexical :
  forall cls, ClassesOK cls -> forall (s : ustring) (c : case),
    (exists h t, sanitize cls s c = h :: t /\ xid_start cls h = true /\
                 forall d, In d (h :: t) -> xid_continue cls d = true) /\
    lexical_ident cls (sanitize cls s c) = true.
Proof.
  intros cls OK s c. split.
  - exact (sanitize_shape cls OK s c).
  - exact (sanitize_lexical cls OK s c).
Qed.

(* ... and it is accepted by syn::parse_str::<syn::Ident> (not a keyword of
   syn's list, not "_"). *)
Theorem C08_sanitize_accepted :
  forall cls, ClassesOK cls -> forall (s : ustring) (c : case),
    syn_ident_ok cls (sanitize cls s c) = true.
Proof. exact sanitize_accepted. Qed.

(* identifier + serde rename always denote exactly the original JSON name *)
Theorem C08_recase_wire :
  forall cls (s : ustring) (c : case), wire_name (recase cls s c) = s.
Proof. exact recase_wire. Qed.

(* the rename is emitted exactly when the identifier differs from the name *)
Theorem C08_recase_rename_iff :
  forall cls (s : ustring) (c : case),
    fst (recase cls s c) = sanitize cls s c /\
    (snd (recase cls s c) = None <-> sanitize cls s c = s) /\
    (forall r, snd (recase cls s c) = Some r -> r = s /\ sanitize cls s c <> s).
Proof. exact recase_rename_iff. Qed.

(* enum variants: distinct valid identifiers, or the algorithm panics —
   never duplicates *)
Theorem C08_variants_distinct_or_fail :
  forall cls, ClassesOK cls -> forall (raws ids : list ustring),
    variant_idents cls raws = Ok ids ->
    NoDup ids /\ List.length ids = List.length raws /\
    Forall (fun i => syn_ident_ok cls i = true) ids.
Proof. exact variants_distinct_or_fail. Qed.

(* enum variants: wire names are the enum values, in order; rename iff needed *)
Theorem C08_variant_wire :
  forall cls, ClassesOK cls -> forall (raws : list ustring) vs,
    variants cls raws = Ok vs ->
    List.map wire_name vs = raws /\ NoDup (List.map fst vs) /\
    (forall v, In v vs -> snd v = None <-> fst v = wire_name v).
Proof. exact variant_wire. Qed.

(* struct fields: wire names are the property names, every identifier valid *)
Theorem C08_fields_wire :
  forall cls, ClassesOK cls -> forall (props : list ustring),
    List.map wire_name (field_idents cls props) = props /\
    Forall (fun f => syn_ident_ok cls (fst f) = true) (field_idents cls props).
Proof. exact fields_wire. Qed.

(* replacement lookup (lib.rs:650): a replacement applies to definition d
   iff its key is sanitize(d, Pascal); definitions with the same sanitised
   name get the same replacement *)
Theorem C08_replace_lookup :
  forall cls T (repl : list (ustring * T)) (d : ustring),
    (replace_lookup cls repl d <> None <-> In (sanitize cls d Pascal) (List.map fst repl)) /\
    (forall d', sanitize cls d' Pascal = sanitize cls d Pascal ->
                replace_lookup cls repl d' = replace_lookup cls repl d).
Proof. exact replace_lookup_spec. Qed.

(* ... hence a replacement keyed by a string that is not an identifier (for
   instance the raw definition name "foo-bar") never applies *)
Theorem C08_replace_key_is_identifier :
  forall cls, ClassesOK cls -> forall T (k : ustring) (t : T) (d : ustring),
    syn_ident_ok cls k = false -> replace_lookup cls [(k, t)] d = None.
Proof. exact replace_key_is_identifier. Qed.

(* struct fields (structs.rs struct_members, with the check of fix 5896b59):
   distinct identifiers bound to exactly the property names, or Err -- never
   duplicates; `fl` is the synthesised flattened field *)
Theorem C08_fields_distinct_or_err :
  forall cls, ClassesOK cls -> forall (props : list ustring) (typed_additional : bool) fs fl,
    struct_members cls props typed_additional = Ok (fs, fl) ->
    NoDup (List.map fst fs ++ fl) /\
    List.map wire_name fs = props /\
    Forall (fun f => syn_ident_ok cls (fst f) = true) fs /\
    fl = (if typed_additional then [s_extra] else []).
Proof. exact struct_members_distinct_or_err. Qed.

(* the Err is not over-eager: it is reported for every collision ... *)
Theorem C08_fields_err_on_collision :
  forall cls (props : list ustring) (typed_additional : bool),
    Fields_collide cls props \/ Field_collides_extra cls props typed_additional ->
    struct_members cls props typed_additional = Err.
Proof. exact struct_members_err_on_collision. Qed.

(* ... and only for collisions *)
Theorem C08_fields_ok_without_collision :
  forall cls (props : list ustring) (typed_additional : bool),
    NoDup props ->
    ~ Fields_collide cls props -> ~ Field_collides_extra cls props typed_additional ->
    exists r, struct_members cls props typed_additional = Ok r.
Proof. exact struct_members_ok_without_collision. Qed.

(* regression: the witnesses of the repaired findings C08-F1, C08-F3 are rejected *)
Example C08_fields_witnesses_rejected :
  struct_members ascii_classes w_f1 false = Err /\
  struct_members ascii_classes w_f3 true = Err /\
  struct_members ascii_classes w_f3 false = Ok ([(ustr "extra"%string, None)], []).
Proof.
  destruct fields_witnesses_rejected as [_ [_ [H1 [_ [_ [H2 H3]]]]]]. auto.
Qed.

(* definitions added by one call (lib.rs add_ref_types_impl, with the check of
   fix c22ef06): distinct valid item names, or Err -- never duplicates *)
Theorem C08_defs_distinct_or_err :
  forall cls, ClassesOK cls -> forall (defs ids : list ustring),
    add_definitions cls defs = Ok ids ->
    NoDup ids /\ ids = List.map (fun d => sanitize cls d Pascal) defs /\
    Forall (fun i => syn_ident_ok cls i = true) ids.
Proof. exact add_definitions_distinct_or_err. Qed.

(* the Err is reported for every collision and, for distinct definition
   names, only for collisions *)
Theorem C08_defs_err_on_collision :
  forall cls (defs : list ustring), Defs_collide cls defs -> add_definitions cls defs = Err.
Proof. exact add_definitions_err_on_collision. Qed.

Theorem C08_defs_ok_without_collision :
  forall cls (defs : list ustring),
    NoDup defs -> ~ Defs_collide cls defs -> exists ids, add_definitions cls defs = Ok ids.
Proof. exact add_definitions_ok_without_collision. Qed.

(* regression: the witness of the repaired finding C08-F2 is rejected *)
Example C08_defs_witness_rejected :
  add_definitions ascii_classes w_f2 = Err /\
  add_definitions ascii_classes [ustr "foo"%string; ustr "bar"%string] = Ok [ustr "Foo"%string; ustr "Bar"%string].
Proof. destruct defs_witness_rejected as [_ [_ [H1 H2]]]. auto. Qed.

(* ALL definition-level name sources of one call -- definition keys, the titled
   root (named from its title), patch renames -- give pairwise distinct item
   names, or Err.  (Derived names of inline sub-types are not in the model.) *)
Theorem C08_batch_distinct_or_err :
  forall cls, ClassesOK cls ->
  forall (patch : list (ustring * ustring)) (defs : list ustring) (title : option ustring) ids,
    add_batch cls patch defs title = Ok ids ->
    NoDup ids /\ ids = batch_type_names cls patch defs title /\
    (patch = [] -> Forall (fun i => syn_ident_ok cls i = true) ids).
Proof. exact add_batch_distinct_or_err. Qed.

(* the root title takes part in the comparison: a definition key whose (patched)
   type name equals that of the title is rejected *)
Theorem C08_batch_err_title_vs_key :
  forall cls (patch : list (ustring * ustring)) (defs : list ustring) (t d : ustring),
    In d defs ->
    type_patch patch (sanitize cls d Pascal) = type_patch patch (sanitize cls t Pascal) ->
    add_batch cls patch defs (Some t) = Err.
Proof. exact add_batch_err_title_vs_key. Qed.

Theorem C08_batch_err_key_vs_key :
  forall cls (patch : list (ustring * ustring)) (defs : list ustring) (title : option ustring) (d1 d2 : ustring),
    In d1 defs -> In d2 defs -> d1 <> d2 ->
    type_patch patch (sanitize cls d1 Pascal) = type_patch patch (sanitize cls d2 Pascal) ->
    add_batch cls patch defs title = Err.
Proof. exact add_batch_err_key_vs_key. Qed.

(* add_batch without patch and root is add_definitions *)
Theorem C08_batch_defs_only :
  forall cls (defs : list ustring), add_batch cls [] defs None = add_definitions cls defs.
Proof. exact add_batch_defs_only. Qed.

Example C08_batch_witnesses :
  add_batch ascii_classes [] [ustr "my-type"%string] (Some (ustr "my type"%string)) = Err /\
  add_batch ascii_classes [] [ustr "T"%string] (Some (ustr "T"%string)) = Err /\
  add_batch ascii_classes [] [ustr "my-type"%string] (Some (ustr "my other type"%string))
    = Ok [ustr "MyType"%string; ustr "MyOtherType"%string] /\
  add_batch ascii_classes [(ustr "Foo"%string, ustr "Bar"%string)] [ustr "foo"%string; ustr "Bar"%string] None = Err /\
  add_batch ascii_classes [(ustr "Foo"%string, ustr "Baz"%string)] [ustr "foo"%string; ustr "Bar"%string] None
    = Ok [ustr "Baz"%string; ustr "Bar"%string].
Proof. exact batch_witnesses. Qed.

(* Every named entry CREATED by one call on a fresh type space -- definition
   keys, the titled root, patch renames AND the derived names of inline object
   properties (lib.rs created_names check, fix 40183ea) -- has its own name, or
   Err.  `defs` / `root` carry, for each definition, the names of its properties
   with an inline (titleless) object schema. *)
Theorem C08_created_distinct_or_err :
  forall cls (patch : list (ustring * ustring)) (defs : list (ustring * list ustring))
         (root : option (ustring * list ustring)) ids,
    add_batch_full cls patch defs root = Ok ids ->
    NoDup ids /\ ids = created_names cls patch defs root.
Proof. exact add_batch_full_distinct_or_err. Qed.

(* without inline types this is add_batch *)
Theorem C08_created_plain :
  forall cls (patch : list (ustring * ustring)) (defs : list ustring) (title : option ustring),
    add_batch_full cls patch (List.map (fun d => (d, [])) defs) (option_map (fun t => (t, [])) title)
    = add_batch cls patch defs title.
Proof. exact add_batch_full_plain. Qed.

(* former finding C08-F5: root name / later definition name equal to the derived
   name of an inline type of a definition of the same call is rejected *)
Theorem C08_created_err_root_vs_derived :
  forall cls (patch : list (ustring * ustring)) (defs : list (ustring * list ustring))
         (d : ustring) (ps : list ustring) (p t : ustring) (tps : list ustring),
    In (d, ps) defs -> In p ps ->
    derived_name cls patch d p = type_patch patch (sanitize cls t Pascal) ->
    add_batch_full cls patch defs (Some (t, tps)) = Err.
Proof. exact add_batch_full_err_root_vs_derived. Qed.

Theorem C08_created_err_key_vs_derived :
  forall cls (patch : list (ustring * ustring)) l1 (d : ustring) (ps : list ustring) l2
         (d2 : ustring) (ps2 : list ustring) l3 (p : ustring) root,
    In p ps ->
    derived_name cls patch d p = type_patch patch (sanitize cls d2 Pascal) ->
    add_batch_full cls patch (l1 ++ (d, ps) :: l2 ++ (d2, ps2) :: l3) root = Err.
Proof. exact add_batch_full_err_key_vs_derived. Qed.

Example C08_created_witnesses :
  add_batch_full ascii_classes [] [(ustr "Foo"%string, [ustr "bar"%string])] (Some (ustr "foo bar"%string, [])) = Err /\
  add_batch_full ascii_classes [] [(ustr "Foo"%string, [ustr "bar"%string]); (ustr "FooBar"%string, [])] None = Err /\
  add_batch_full ascii_classes [] [(ustr "Foo"%string, [ustr "bar"%string])] (Some (ustr "foo bar q"%string, []))
    = Ok [ustr "FooBar"%string; ustr "Foo"%string; ustr "FooBarQ"%string] /\
  add_batch_full ascii_classes [] [(ustr "ZooBar"%string, []); (ustr "zoo"%string, [ustr "bar"%string])] None
    = Ok [ustr "ZooBar"%string; ustr "Zoo"%string].
Proof. exact batch_full_witnesses. Qed.

(* non-vacuity: the class hypotheses are satisfiable, and both the X fallback
   and the panic of the variant algorithm are reachable *)
Theorem C08_classes_satisfiable : ClassesOK ascii_classes.
Proof. exact ascii_classes_ok. Qed.

Example C08_variants_fallback_reachable :
  variant_idents ascii_classes [ustr "a"%string; ustr "a_"%string] = Ok [ustr "A"%string; ustr "AX"%string].
Proof. exact variants_fallback_example. Qed.

Example C08_variants_panic_reachable :
  variant_idents ascii_classes [ustr "a"%string; ustr "A"%string] = Panic.
Proof. exact variants_panic_example. Qed.
