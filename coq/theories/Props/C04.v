(* Props/C04.v — property C04: Rust -> schemars schema -> typify type is wire
   compatible with the original.  Only statements; proofs in Proofs/RustDefsProofs.v.

   FULL STATEMENT (not provable here: schemars is observed, not modelled):
     forall U (universe of serde-derivable definitions) T in U,
       let D := schemars_root_schema U T in
       forall route in {add_root_schema D; add_ref_types D.definitions + add_type D.schema},
       let (S', t') := typify route in
       forall x : value of T,
         exists x', de S' t' (ser (ir_of_rust U) T x) = Some x' /\
                    de (ir_of_rust U) T (ser S' t' x') = Some x.
   The forall-U / forall-route part is evaluated on generated universes by the
   check (compiled ORIGIN crate x compiled generated crates exchanging values);
   what is proved: the value-level consequence of a `true` verdict of C14's proven
   wire-equivalence checker ([C04_wire_compat_from_equiv], unconditional), and unconditional facts about the origin-side model: serde's
   rename rules, unit variants, Option members, skip_serializing_if. *)
From Coq Require Import String ZArith NArith QArith List Bool.
From Typify Require Import Base.Json IR.TypeIR IR.Serde Algo.RustDefs Check.WireEquiv Proofs.RustDefsProofs.
Import ListNotations.
Close Scope Q_scope.
Close Scope string_scope.
Open Scope list_scope.
Open Scope N_scope.

(* ---- the two clauses of the property from a wire-equivalence verdict of C14's PROVEN
   checker Check/WireEquiv.wire_equiv (soundness: Proofs/SettingsProofs.wire_equiv_sound_fuel).
   Unconditional in the value quantifier: whenever the checker says true on (ir_of_rust U, the IR
   typify produced), every value of the original type is accepted by the generated type with the
   same wire form, and read back by the original as the same value. *)
Theorem C04_wire_compat_from_equiv :
  forall (re_match native_ok : ustring -> ustring -> bool)
         (U : universe) (t : id) (T' : space) (t' : id),
    wire_equiv (ir_of_rust U) t T' t' = true ->
    forall fuel x j,
      ser (ir_of_rust U) fuel t x = Some j ->
      de re_match native_ok (ir_of_rust U) fuel t j = Some x ->
      exists x', de re_match native_ok T' fuel t' j = Some x' /\
                 exists j', ser T' fuel t' x' = Some j' /\
                            de re_match native_ok (ir_of_rust U) fuel t j' = Some x.
Proof. exact c04_wire_compat_from_equiv_lemma. Qed.

(* the same consequence for ANY checker whose verdict implies [same_wire] (kept: it does not
   depend on which checker is plugged in) *)
Theorem C04_wire_compat_from_any_sound_checker :
  forall (re_match native_ok : ustring -> ustring -> bool)
         (chk : space -> id -> space -> id -> bool),
    (forall T t T' t', chk T t T' t' = true -> same_wire re_match native_ok T t T' t') ->
    forall (U : universe) (t : id) (T' : space) (t' : id),
      chk (ir_of_rust U) t T' t' = true ->
      forall fuel x j,
        ser (ir_of_rust U) fuel t x = Some j ->
        de re_match native_ok (ir_of_rust U) fuel t j = Some x ->
        exists x', de re_match native_ok T' fuel t' j = Some x' /\
                   exists j', ser T' fuel t' x' = Some j' /\
                              de re_match native_ok (ir_of_rust U) fuel t j' = Some x.
Proof. exact c04_wire_compat_from_equiv_partial_lemma. Qed.

(* ---- serde_derive's rename rules (internals/case.rs), ASCII identifiers *)
Theorem C04_rename_all_rules :
  forall (f v : ustring),
    (* fields are written in snake_case: these rules leave them alone *)
    (rename_field RuNone f = f /\ rename_field RuSnake f = f /\ rename_field RuLower f = f) /\
    (* variants are written in PascalCase *)
    (rename_variant RuNone v = v /\ rename_variant RuPascal v = v) /\
    (* kebab-case: no '_' left, same length, idempotent *)
    (~ In underscore (rename_field RuKebab f) /\ length (rename_field RuKebab f) = length f /\
     rename_field RuKebab (rename_field RuKebab f) = rename_field RuKebab f) /\
    (* UPPERCASE = SCREAMING_SNAKE_CASE on fields: no lower-case letter, same length, idempotent *)
    (rename_field RuScreamingSnake f = rename_field RuUpper f /\
     (forall c, In c (rename_field RuUpper f) -> is_lower c = false) /\
     length (rename_field RuUpper f) = length f /\
     rename_field RuUpper (rename_field RuUpper f) = rename_field RuUpper f) /\
    (* SCREAMING-KEBAB-CASE: neither '_' nor lower-case letters *)
    (~ In underscore (rename_field RuScreamingKebab f) /\
     (forall c, In c (rename_field RuScreamingKebab f) -> is_lower c = false)) /\
    (* PascalCase / camelCase on fields drop every '_' *)
    (~ In underscore (rename_field RuPascal f) /\ ~ In underscore (rename_field RuCamel f)) /\
    (* snake_case on variants: no upper-case letter left, idempotent *)
    ((forall c, In c (rename_variant RuSnake v) -> is_upper c = false) /\
     rename_variant RuSnake (rename_variant RuSnake v) = rename_variant RuSnake v) /\
    (~ In underscore (rename_variant RuKebab v) /\ ~ In underscore (rename_variant RuScreamingKebab v)) /\
    (rename_variant RuUpper (rename_variant RuUpper v) = rename_variant RuUpper v /\
     rename_variant RuLower (rename_variant RuLower v) = rename_variant RuLower v).
Proof. exact c04_rename_all_rules_lemma. Qed.

(* kebab-case never merges two distinct Rust field identifiers *)
Theorem C04_rename_kebab_injective :
  forall f g : ustring,
    ~ In hyphen f -> ~ In hyphen g -> rename_field RuKebab f = rename_field RuKebab g -> f = g.
Proof. exact rename_field_kebab_injective. Qed.

(* an explicit #[serde(rename = "..")] wins over the container's rename_all *)
Theorem C04_explicit_rename_wins :
  forall rule f v w,
    (rf_rename f = Some w -> field_wire rule f = w) /\ (rv_rename v = Some w -> variant_wire rule v = w).
Proof. exact c04_explicit_rename_wins_lemma. Qed.

(* ---- a unit variant on the wire, under the four representations, and back *)
Theorem C04_unit_variant_wire :
  forall (T : space) (ser : id -> rval -> option json) (de : id -> json -> option rval) (dflt : id -> option rval)
         (vs : list variant) (i : nat) (v : variant) (deny : bool),
    NoDup (map v_raw vs) -> nth_error vs i = Some v -> v_det v = VSimple ->
    (ser_enum T ser TagExternal vs (REnum i RUnit) = Some (JStr (v_raw v)) /\
     de_enum T de dflt TagExternal vs deny (JStr (v_raw v)) = Some (REnum i RUnit)) /\
    (forall tg,
       ser_enum T ser (TagInternal tg) vs (REnum i RUnit) = Some (JObj [(tg, JStr (v_raw v))]) /\
       de_enum T de dflt (TagInternal tg) vs deny (JObj [(tg, JStr (v_raw v))]) = Some (REnum i RUnit)) /\
    (forall tg ct, ustr_eqb ct tg = false ->
       ser_enum T ser (TagAdjacent tg ct) vs (REnum i RUnit) = Some (JObj [(tg, JStr (v_raw v))]) /\
       de_enum T de dflt (TagAdjacent tg ct) vs deny (JObj [(tg, JStr (v_raw v))]) = Some (REnum i RUnit)) /\
    ser_enum T ser TagUntagged vs (REnum i RUnit) = Some JNull.
Proof. exact c04_unit_variant_wire_lemma. Qed.

(* ---- a missing Option member without `default` is None.  (IR/Serde.v [missing]: an
   absent member without default is accepted exactly when its type reads null as
   the bare None; for the abstract deserialiser [de] of this statement that is a
   hypothesis, for the real one it holds: C04_option_field_missing_none_de.) *)
Theorem C04_option_field_missing_none :
  forall (T : space) (de : id -> json -> option rval) (dflt : id -> option rval)
         (p : prop) (r : list prop) (kvs : list (ustring * json)) (w : ustring) (t : id) xs,
    p_state p = PRequired -> get_det T (p_ty p) = Some (DOption t) ->
    de (p_ty p) JNull = Some ROptNone ->
    wire_name p = Some w -> assoc w kvs = None ->
    de_named T de dflt r kvs = Some xs ->
    de_named T de dflt (p :: r) kvs = Some ((p_name p, ROptNone) :: xs).
Proof. exact option_member_missing. Qed.

Theorem C04_option_field_missing_none_de :
  forall re native (T : space) (f : nat) (dflt : id -> option rval)
         (p : prop) (r : list prop) (kvs : list (ustring * json)) (w : ustring) (t : id) xs,
    p_state p = PRequired -> get_det T (p_ty p) = Some (DOption t) ->
    wire_name p = Some w -> assoc w kvs = None ->
    de_named T (Serde.de re native T (S f)) dflt r kvs = Some xs ->
    de_named T (Serde.de re native T (S f)) dflt (p :: r) kvs = Some ((p_name p, ROptNone) :: xs).
Proof. exact option_member_missing_de. Qed.

(* ---- skip_serializing_if = "Option::is_none": None is not written, and read back as None *)
Theorem C04_skip_none_roundtrip :
  forall (T : space) (ser : id -> rval -> option json) (de : id -> json -> option rval) (fuel : nat)
         (p : prop) (r : list prop) (fs : list (ustring * rval)) (kvs : list (ustring * json))
         (w : ustring) (t : id) xs,
    p_state p = POptional -> get_det T (p_ty p) = Some (DOption t) ->
    wire_name p = Some w ->
    assoc (p_name p) fs = Some ROptNone ->
    (* output: the member contributes nothing *)
    ser_fields T ser (p :: r) fs = ser_fields T ser r fs /\
    (* input: an object without the member restores None *)
    (assoc w kvs = None ->
     de_named T de (default_val T (S fuel)) r kvs = Some xs ->
     de_named T de (default_val T (S fuel)) (p :: r) kvs = Some ((p_name p, ROptNone) :: xs)).
Proof. exact c04_skip_none_roundtrip_lemma. Qed.

(* ================================================================ examples (non-vacuity) *)
Definition s (x : string) : ustring := ustr_of_string x.

Example ex_rename_fields :
  rename_field RuCamel (s "first_name") = s "firstName" /\
  rename_field RuPascal (s "first_name") = s "FirstName" /\
  rename_field RuKebab (s "last_seen_at") = s "last-seen-at" /\
  rename_field RuScreamingKebab (s "x_1") = s "X-1" /\
  rename_field RuScreamingSnake (s "opt_level") = s "OPT_LEVEL".
Proof. vm_compute. repeat split. Qed.

Example ex_rename_variants :
  rename_variant RuSnake (s "HTTPError") = s "h_t_t_p_error" /\
  rename_variant RuKebab (s "FooBar") = s "foo-bar" /\
  rename_variant RuScreamingSnake (s "VeryLongVariantName") = s "VERY_LONG_VARIANT_NAME" /\
  rename_variant RuCamel (s "FooBar") = s "fooBar" /\
  rename_variant RuLower (s "ABc") = s "abc".
Proof. vm_compute. repeat split. Qed.

(* #[serde(rename_all = "camelCase", deny_unknown_fields)]
   struct Inner { first_name: String, #[serde(skip_serializing_if = "Option::is_none")] opt_level: Option<u8>,
                  #[serde(default)] tags: Vec<String> }
   #[serde(tag = "kind", rename_all = "kebab-case")] enum E { UnitVar, NewVar(Inner) } *)
Definition ex_U : universe :=
  [ RdStruct (s "Inner") RuCamel true false
      [ mkRField (s "first_name") RtString None false false None;
        mkRField (s "opt_level") (RtOption (RtInt (s "u8"))) None false true None;
        mkRField (s "tags") (RtVec RtString) None true false None ];
    RdEnum (s "E") (TagInternal (s "kind")) RuKebab false
      [ mkRVariant (s "UnitVar") None RvUnit;
        mkRVariant (s "NewVar") None (RvNewtype (RtRef (s "Inner"))) ] ].

Definition nore (_ _ : ustring) := false.

Definition ex_rt (t : ustring) (j : json) : option json :=
  rt nore nore (ir_of_rust ex_U) 20 (rust_id ex_U t) j.

Example ex_inner_roundtrip :
  ex_rt (s "Inner") (JObj [(s "firstName", JStr (s "a"))])
  = Some (JObj [(s "firstName", JStr (s "a")); (s "tags", JArr [])]).
Proof. vm_compute. reflexivity. Qed.

Example ex_inner_denies_unknown :
  ex_rt (s "Inner") (JObj [(s "firstName", JStr (s "a")); (s "first_name", JStr (s "a"))]) = None.
Proof. vm_compute. reflexivity. Qed.

Example ex_enum_internal :
  ex_rt (s "E") (JObj [(s "kind", JStr (s "new-var")); (s "firstName", JStr (s "a")); (s "optLevel", JInt 3)])
  = Some (JObj [(s "kind", JStr (s "new-var")); (s "firstName", JStr (s "a")); (s "optLevel", JInt 3);
                (s "tags", JArr [])]) /\
  ex_rt (s "E") (JObj [(s "kind", JStr (s "unit-var"))]) = Some (JObj [(s "kind", JStr (s "unit-var"))]).
Proof. vm_compute. split; reflexivity. Qed.

(* the hypothesis of C04_wire_compat_from_equiv is satisfiable: the checker answers true on the model of
   the example universe against an IR that differs in ids, names and member ORDER-irrelevant data
   (here: against itself; the check evaluates it on the real typify dumps every run) *)
Example ex_wire_equiv_true :
  wire_equiv (ir_of_rust ex_U) (rust_id ex_U (s "E")) (ir_of_rust ex_U) (rust_id ex_U (s "E")) = true.
Proof. vm_compute. reflexivity. Qed.

(* the hypothesis of C04_wire_compat_from_any_sound_checker is satisfiable *)
Example ex_same_wire_refl : forall T t, same_wire nore nore T t T t.
Proof. intros T t fuel j. reflexivity. Qed.

(* ================================================================ recorded finding C04-4 (witness)
   #[serde(tag = "type")] enum Command { Branch, Leaf { right: () } }
   typify reads schemars' schema of this INTERNALLY tagged enum as ADJACENTLY tagged with content
   "right" and, the content being unit, makes `Leaf` a unit variant: the generated type drops the
   member on output and the original then reports a missing field.  [known4_T'] is the IR the real
   typify produced (verif_dump through py/tocoq.py); replayed on the compiled crates by the check
   (corpus/C04/f4-internal-unit-field.json). *)
Definition known4_U : universe :=
  [ RdEnum (s "Command") (TagInternal (s "type")) RuNone false
      [ mkRVariant (s "Branch") None RvUnit;
        mkRVariant (s "Leaf") None (RvStruct RuNone [ mkRField (s "right") RtUnit None false false None ]) ] ].

Definition known4_T' : space :=
  mkSpace [(1, mkEntry (DEnum (s "Command") None (TagAdjacent (s "type") (s "right"))
                          [ mkVariant (s "Branch") (s "Branch") VSimple;
                            mkVariant (s "Leaf") (s "Leaf") VSimple ] false [AllSimpleVariants]) [])]
          2 std_settings false false false false [].

Definition known4_j : json := JObj [(s "type", JStr (s "Leaf")); (s "right", JNull)].

Theorem C04_internal_unit_member_refuted :
  exists (U : universe) (t : id) (T' : space) (t' : id) (fuel : nat) (x : rval) (j : json),
    ser (ir_of_rust U) fuel t x = Some j /\
    de nore nore (ir_of_rust U) fuel t j = Some x /\
    exists x' j',
      de nore nore T' fuel t' j = Some x' /\
      ser T' fuel t' x' = Some j' /\
      de nore nore (ir_of_rust U) fuel t j' = None.
Proof.
  exists known4_U, (rust_id known4_U (s "Command")), known4_T', 1, 10%nat,
         (REnum 1 (RStruct [(s "right", RUnit)])), known4_j.
  split; [vm_compute; reflexivity|]. split; [vm_compute; reflexivity|].
  exists (REnum 1 RUnit), (JObj [(s "type", JStr (s "Leaf"))]).
  split; [vm_compute; reflexivity|]. split; vm_compute; reflexivity.
Qed.
