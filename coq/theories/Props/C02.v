(* C02 — every schema-valid instance deserialises.
   Property theorems only; each is closed by `exact <lemma>`.

   Models: Spec/Valid.v (draft-07 validity, [Valid]), IR/Serde.v (what
   serde_json::from_str does for a type of the generated type space, [de]),
   Check/Covers.v (the decidable validator [covers]/[covers_all] evaluated on
   the type space the real typify produced).  Proofs: Proofs/CoversProofs.v,
   Proofs/SerdeProofs.v.

   [re_match] (regex engine), [fmt_ok] (string-format recogniser of the
   specification) and [native_ok] (FromStr/Deserialize of uuid/chrono/std::net
   types) are arbitrary; the only link assumed is that a string the format
   recogniser accepts is accepted by the native type the format maps to. *)
From Coq Require Import String ZArith NArith QArith List Bool.
From Typify Require Import Base.Json Spec.Schema Spec.Valid IR.TypeIR IR.Serde Check.Covers
  Proofs.SerdeProofs Proofs.CoversProofs.
Import ListNotations.
Close Scope Q_scope.
Close Scope string_scope.
Open Scope list_scope.

(* Soundness of the validator: when every assumed pair (definition name, type
   id) is discharged by [covers], every instance of the instance domain
   (integers written as integer literals within i64, no integral-valued float
   literal, distinct member names in every object) that is valid under a listed
   definition is accepted by the deserialiser of the paired type. *)
Theorem C02_covers_sound :
  forall re_match fmt_ok native_ok D T A,
    (forall f n s, In (f, n) format_native_table -> fmt_ok f s = true -> native_ok n s = true) ->
    covers_all re_match native_ok D T A = true ->
    forall r t, In (r, t) A ->
    forall v, in_dom v = true ->
    Valid re_match fmt_ok D (SRef r) v ->
    exists f, de re_match native_ok T f t v <> None.
Proof. exact covers_sound. Qed.

(* The same for an arbitrary schema (not only a definition), any [nn] flag and
   the three kinds of target (a type, the members of a struct variant, the
   elements of a tuple variant), at every validity fuel: the statement the
   induction proves. *)
Theorem C02_covers_core :
  forall re_match fmt_ok native_ok D T A,
    (forall f n s, In (f, n) format_native_table -> fmt_ok f s = true -> native_ok n s = true) ->
    covers_all re_match native_ok D T A = true ->
    forall n s nn tg v,
      covers re_match native_ok T A s nn tg = true ->
      in_dom v = true -> (nn = true -> v <> JNull) ->
      validx re_match fmt_ok draft07 D n s v = true ->
      match tg with
      | TId t => exists f, de re_match native_ok T f t v <> None
      | TProps ps deny =>
          exists f kvs, v = JObj kvs /\
                        de_struct_obj T (de re_match native_ok T f) (default_val T f) ps deny kvs <> None
      | TTuple ts =>
          exists f, de_payload T (de re_match native_ok T f) (default_val T f) false (VTuple ts) v <> None
      end.
Proof. exact covers_core. Qed.

(* Acceptance by [de] is monotone in the fuel (the returned value is not: with
   more fuel an earlier variant of an untagged enum may start to accept). *)
Theorem C02_acc_mono :
  forall re_match native_ok T f f' t v,
    f <= f' -> de re_match native_ok T f t v <> None -> de re_match native_ok T f' t v <> None.
Proof. exact acc_mono. Qed.

Theorem C02_acc_result_not_mono :
  exists re native T f f' t v x y,
    f <= f' /\ de re native T f t v = Some x /\ de re native T f' t v = Some y /\ x <> y.
Proof. exact de_result_not_mono. Qed.

Theorem C02_default_val_mono :
  forall T f f' t, f <= f' -> default_val T f t <> None -> default_val T f' t <> None.
Proof. exact default_val_mono. Qed.

(* ------------------------------------------------------------------ non-vacuity
   A recursive document: a linked list
     Node = { "type":"object", "required":["v"],
              "properties": { "next": {"anyOf":[{"$ref":"#/definitions/Node"},{"type":"null"}]},
                              "v": {"type":"integer","minimum":0,"maximum":255} } }
   and the type space typify produces for it:
     0: struct Node { next: Option<Box<Node>> (Optional), v: u8 (Required) }
     1: Option<2>   2: Box<0>   3: u8 *)
Definition u (s : string) : ustring := ulit s.

Definition ex_null : schema :=
  SObj (Some [TNull]) None None None numv_none strv_none ItemsAbsent [] None None None false
       [] [] None None None None None None None None None None.
Definition ex_next : schema :=
  SObj None None None None numv_none strv_none ItemsAbsent [] None None None false
       [] [] None None None None (Some [SRef (u "Node"); ex_null]) None None None None None.
Definition ex_v : schema :=
  SObj (Some [TInteger]) None None None
       (mkNumv None (Some (inject_Z 255)) None (Some (inject_Z 0)) None) strv_none
       ItemsAbsent [] None None None false
       [] [] None None None None None None None None None None.
Definition ex_node : schema :=
  SObj (Some [TObject]) None None None numv_none strv_none ItemsAbsent [] None None None false
       [(u "next", ex_next); (u "v", ex_v)] [u "v"] None None None None None None None None None None.

Definition ex_D : defs := [(u "Node", ex_node)].
Definition ex_T : space :=
  mkSpace
    [ (0%N, mkEntry (DStruct (u "Node") None
                             [mkProp (u "next") RNone POptional 1%N; mkProp (u "v") RNone PRequired 3%N]
                             false) []);
      (1%N, mkEntry (DOption 2%N) []);
      (2%N, mkEntry (DBox 0%N) []);
      (3%N, mkEntry (DInteger (u "u8")) []) ]
    4%N (mkSettings None [] false (u "HashMap")) false false false false [].
Definition ex_A : list (ustring * id) := [(u "Node", 0%N)].

(* the validator accepts the pair (the recursive reference is the assumed pair) *)
Example C02_list_covers : forall re_match native_ok, covers_all re_match native_ok ex_D ex_T ex_A = true.
Proof. intros. vm_compute. reflexivity. Qed.

(* hence, for every engine: every valid list deserialises *)
Example C02_list_sound :
  forall re_match fmt_ok native_ok,
    (forall f n s, In (f, n) format_native_table -> fmt_ok f s = true -> native_ok n s = true) ->
    forall v, in_dom v = true ->
    Valid re_match fmt_ok ex_D (SRef (u "Node")) v ->
    exists f, de re_match native_ok ex_T f 0%N v <> None.
Proof.
  intros re_match fmt_ok native_ok Hf v Hd Hv.
  apply (covers_sound re_match fmt_ok native_ok ex_D ex_T ex_A Hf (C02_list_covers _ _) (u "Node") 0%N);
    [left; reflexivity | exact Hd | exact Hv].
Qed.

(* the hypotheses are satisfiable: engines exist, and a two-element list is in
   the domain, valid, and accepted *)
Definition ex_list : json :=
  JObj [(u "v", JInt 7); (u "next", JObj [(u "next", JNull); (u "v", JInt 255)])].

Example C02_list_instance :
  let yes := fun _ _ : ustring => true in
  (forall f n s, In (f, n) format_native_table -> yes f s = true -> yes n s = true)
  /\ in_dom ex_list = true
  /\ Valid yes yes ex_D (SRef (u "Node")) ex_list
  /\ de yes yes ex_T 6 0%N ex_list <> None.
Proof.
  split; [reflexivity|]. split; [reflexivity|]. split.
  - exists 4. split; vm_compute; reflexivity.
  - vm_compute. discriminate.
Qed.

(* and the validator is not trivially "true": the same schema against a space
   where `v` is an i8 is refused (255 does not fit), as is a sibling of "$ref"
   used to narrow the instance (draft-07 ignores it). *)
Definition ex_T_bad : space :=
  mkSpace
    [ (0%N, mkEntry (DStruct (u "Node") None
                             [mkProp (u "next") RNone POptional 1%N; mkProp (u "v") RNone PRequired 3%N]
                             false) []);
      (1%N, mkEntry (DOption 2%N) []);
      (2%N, mkEntry (DBox 0%N) []);
      (3%N, mkEntry (DInteger (u "i8")) []) ]
    4%N (mkSettings None [] false (u "HashMap")) false false false false [].

Example C02_list_refused : forall re_match native_ok, covers_all re_match native_ok ex_D ex_T_bad ex_A = false.
Proof. intros. vm_compute. reflexivity. Qed.

Definition ex_ref_null : schema :=     (* {"$ref":"#/definitions/S","type":"null"} *)
  SObj (Some [TNull]) None None None numv_none strv_none ItemsAbsent [] None None None false
       [] [] None None None None None None None (Some (u "S")) None None.
Definition ex_T_optbool : space :=
  mkSpace [ (0%N, mkEntry (DOption 1%N) []); (1%N, mkEntry DBoolean []); (2%N, mkEntry DString []) ]
          3%N (mkSettings None [] false (u "HashMap")) false false false false [].

Example C02_ref_sibling_refused :
  forall re_match native_ok,
    covers re_match native_ok ex_T_optbool [(u "S", 2%N)] ex_ref_null false (TId 0%N) = false.
Proof. intros. vm_compute. reflexivity. Qed.

(* ------------------------------------------------------------------ a wider example
   Id    = {"type":"string","format":"uuid"}                          -> ::uuid::Uuid
   Name  = {"type":"string","minLength":1,"maxLength":8,"pattern":"^a"} -> constrained newtype
   Color = {"type":"string","enum":["red","green"]}                   -> enum with unit variants
   Item  = {"oneOf":[{"$ref":Id},{"type":"object","properties":{"n":{"$ref":Name}},
                                  "required":["n"],"additionalProperties":false}]}
                                                                       -> untagged enum, deny_unknown_fields
   Bag   = {"type":"object","required":["items"],
            "properties":{"items":{"type":"array","items":{"$ref":Item}},
                          "pair":{"type":"array","items":[{"type":"boolean"},{"type":"number"}],
                                  "minItems":2,"maxItems":2},
                          "color":{"$ref":Color}},
            "additionalProperties":{"type":"integer","format":"int32"}}
                                                                       -> struct with a flattened map *)
Definition sobj ty fmt enum nv sv ik items mni mxi props req ap oneo ref : schema :=
  SObj ty fmt enum None nv sv ik items None mni mxi false props req ap None None None None oneo None ref None None.
Definition sty (t : itype) : schema :=
  sobj (Some [t]) None None numv_none strv_none ItemsAbsent [] None None [] [] None None None.

Definition w_id : schema :=
  sobj (Some [TString]) (Some (u "uuid")) None numv_none strv_none ItemsAbsent [] None None [] [] None None None.
Definition w_name : schema :=
  sobj (Some [TString]) None None numv_none (mkStrv (Some 8%N) (Some 1%N) (Some (u "^a")))
       ItemsAbsent [] None None [] [] None None None.
Definition w_color : schema :=
  sobj (Some [TString]) None (Some [JStr (u "red"); JStr (u "green")]) numv_none strv_none
       ItemsAbsent [] None None [] [] None None None.
Definition w_item : schema :=
  sobj None None None numv_none strv_none ItemsAbsent [] None None [] [] None
       (Some [SRef (u "Id");
              sobj (Some [TObject]) None None numv_none strv_none ItemsAbsent [] None None
                   [(u "n", SRef (u "Name"))] [u "n"] (Some (SBool false)) None None]) None.
Definition w_bag : schema :=
  sobj (Some [TObject]) None None numv_none strv_none ItemsAbsent [] None None
       [ (u "items", sobj (Some [TArray]) None None numv_none strv_none ItemsSingle [SRef (u "Item")]
                          None None [] [] None None None);
         (u "pair", sobj (Some [TArray]) None None numv_none strv_none ItemsTuple [sty TBoolean; sty TNumber]
                         (Some 2%N) (Some 2%N) [] [] None None None);
         (u "color", SRef (u "Color")) ]
       [u "items"]
       (Some (sobj (Some [TInteger]) (Some (u "int32")) None numv_none strv_none ItemsAbsent [] None None
                   [] [] None None None))
       None None.

Definition w_D : defs :=
  [(u "Id", w_id); (u "Name", w_name); (u "Color", w_color); (u "Item", w_item); (u "Bag", w_bag)].
Definition w_T : space :=
  mkSpace
    [ (0%N, mkEntry (DNative (u "::uuid::Uuid") [] []) []);
      (1%N, mkEntry (DNewtype (u "Name") None 2%N (CString (Some 8%N) (Some 1%N) (Some (u "^a")))) []);
      (2%N, mkEntry DString []);
      (3%N, mkEntry (DEnum (u "Color") None TagExternal
                           [mkVariant (u "red") (u "Red") VSimple; mkVariant (u "green") (u "Green") VSimple]
                           false []) []);
      (4%N, mkEntry (DEnum (u "Item") None TagUntagged
                           [mkVariant (u "Variant0") (u "Variant0") (VItem 0%N);
                            mkVariant (u "Variant1") (u "Variant1")
                                      (VStruct [mkProp (u "n") RNone PRequired 1%N])]
                           true []) []);
      (5%N, mkEntry (DStruct (u "Bag") None
                             [mkProp (u "items") RNone PRequired 6%N;
                              mkProp (u "pair") RNone POptional 7%N;
                              mkProp (u "color") RNone POptional 10%N;
                              mkProp (u "extra") RFlatten PRequired 11%N] false) []);
      (6%N, mkEntry (DVec 4%N) []);
      (7%N, mkEntry (DOption 8%N) []);
      (8%N, mkEntry (DTuple [9%N; 12%N]) []);
      (9%N, mkEntry DBoolean []);
      (10%N, mkEntry (DOption 3%N) []);
      (11%N, mkEntry (DMap 2%N 13%N) []);
      (12%N, mkEntry (DFloat (u "f64")) []);
      (13%N, mkEntry (DInteger (u "i32")) []) ]
    14%N (mkSettings None [] false (u "HashMap")) false false true false [].
Definition w_A : list (ustring * id) :=
  [(u "Id", 0%N); (u "Name", 1%N); (u "Color", 3%N); (u "Item", 4%N); (u "Bag", 5%N)].

Example C02_wide_covers : forall re_match native_ok, covers_all re_match native_ok w_D w_T w_A = true.
Proof. intros. vm_compute. reflexivity. Qed.

Example C02_wide_sound :
  forall re_match fmt_ok native_ok,
    (forall f n s, In (f, n) format_native_table -> fmt_ok f s = true -> native_ok n s = true) ->
    forall v, in_dom v = true ->
    Valid re_match fmt_ok w_D (SRef (u "Bag")) v ->
    exists f, de re_match native_ok w_T f 5%N v <> None.
Proof.
  intros re_match fmt_ok native_ok Hf v Hd Hv.
  apply (covers_sound re_match fmt_ok native_ok w_D w_T w_A Hf (C02_wide_covers _ _) (u "Bag") 5%N);
    [right; right; right; right; left; reflexivity | exact Hd | exact Hv].
Qed.

Definition w_bag_instance : json :=
  JObj [ (u "items", JArr [JStr (u "9f0c"); JObj [(u "n", JStr (u "ab"))]]);
         (u "pair", JArr [JBool true; JFlt (3 # 2)]);
         (u "color", JStr (u "red"));
         (u "x", JInt 5) ].

Example C02_wide_instance :
  let yes := fun _ _ : ustring => true in
  in_dom w_bag_instance = true
  /\ Valid yes yes w_D (SRef (u "Bag")) w_bag_instance
  /\ de yes yes w_T 6 5%N w_bag_instance <> None.
Proof.
  split; [reflexivity|]. split.
  - exists 4. split; vm_compute; reflexivity.
  - vm_compute. discriminate.
Qed.

(* ------------------------------------------------------------------ tagged and typed enums
   Lvl  = {"type":"integer","enum":[1,2,3]}                           -> newtype over i64, values 1,2,3
   Ext  = {"oneOf":[{"type":"string","enum":["Off"]},
                    {"type":"object","properties":{"On":{"$ref":Lvl}},"required":["On"],
                     "additionalProperties":false},
                    {"type":"object","properties":{"Pair":{"type":"array","items":[{"type":"boolean"},{"$ref":Lvl}],
                                                            "minItems":2,"maxItems":2}},
                     "required":["Pair"],"additionalProperties":false}]}  -> externally tagged
   Int  = {"oneOf":[{"type":"object","properties":{"k":{"type":"string","enum":["a"]}},"required":["k"]},
                    {"type":"object","properties":{"k":{"type":"string","enum":["b"]},"x":{"$ref":Ext}},
                     "required":["k","x"]}]}                            -> internally tagged (tag k)
   Adj  = {"oneOf":[{"type":"object","properties":{"t":{"type":"string","enum":["n"]}},"required":["t"],
                     "additionalProperties":false},
                    {"type":"object","properties":{"t":{"type":"string","enum":["s"]},"c":{"$ref":Int}},
                     "required":["t","c"],"additionalProperties":false}]} -> adjacently tagged (t, c) *)
Definition str_enum (names : list string) : schema :=
  sobj (Some [TString]) None (Some (map (fun x => JStr (u x)) names)) numv_none strv_none
       ItemsAbsent [] None None [] [] None None None.
Definition obj (props : list (ustring * schema)) (req : list ustring) (ap : option schema) : schema :=
  sobj (Some [TObject]) None None numv_none strv_none ItemsAbsent [] None None props req ap None None.
Definition one_of (bs : list schema) : schema :=
  sobj None None None numv_none strv_none ItemsAbsent [] None None [] [] None (Some bs) None.

Definition t_lvl : schema :=
  sobj (Some [TInteger]) None (Some [JInt 1; JInt 2; JInt 3]) numv_none strv_none ItemsAbsent [] None None
       [] [] None None None.
Definition t_ext : schema :=
  one_of [ str_enum ["Off"%string];
           obj [(u "On", SRef (u "Lvl"))] [u "On"] (Some (SBool false));
           obj [(u "Pair", sobj (Some [TArray]) None None numv_none strv_none ItemsTuple
                                [sty TBoolean; SRef (u "Lvl")] (Some 2%N) (Some 2%N) [] [] None None None)]
               [u "Pair"] (Some (SBool false)) ].
Definition t_int : schema :=
  one_of [ obj [(u "k", str_enum ["a"%string])] [u "k"] None;
           obj [(u "k", str_enum ["b"%string]); (u "x", SRef (u "Ext"))] [u "k"; u "x"] None ].
Definition t_adj : schema :=
  one_of [ obj [(u "t", str_enum ["n"%string])] [u "t"] (Some (SBool false));
           obj [(u "t", str_enum ["s"%string]); (u "c", SRef (u "Int"))] [u "t"; u "c"] (Some (SBool false)) ].

Definition t_D : defs := [(u "Lvl", t_lvl); (u "Ext", t_ext); (u "Int", t_int); (u "Adj", t_adj)].
Definition t_T : space :=
  mkSpace
    [ (0%N, mkEntry (DNewtype (u "Lvl") None 1%N (CEnum [JInt 1; JInt 2; JInt 3])) []);
      (1%N, mkEntry (DInteger (u "i64")) []);
      (2%N, mkEntry (DEnum (u "Ext") None TagExternal
                           [mkVariant (u "Off") (u "Off") VSimple;
                            mkVariant (u "On") (u "On") (VItem 0%N);
                            mkVariant (u "Pair") (u "Pair") (VTuple [3%N; 0%N])] false []) []);
      (3%N, mkEntry DBoolean []);
      (4%N, mkEntry (DEnum (u "Int") None (TagInternal (u "k"))
                           [mkVariant (u "a") (u "A") VSimple;
                            mkVariant (u "b") (u "B") (VStruct [mkProp (u "x") RNone PRequired 2%N])]
                           false []) []);
      (5%N, mkEntry (DEnum (u "Adj") None (TagAdjacent (u "t") (u "c"))
                           [mkVariant (u "n") (u "N") VSimple;
                            mkVariant (u "s") (u "S") (VItem 4%N)] true []) []) ]
    6%N (mkSettings None [] false (u "HashMap")) false false false false [].
Definition t_A : list (ustring * id) := [(u "Lvl", 0%N); (u "Ext", 2%N); (u "Int", 4%N); (u "Adj", 5%N)].

Example C02_tagged_covers : forall re_match native_ok, covers_all re_match native_ok t_D t_T t_A = true.
Proof. intros. vm_compute. reflexivity. Qed.

Example C02_tagged_sound :
  forall re_match fmt_ok native_ok,
    (forall f n s, In (f, n) format_native_table -> fmt_ok f s = true -> native_ok n s = true) ->
    forall v, in_dom v = true ->
    Valid re_match fmt_ok t_D (SRef (u "Adj")) v ->
    exists f, de re_match native_ok t_T f 5%N v <> None.
Proof.
  intros re_match fmt_ok native_ok Hf v Hd Hv.
  apply (covers_sound re_match fmt_ok native_ok t_D t_T t_A Hf (C02_tagged_covers _ _) (u "Adj") 5%N);
    [right; right; right; left; reflexivity | exact Hd | exact Hv].
Qed.

Definition t_instance : json :=    (* {"t":"s","c":{"k":"b","x":{"Pair":[true,3]}}} *)
  JObj [(u "t", JStr (u "s"));
        (u "c", JObj [(u "k", JStr (u "b")); (u "x", JObj [(u "Pair", JArr [JBool true; JInt 3])])])].

Example C02_tagged_instance :
  let yes := fun _ _ : ustring => true in
  in_dom t_instance = true
  /\ Valid yes yes t_D (SRef (u "Adj")) t_instance
  /\ de yes yes t_T 8 5%N t_instance <> None.
Proof.
  split; [reflexivity|]. split.
  - exists 6. split; vm_compute; reflexivity.
  - vm_compute. discriminate.
Qed.

(* an open branch next to deny_unknown_fields is refused: {"k":"b","x":"Off","zzz":1}
   is valid for the second branch of Int but the struct variant rejects "zzz"
   (a unit variant would ignore it) *)
Definition t_T_deny : space :=
  mkSpace
    [ (0%N, mkEntry (DNewtype (u "Lvl") None 1%N (CEnum [JInt 1; JInt 2; JInt 3])) []);
      (1%N, mkEntry (DInteger (u "i64")) []);
      (2%N, mkEntry (DEnum (u "Ext") None TagExternal
                           [mkVariant (u "Off") (u "Off") VSimple;
                            mkVariant (u "On") (u "On") (VItem 0%N);
                            mkVariant (u "Pair") (u "Pair") (VTuple [3%N; 0%N])] false []) []);
      (3%N, mkEntry DBoolean []);
      (4%N, mkEntry (DEnum (u "Int") None (TagInternal (u "k"))
                           [mkVariant (u "a") (u "A") VSimple;
                            mkVariant (u "b") (u "B") (VStruct [mkProp (u "x") RNone PRequired 2%N])]
                           true []) []) ]
    5%N (mkSettings None [] false (u "HashMap")) false false false false [].

Example C02_open_branch_refused :
  forall re_match native_ok,
    covers re_match native_ok t_T_deny [(u "Lvl", 0%N); (u "Ext", 2%N); (u "Int", 4%N)] t_int false (TId 4%N) = false
    /\ Valid re_match (fun _ _ => true) t_D t_int (JObj [(u "k", JStr (u "b")); (u "x", JStr (u "Off")); (u "zzz", JInt 1)])
    /\ forall f, de re_match native_ok t_T_deny f 4%N (JObj [(u "k", JStr (u "b")); (u "x", JStr (u "Off")); (u "zzz", JInt 1)]) = None.
Proof.
  intros. split; [vm_compute; reflexivity|]. split.
  - exists 3. split; vm_compute; reflexivity.
  - intros [|[|[|f]]]; reflexivity.
Qed.
