(* Props/C05.v — C05: constraints represented in a generated type cannot be bypassed.
   Only statements; proofs are in Proofs/ExactProofs.v (and, for the conversion
   agreement and field visibility, in the already tied developments of C11 and C19).

   [de re_match native_ok T fuel t v] (IR/Serde.v) is the executable semantics of
   `serde_json::from_str::<T_t>(v)` on the generated code, tied to the COMPILED code by
   channel K5 on every run.  Everything is universally quantified over the type space T,
   the type t, the instance v, the fuel and over the external functions
     re_match    regress::Regex::find (unanchored)
     native_ok   FromStr/Deserialize of uuid/chrono/std::net natives.
   Lengths are counted in Unicode SCALAR VALUES ([chars_count] = length of the code-point
   list), never in bytes. *)
From Coq Require Import String Ascii ZArith NArith QArith List Bool.
From Typify Require Import Base.Json Spec.Schema Spec.Valid IR.TypeIR IR.Serde Check.Covers Check.Exact
  Proofs.ExactProofs.
From Typify Require Algo.StrConv Proofs.StrConvProofs Algo.Emit Proofs.EmitProofs Algo.Defaults Proofs.SerdeProofs.
Import ListNotations.
Close Scope Q_scope.
Close Scope string_scope.
Open Scope list_scope.

(* ================================================================== 1. inversion of [de]:
   an accepted document satisfies the represented constraint (one theorem per kind) *)

(* string minLength / maxLength in scalar values, pattern *)
Theorem C05_string_len_pattern_enforced :
  forall (re_match native_ok : ustring -> ustring -> bool) (T : space) (f : nat) (t : id) (v : json) (x : rval)
         n d inner mx mn pat,
    get_det T t = Some (DNewtype n d inner (CString mx mn pat)) ->
    de re_match native_ok T f t v = Some x ->
    exists s, v = JStr s
              /\ (forall m, mx = Some m -> (chars_count s <= m)%N)
              /\ (forall m, mn = Some m -> (m <= chars_count s)%N)
              /\ (forall p, pat = Some p -> re_match p s = true).
Proof. exact string_len_pattern_enforced. Qed.

(* string enums: the value names a variant.  The second disjunct is serde's alternative
   wire form of a unit variant, {"<raw>": null} - finding C05-F2 *)
Theorem C05_enum_member_enforced :
  forall (re_match native_ok : ustring -> ustring -> bool) (T : space) (f : nat) (t : id) (v : json) (x : rval)
         n d vs deny bes,
    get_det T t = Some (DEnum n d TagExternal vs deny bes) -> all_simple vs = true ->
    de re_match native_ok T f t v = Some x ->
    (exists s, v = JStr s /\ is_variant_raw vs s) \/
    (exists s, v = JObj [(s, JNull)] /\ is_variant_raw vs s).
Proof. exact simple_enum_member_enforced. Qed.

(* the statement at full strength holds outside finding C05-F2 *)
Definition Known_F2 (v : json) : Prop := exists k, v = JObj [(k, JNull)].

Theorem C05_enum_member_enforced_std :
  forall (re_match native_ok : ustring -> ustring -> bool) (T : space) (f : nat) (t : id) (v : json) (x : rval)
         n d vs deny bes,
    get_det T t = Some (DEnum n d TagExternal vs deny bes) -> all_simple vs = true ->
    ~ Known_F2 v ->
    de re_match native_ok T f t v = Some x ->
    exists s, v = JStr s /\ is_variant_raw vs s.
Proof.
  intros re nk T f t v x n d vs deny bes E Hs K H.
  destruct (simple_enum_member_enforced re nk T f t v x n d vs deny bes E Hs H) as [H1|[s [-> _]]];
    [exact H1 | exfalso; apply K; exists s; reflexivity].
Qed.

(* typed (non-string) enums: allow list *)
Theorem C05_enum_value_enforced :
  forall (re_match native_ok : ustring -> ustring -> bool) (T : space) (f : nat) (t : id) (v : json) (x : rval)
         n d inner vs,
    get_det T t = Some (DNewtype n d inner (CEnum vs)) ->
    de re_match native_ok T f t v = Some x ->
    exists e, In e vs /\ json_equiv v e = true.
Proof. exact enum_value_enforced. Qed.

(* `not enum` deny lists *)
Theorem C05_deny_list_enforced :
  forall (re_match native_ok : ustring -> ustring -> bool) (T : space) (f : nat) (t : id) (v : json) (x : rval)
         n d inner vs,
    get_det T t = Some (DNewtype n d inner (CDeny vs)) ->
    de re_match native_ok T f t v = Some x ->
    forall e, In e vs -> json_equiv v e = false.
Proof. exact deny_list_enforced. Qed.

(* ... and both kinds of value newtype still enforce their inner type *)
Theorem C05_value_newtype_inner :
  forall (re_match native_ok : ustring -> ustring -> bool) (T : space) (f : nat) (t : id) (v : json) (x : rval)
         n d inner c,
    get_det T t = Some (DNewtype n d inner c) ->
    (match c with CEnum _ | CDeny _ => True | _ => False end) ->
    de re_match native_ok T (S f) t v = Some x -> de re_match native_ok T f inner v <> None.
Proof. exact value_newtype_inner. Qed.

(* required properties: every PRequired member is present, unless its type reaches an
   Option through Box / `#[serde(transparent)]` newtypes / value-constrained newtypes
   ([SerdeProofs.missing_val] = the chase serde's `missing_field` performs: such a member is
   accepted when absent).  [missing_val T g i = None] for every g is decidable
   (Check/Exact.reaches_option over-approximates it: ExactProofs.reaches_option_chase). *)
Theorem C05_required_enforced :
  forall (re_match native_ok : ustring -> ustring -> bool) (T : space) (f : nat) (t : id)
         (kvs : list (ustring * json)) (x : rval) n d ps deny,
    get_det T t = Some (DStruct n d ps deny) ->
    de re_match native_ok T f t (JObj kvs) = Some x ->
    forall p w, In p ps -> p_state p = PRequired -> wire_name p = Some w ->
                (forall g, SerdeProofs.missing_val T g (p_ty p) = None) ->
                has_key w kvs = true.
Proof. exact required_enforced. Qed.

(* with the weaker side condition "not a DIRECT Option" the statement is false:
   `a : D0`, `struct D0(Option<bool>)`, instance {} *)
Theorem C05_required_enforced_direct_refuted :
  exists re native T f t kvs x n d ps deny p w,
    get_det T t = Some (DStruct n d ps deny) /\
    de re native T f t (JObj kvs) = Some x /\
    In p ps /\ p_state p = PRequired /\ wire_name p = Some w /\
    (forall t', get_det T (p_ty p) <> Some (DOption t')) /\
    has_key w kvs = false.
Proof. exact required_enforced_direct_refuted. Qed.

(* closed objects: deny_unknown_fields and nothing flattened => every key is a member's wire name *)
Theorem C05_closed_enforced :
  forall (re_match native_ok : ustring -> ustring -> bool) (T : space) (f : nat) (t : id)
         (kvs : list (ustring * json)) (x : rval) n d ps,
    get_det T t = Some (DStruct n d ps true) -> flat_props ps = [] ->
    de re_match native_ok T f t (JObj kvs) = Some x ->
    forall k j, In (k, j) kvs -> In k (wire_names ps).
Proof. exact closed_enforced. Qed.

(* fixed tuple / array length *)
Theorem C05_tuple_arity_enforced :
  forall (re_match native_ok : ustring -> ustring -> bool) (T : space) (f : nat) (t : id) (v : json) (x : rval) ts,
    get_det T t = Some (DTuple ts) -> de re_match native_ok T f t v = Some x ->
    exists l, v = JArr l /\ length l = length ts.
Proof. exact tuple_arity_enforced. Qed.

Theorem C05_array_arity_enforced :
  forall (re_match native_ok : ustring -> ustring -> bool) (T : space) (f : nat) (t : id) (v : json) (x : rval) t' n,
    get_det T t = Some (DArray t' n) -> de re_match native_ok T f t v = Some x ->
    exists l, v = JArr l /\ N.of_nat (length l) = n.
Proof. exact array_arity_enforced. Qed.

(* JSON type of scalars (integers additionally within the range of the Rust type) *)
Theorem C05_scalar_type_enforced :
  forall (re_match native_ok : ustring -> ustring -> bool) (T : space) (f : nat) (t : id) (v : json) (x : rval) d,
    get_det T t = Some d -> de re_match native_ok T f t v = Some x ->
    match d with
    | DBoolean => exists b, v = JBool b
    | DInteger nm => exists z, v = JInt z /\ in_int_range nm z = true
    | DFloat _ => (exists z, v = JInt z) \/ (exists q, v = JFlt q)
    | DString => exists s, v = JStr s
    | DUnit => v = JNull
    | DNative nm _ _ => exists s, v = JStr s /\ native_ok nm s = true
    | _ => True
    end.
Proof. exact scalar_type_enforced. Qed.

Theorem C05_integer_range_enforced :
  forall nm z lo hi nz, int_range_u nm = Some (lo, hi, nz) -> in_int_range nm z = true -> (lo <= z <= hi)%Z.
Proof. exact in_int_range_bounds. Qed.

(* tag values of tagged unions *)
Theorem C05_tag_enforced_internal :
  forall (re_match native_ok : ustring -> ustring -> bool) (T : space) (f : nat) (t : id) (v : json) (x : rval)
         n d tg vs deny bes,
    get_det T t = Some (DEnum n d (TagInternal tg) vs deny bes) ->
    de re_match native_ok T f t v = Some x ->
    exists kvs s, v = JObj kvs /\ assoc tg kvs = Some (JStr s) /\ is_variant_raw vs s.
Proof. exact internal_tag_enforced. Qed.

Theorem C05_tag_enforced_adjacent :
  forall (re_match native_ok : ustring -> ustring -> bool) (T : space) (f : nat) (t : id) (v : json) (x : rval)
         n d tg ct vs deny bes,
    get_det T t = Some (DEnum n d (TagAdjacent tg ct) vs deny bes) ->
    de re_match native_ok T f t v = Some x ->
    exists kvs s, v = JObj kvs /\ assoc tg kvs = Some (JStr s) /\ is_variant_raw vs s.
Proof. exact adjacent_tag_enforced. Qed.

Theorem C05_tag_enforced_external :
  forall (re_match native_ok : ustring -> ustring -> bool) (T : space) (f : nat) (t : id) (v : json) (x : rval)
         n d vs deny bes,
    get_det T t = Some (DEnum n d TagExternal vs deny bes) ->
    de re_match native_ok T f t v = Some x ->
    (exists s vr, v = JStr s /\ In vr vs /\ v_raw vr = s /\ v_det vr = VSimple) \/
    (exists k pj, v = JObj [(k, pj)] /\ is_variant_raw vs k).
Proof. exact external_tag_enforced. Qed.

(* ================================================================== 2. one validation for
   Deserialize / FromStr / TryFrom (the conversion templates are Algo/StrConv.v, tied to the
   compiled code by C11's check; the theorems below are C11's, restated for this property) *)

(* FromStr of a String-constrained newtype accepts exactly what Deserialize accepts *)
Theorem C05_from_str_iff_de_constrained :
  forall (re_match native_parse native_ok : ustring -> ustring -> bool) (T : space) (f f' : nat) (t : id)
         (s : ustring) n d inner mx mn pat,
    get_det T t = Some (DNewtype n d inner (CString mx mn pat)) ->
    (StrConv.from_str re_match native_parse T (S f) t s <> None <->
     de re_match native_ok T (S f') t (JStr s) <> None).
Proof. exact from_str_iff_de_constrained. Qed.

(* TryFrom<&str>, TryFrom<&String>, TryFrom<String> are `value.parse()` *)
Theorem C05_try_from_is_parse :
  forall (re_match native_parse : ustring -> ustring -> bool) (T : space) (f : nat) (t : id) (s : ustring),
    StrConv.emits_tryfrom T f t = true ->
    StrConv.try_from_str re_match native_parse T f t s = StrConv.from_str re_match native_parse T f t s /\
    StrConv.try_from_ref_string re_match native_parse T f t s = StrConv.from_str re_match native_parse T f t s /\
    StrConv.try_from_string_parse re_match native_parse T f t s = StrConv.from_str re_match native_parse T f t s.
Proof. exact StrConvProofs.try_from_eq_parse. Qed.

(* parse agrees with Deserialize-from-a-JSON-string on every string-wired type (simple enums,
   constrained / plain string newtypes, natives, untagged string unions) *)
Theorem C05_parse_is_de :
  forall (re_match native_parse : ustring -> ustring -> bool) (string_native : ustring -> bool)
         (T : space) (f : nat) (t : id) (s : ustring),
    StrConv.string_wired string_native T f t = true -> StrConv.wf_conv T f t = true -> StrConv.emits_fromstr T f t = true ->
    StrConv.from_str re_match native_parse T f t s = StrConv.de_str re_match native_parse T f t s.
Proof. exact StrConvProofs.parse_eq_de. Qed.

(* TryFrom<String> of allow / deny list newtypes over String is what Deserialize does *)
Theorem C05_try_from_inner_is_de :
  forall (re_match native_parse : ustring -> ustring -> bool) (string_native : ustring -> bool)
         (T : space) (f : nat) (t : id) (s : ustring),
    StrConv.string_wired string_native T f t = true -> StrConv.emits_tryfrom_inner T t = true ->
    StrConv.de_str re_match native_parse T f t s = StrConv.try_from_inner T t s.
Proof. exact StrConvProofs.try_from_inner_eq_de. Qed.

(* ================================================================== 3. no public field on a
   constrained newtype (Algo/Emit.v, tied by C19's scan correspondence) *)
Theorem C05_constrained_field_private :
  forall n df inner c,
    Emit.field_vis (DNewtype n df inner c) = [match c with CNone => Emit.Pub | _ => Emit.Private end].
Proof. exact (proj2 EmitProofs.field_visibility). Qed.


(* ================================================================== 4. transfer: what the schema
   states is what the type enforces (Check/Exact.v) *)

(* schema side: [root_ok] collects the constraints of the enforced kinds that a schema node
   states about the root of an instance; it is implied by validity, so an instance with
   root_ok = false is INVALID (for every definitions map, fuel, regex engine, format recogniser;
   integers written as integer literals: DESIGN 3.2) *)
Theorem C05_root_ok_of_valid :
  forall (re_match fmt_ok : ustring -> ustring -> bool) (D : defs) (n : nat) (s : schema) (v : json),
    validx re_match fmt_ok serde_ints D n s v = true -> root_ok re_match D s v = true.
Proof. exact root_ok_of_valid. Qed.

(* root-level soundness of the validator: if [exact] holds for (schema node, type) then every
   document the generated type accepts satisfies every enforced constraint the node states at
   its root - contrapositive: a document violating one of them is rejected.  Hypothesis
   [std_wire_at]: the document does not use one of serde's two alternative wire forms (a JSON
   array for a struct - outside the enforced kinds; {"Variant": null} for a unit variant -
   finding C05-F2).
   FULL STATEMENT (not proved; the checker evaluates it, see notes/C05.md): the same for the
   constraints stated at every position below the root (members, items, map values, referenced
   definitions) and for the tag constants of tagged unions:
     exact_all re D T A = true -> In (r, t) A -> resolve_ref D r = Some s ->
     de re native T f t v = Some x -> (no alternative wire form anywhere in v) ->
     forall positions p of v described by s, root_ok re D (schema at p) (value at p) = true. *)
Theorem C05_exact_root_sound_partial :
  forall (re_match native_ok : ustring -> ustring -> bool) (D : defs) (T : space) (A : list (ustring * id))
         (s : schema) (t : id) (v : json) (f : nat) (x : rval),
    exact re_match D T A s t = true ->
    de re_match native_ok T f t v = Some x ->
    std_wire_at T FT t v = true ->
    root_ok re_match D s v = true.
Proof. exact exact_root_sound. Qed.

(* ... in the form of the property text: a root-level violation is rejected *)
Theorem C05_exact_root_rejects :
  forall (re_match native_ok : ustring -> ustring -> bool) (D : defs) (T : space) (A : list (ustring * id))
         (s : schema) (t : id) (v : json),
    exact re_match D T A s t = true ->
    std_wire_at T FT t v = true ->
    root_ok re_match D s v = false ->
    forall f, de re_match native_ok T f t v = None.
Proof.
  intros re nk D T A s t v E W R f. destruct (de re nk T f t v) as [x|] eqn:H; [|reflexivity].
  rewrite (exact_root_sound re nk D T A s t v f x E H W) in R. discriminate.
Qed.


(* lifting below the root, one step through struct members: if [exact] holds for an object schema
   against a struct type and the struct accepts an object, then for every declared property that is
   present, [exact] holds for (property schema, member type) and that type accepts the member's value
   (for a member that may be absent: null, or accepted by the type inside the Option - finding
   C05-F3).  The conclusion re-establishes the hypotheses of this theorem and of
   C05_exact_root_sound_partial at the member, so both apply along every path of struct members. *)
Theorem C05_exact_member_step :
  forall (re_match native_ok : ustring -> ustring -> bool) (D : defs) (T : space) (A : list (ustring * id))
         ty fmt enum cst nv sv ik items ai mni mxi uq props req ap mnp mxp no dflt title
         (t : id) n d ps deny (f : nat) (kvs : list (ustring * json)) (x : rval) (k : ustring) (s' : schema) (xv : json),
    exact re_match D T A
          (SObj ty fmt enum cst nv sv ik items ai mni mxi uq props req ap mnp mxp None None None no None dflt title) t = true ->
    get_det T t = Some (DStruct n d ps deny) ->
    de re_match native_ok T (S f) t (JObj kvs) = Some x ->
    In (k, s') props -> assoc k kvs = Some xv ->
    exists p t', find_wire k ps = Some p /\ exact re_match D T A s' t' = true /\
                 member_accepts re_match native_ok T f p t' xv.
Proof. exact exact_member_step. Qed.

(* ... so a present, non-null member value satisfies what its property schema states at its root.
   _partial: one level of struct members per application (iterate with C05_exact_member_step); array
   items, tuple positions, map values, "$ref" targets and tag constants are evaluated by [exact] but
   their lifting is not proved. *)
Theorem C05_exact_member_sound_partial :
  forall (re_match native_ok : ustring -> ustring -> bool) (D : defs) (T : space) (A : list (ustring * id))
         ty fmt enum cst nv sv ik items ai mni mxi uq props req ap mnp mxp no dflt title
         (t : id) n d ps deny (f : nat) (kvs : list (ustring * json)) (x : rval) (k : ustring) (s' : schema) (xv : json),
    exact re_match D T A
          (SObj ty fmt enum cst nv sv ik items ai mni mxi uq props req ap mnp mxp None None None no None dflt title) t = true ->
    get_det T t = Some (DStruct n d ps deny) ->
    de re_match native_ok T (S f) t (JObj kvs) = Some x ->
    In (k, s') props -> assoc k kvs = Some xv ->
    xv <> JNull ->
    (forall t', std_wire_at T FT t' xv = true) ->
    root_ok re_match D s' xv = true.
Proof. exact exact_member_sound. Qed.


(* ================================================================== 5. the transfer theorem at
   ANY depth.  [viol re D s v] (Check/Exact.v, an inductive predicate over schema/instance paths):
   [v] violates a constraint of the enforced kinds that [s] states at some position reached through
   "$ref", declared properties, array elements, tuple positions, typed additionalProperties values,
   the non-null branch of a nullable union, or the tag of a (internally / adjacently) tagged oneOf -
   what the eight single-constraint mutators produce.  If the validator accepts the document's
   definitions against the type space ([exact_all], evaluated on the REAL IR and instantiated in the
   kernel for every explored document by the check), every such instance is rejected by the
   generated type, for every fuel.
   Side conditions carried by [viol] (notes/C05.md): the violating node is not one of serde's
   alternative wire forms ([alt_free]: struct from an array; {"V": null} - finding C05-F2); below the
   root the walk does not pass through the value null (finding C05-F3).
   _partial in one respect only: the tag transfer of EXTERNALLY tagged enums (the single key of
   {"Variant": payload}) and the constraints inside the variants of tagged / untagged unions have no
   [viol] constructor - [exact] evaluates them ([ext_branch_x]) and C05_tag_enforced_external covers
   the type side, but the lifting is not proved. *)
Theorem C05_exact_sound_partial :
  forall (re_match native_ok : ustring -> ustring -> bool) (D : defs) (T : space) (A : list (ustring * id)),
    exact_all re_match D T A = true ->
    forall r t s, In (r, t) A -> resolve_ref D r = Some s ->
    forall v, viol re_match D s v ->
    forall f, de re_match native_ok T f t v = None.
Proof. exact exact_sound. Qed.

(* the same for one (schema, type) pair whose references are discharged by [exact_all] *)
Theorem C05_exact_deep_sound :
  forall (re_match native_ok : ustring -> ustring -> bool) (D : defs) (T : space) (A : list (ustring * id)),
    exact_all re_match D T A = true ->
    forall s v, viol re_match D s v ->
    forall t f, exact re_match D T A s t = true -> de re_match native_ok T f t v = None.
Proof. exact exact_deep_sound. Qed.


(* ================================================================== 6. the unchecked constructors:
   `impl Default` and the `#[serde(default = ...)]` functions build a constrained newtype through its
   PRIVATE tuple constructor from the default [d] recorded in the type space - never through
   FromStr / TryFrom / Deserialize.  A default that passed the add-time check (Algo/Defaults.v
   [validate_value]: C06's model of defaults.rs after fix 9117497, tied to the real code by C06's
   check; C06_newtype_default_checked) satisfies the constraint, so the value these constructors
   build is one the type's own Deserialize accepts.  The check additionally EXECUTES every such
   constructor on the compiled code and feeds the built value back to Deserialize and to the oracle. *)
Theorem C05_validated_default_accepted_string :
  forall (re_match native_ok : ustring -> ustring -> bool) (T : space) (f f' : nat) (t : id)
         name def inner mx mn pat (d : json) k,
    get_det T t = Some (DNewtype name def inner (CString mx mn pat)) ->
    Defaults.validate_value re_match T (S f) t d = Defaults.ROk k ->
    de re_match native_ok T (S f') t d <> None.
Proof. exact validated_default_accepted_string. Qed.

Theorem C05_validated_default_satisfies_list :
  forall (re_match : ustring -> ustring -> bool) (T : space) (f : nat) (t : id) name def inner c (d : json) k,
    get_det T t = Some (DNewtype name def inner c) ->
    Defaults.validate_value re_match T (S f) t d = Defaults.ROk k ->
    match c with
    | CEnum vs => existsb (fun x => json_eqb x d) vs = true
    | CDeny vs => existsb (fun x => json_eqb x d) vs = false
    | _ => True
    end.
Proof. exact validated_default_satisfies_list. Qed.

(* ================================================================== witnesses *)
Definition noset := mkSettings None [] false [].
Definition nofn : ustring -> ustring -> bool := fun _ _ => false.
Definition u (s : string) : ustring := ustr_of_string s.

Definition S_string_enum (vals : list json) (mn : option N) : schema :=
  SObj (Some [TString]) None (Some vals) None numv_none (mkStrv None mn None) ItemsAbsent [] None None None false
       [] [] None None None None None None None None None None.

(* ---- finding C05-F2: {"red": null} is accepted by the enum generated for
        {"type":"string","enum":["red","green"]} (replayed on the compiled code by the check) *)
Definition T_color : space :=
  mkSpace [(1%N, mkEntry (DEnum (u "E") None TagExternal
                           [mkVariant (u "red") (u "Red") VSimple; mkVariant (u "green") (u "Green") VSimple]
                           false [AllSimpleVariants]) [])]
          2%N noset false false false false [].
Definition S_color := S_string_enum [JStr (u "red"); JStr (u "green")] None.
Definition v_F2 : json := JObj [(u "red", JNull)].

Theorem C05_unit_variant_object_refuted :
  exists (T : space) (t : id) (s : schema) (v : json) (x : rval),
    Known_F2 v /\
    exact nofn [] T [] s t = true /\
    de nofn nofn T 2 t v = Some x /\
    root_ok nofn [] s v = false.
Proof.
  exists T_color, 1%N, S_color, v_F2, (REnum 0 RUnit).
  split; [exists (u "red"); reflexivity|]. vm_compute. repeat split; reflexivity.
Qed.

(* ---- FIXED finding C05-F1 (/repo a53bb42): enum values were filtered at generation time by
        BYTE length (util.rs StringValidator::is_valid), so for {"enum":["é","ab"],"minLength":2}
        the variant "é" (1 scalar value, 2 bytes) was kept.  [T_bytelen] is the type space the
        pre-fix converter produced: the validator detects it ([exact] = false, a violating string is
        accepted); [T_bytelen_fixed] is what the converter produces now (the check replays the schema
        on the real code on every run: [exact] must be true, "é" rejected). *)
Definition T_bytelen : space :=
  mkSpace [(1%N, mkEntry (DEnum (u "E") None TagExternal
                           [mkVariant [233%N] [201%N] VSimple; mkVariant (u "ab") (u "Ab") VSimple]
                           false [AllSimpleVariants]) [])]
          2%N noset false false false false [].
Definition T_bytelen_fixed : space :=
  mkSpace [(1%N, mkEntry (DEnum (u "E") None TagExternal [mkVariant (u "ab") (u "Ab") VSimple]
                           false [AllSimpleVariants]) [])]
          2%N noset false false false false [].
Definition S_bytelen := S_string_enum [JStr [233%N]; JStr (u "ab")] (Some 2%N).

Theorem C05_exact_detects_bytelen_filter :
  exists (T : space) (t : id) (s : schema) (v : json) (x : rval),
    de nofn nofn T 2 t v = Some x /\
    root_ok nofn [] s v = false /\
    exact nofn [] T [] s t = false.
Proof.
  exists T_bytelen, 1%N, S_bytelen, (JStr [233%N]), (REnum 0 RUnit).
  vm_compute. repeat split; reflexivity.
Qed.

Theorem C05_bytelen_regression :
  exact nofn [] T_bytelen_fixed [] S_bytelen 1%N = true /\
  (forall f, de nofn nofn T_bytelen_fixed f 1%N (JStr [233%N]) = None) /\
  de nofn nofn T_bytelen_fixed 2 1%N (JStr (u "ab")) = Some (REnum 0 RUnit).
Proof.
  split; [vm_compute; reflexivity|]. split; [|vm_compute; reflexivity].
  apply (C05_exact_root_rejects nofn nofn [] T_bytelen_fixed [] S_bytelen 1%N (JStr [233%N]));
    vm_compute; reflexivity.
Qed.

(* ---- finding C05-F3: a member that is not required is an Option<T>; serde reads an explicit
        null as None, so {"b": null} is accepted although the property's schema
        {"type":"boolean"} does not admit null (replayed on the compiled code by the check) *)
Definition T_optnull : space :=
  mkSpace [(1%N, mkEntry (DStruct (u "O") None [mkProp (u "b") RNone POptional 2%N] false) []);
           (2%N, mkEntry (DOption 3%N) []); (3%N, mkEntry DBoolean [])]
          4%N noset false false false false [].
Definition S_bool : schema :=
  SObj (Some [TBoolean]) None None None numv_none strv_none ItemsAbsent [] None None None false
       [] [] None None None None None None None None None None.

Theorem C05_optional_null_refuted :
  exists (T : space) (t : id) (ps : schema) (v : json) (x : rval),
    de nofn nofn T 4 t (JObj [(u "b", v)]) = Some x /\
    root_ok nofn [] ps v = false.
Proof.
  exists T_optnull, 1%N, S_bool, JNull, (RStruct [(u "b", ROptNone)]).
  vm_compute. split; reflexivity.
Qed.


(* ---- finding C05-F4: a closed variant that carries only the tag is a unit variant of an
        internally tagged enum; serde ignores all other members for it, even under
        deny_unknown_fields (replayed on the compiled code by the check) *)
Definition T_intunit : space :=
  mkSpace [(1%N, mkEntry (DEnum (u "TI") None (TagInternal (u "kind"))
                           [mkVariant (u "B") (u "B") VSimple] true []) [])]
          2%N noset false false false false [].

Theorem C05_internal_unit_variant_extra_refuted :
  exists (T : space) (t : id) (v : json) (x : rval),
    (exists n d tg vs bes, get_det T t = Some (DEnum n d (TagInternal tg) vs true bes)) /\
    v = JObj [(u "kind", JStr (u "B")); (u "zz", JInt 1)] /\
    de nofn nofn T 2 t v = Some x.
Proof.
  exists T_intunit, 1%N, (JObj [(u "kind", JStr (u "B")); (u "zz", JInt 1)]), (REnum 0 RUnit).
  split; [do 5 eexists; reflexivity|]. split; [reflexivity|]. vm_compute. reflexivity.
Qed.

(* ---------------- non-vacuity: the hypotheses are satisfiable, the conclusions bite ---------------- *)
Definition T_ex : space :=
  mkSpace [(1%N, mkEntry (DNewtype (u "S") None 2%N (CString (Some 3%N) (Some 1%N) None)) []);
           (2%N, mkEntry DString []);
           (3%N, mkEntry (DStruct (u "O") None
                            [mkProp (u "a") RNone PRequired 1%N; mkProp (u "b") RNone POptional 4%N] true) []);
           (4%N, mkEntry (DOption 2%N) []);
           (5%N, mkEntry (DTuple [2%N; 6%N]) []);
           (6%N, mkEntry (DInteger (u "u8")) []);
           (7%N, mkEntry (DNewtype (u "I") None 6%N (CEnum [JInt 1; JInt 2])) []);
           (8%N, mkEntry (DNewtype (u "D") None 2%N (CDeny [JStr (u "bad")])) []);
           (9%N, mkEntry (DEnum (u "U") None (TagInternal (u "k"))
                            [mkVariant (u "A") (u "A") VSimple;
                             mkVariant (u "B") (u "B") (VStruct [mkProp (u "n") RNone PRequired 6%N])]
                            false []) [])]
          10%N noset false false false false [].

Definition accepts (t : id) (v : json) : bool :=
  match de nofn nofn T_ex 6 t v with Some _ => true | None => false end.

Example C05_examples :
  (* three 2-byte scalars fit maxLength 3; four do not; the empty string misses minLength 1 *)
  accepts 1%N (JStr [233%N; 233%N; 233%N]) = true /\ accepts 1%N (JStr [233%N; 233%N; 233%N; 233%N]) = false /\
  accepts 1%N (JStr []) = false /\ accepts 1%N (JInt 1) = false /\
  (* required / closed *)
  accepts 3%N (JObj [(u "a", JStr (u "x"))]) = true /\ accepts 3%N (JObj []) = false /\
  accepts 3%N (JObj [(u "a", JStr (u "x")); (u "zz", JInt 1)]) = false /\
  (* tuple arity *)
  accepts 5%N (JArr [JStr []; JInt 7]) = true /\ accepts 5%N (JArr [JStr []]) = false /\
  accepts 5%N (JArr [JStr []; JInt 7; JInt 7]) = false /\
  (* scalar type and integer range *)
  accepts 6%N (JInt 255) = true /\ accepts 6%N (JInt 256) = false /\ accepts 6%N (JStr (u "7")) = false /\
  (* allow / deny lists *)
  accepts 7%N (JInt 2) = true /\ accepts 7%N (JInt 3) = false /\
  accepts 8%N (JStr (u "good")) = true /\ accepts 8%N (JStr (u "bad")) = false /\
  (* tags *)
  accepts 9%N (JObj [(u "k", JStr (u "A"))]) = true /\ accepts 9%N (JObj [(u "k", JStr (u "C"))]) = false /\
  accepts 9%N (JObj [(u "k", JStr (u "B")); (u "n", JInt 1)]) = true.
Proof. vm_compute. repeat split; reflexivity. Qed.

(* the transfer theorem is not vacuous: a constrained-string schema against T_ex's newtype *)
Definition S_str13 : schema :=
  SObj (Some [TString]) None None None numv_none (mkStrv (Some 3%N) (Some 1%N) None) ItemsAbsent [] None None None false
       [] [] None None None None None None None None None None.
Definition S_closed : schema :=
  SObj (Some [TObject]) None None None numv_none strv_none ItemsAbsent [] None None None false
       [(u "a", S_str13); (u "b", SObj (Some [TString; TNull]) None None None numv_none strv_none ItemsAbsent [] None None
                                      None false [] [] None None None None None None None None None None)]
       [u "a"] (Some (SBool false)) None None None None None None None None None.

Example C05_exact_examples :
  exact nofn [] T_ex [] S_str13 1%N = true /\
  exact nofn [] T_ex [] S_str13 2%N = false /\            (* a plain String does not represent the bounds *)
  exact nofn [] T_ex [] S_closed 3%N = true /\
  std_wire_at T_ex FT 3%N (JObj []) = true /\
  root_ok nofn [] S_closed (JObj []) = false /\            (* required member missing *)
  root_ok nofn [] S_closed (JObj [(u "a", JStr (u "x")); (u "zz", JInt 1)]) = false /\   (* closed *)
  root_ok nofn [] S_str13 (JStr [233%N; 233%N; 233%N; 233%N]) = false /\
  root_ok nofn [] S_str13 (JStr [233%N; 233%N; 233%N]) = true.
Proof. vm_compute. repeat split; reflexivity. Qed.

(* the member-level theorem bites: over-long member value of the closed struct of T_ex *)
Example C05_member_example :
  exact nofn [] T_ex [] S_closed 3%N = true /\
  get_det T_ex 3%N = Some (DStruct (u "O") None
                             [mkProp (u "a") RNone PRequired 1%N; mkProp (u "b") RNone POptional 4%N] true) /\
  In (u "a", S_str13) (sch_props S_closed) /\
  root_ok nofn [] S_str13 (JStr (u "abcd")) = false /\
  accepts 3%N (JObj [(u "a", JStr (u "abcd"))]) = false /\
  accepts 3%N (JObj [(u "a", JStr (u "abc"))]) = true.
Proof. vm_compute. repeat split; try reflexivity. left. reflexivity. Qed.

(* the any-depth theorem is not vacuous: a member two levels down (definition -> property) that is
   one scalar value too long, and an extra key / a missing member at the root *)
Definition D_ex : defs := [(u "O", S_closed)].
Definition A_ex : list (ustring * id) := [(u "O", 3%N)].

Example C05_deep_example :
  exact_all nofn D_ex T_ex A_ex = true /\
  viol nofn D_ex S_closed (JObj [(u "a", JStr (u "abcd"))]) /\
  viol nofn D_ex S_closed (JObj [(u "a", JStr (u "x")); (u "zz", JInt 1)]) /\
  (forall f, de nofn nofn T_ex f 3%N (JObj [(u "a", JStr (u "abcd"))]) = None).
Proof.
  assert (E : exact_all nofn D_ex T_ex A_ex = true) by (vm_compute; reflexivity).
  assert (V : viol nofn D_ex S_closed (JObj [(u "a", JStr (u "abcd"))])).
  { eapply (V_prop nofn D_ex S_closed (u "a") S_str13); try (vm_compute; reflexivity).
    - left. reflexivity.
    - discriminate.
    - apply V_here; vm_compute; reflexivity. }
  split; [exact E|]. split; [exact V|]. split.
  - apply V_here; vm_compute; reflexivity.
  - intros f. eapply (C05_exact_sound_partial nofn nofn D_ex T_ex A_ex E (u "O") 3%N S_closed);
      [left; reflexivity | vm_compute; reflexivity | exact V].
Qed.
